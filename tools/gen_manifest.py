#!/usr/bin/env python3
"""Regenerate /verif/MANIFEST.json from the table below (one entry per claimed property)."""
import json, os, subprocess

ROOT = os.path.dirname(os.path.dirname(os.path.abspath(__file__)))
ids = [json.loads(l)['id'] for l in open(os.path.join(ROOT, 'properties.jsonl'))]

PBT = "property-based testing (proptest strategies, seeded, shrinking)"
CHECKS = {
 'C01': dict(level='exploration', tech=PBT + " + exhaustive enumeration of small n; oracle: 4096-bit product / divisor / order predicate and an independent reference factorisation",
   text="Generated-input search over (n, selector, preferences): every selector on all n <= 2^16 and a stride to 2^22 exhaustively, plus thousands of constructed composites of 14 shapes with generated preferences, each run in a crash-isolated worker; every returned list is checked for product, order, absence of 0/1 and divisibility with arithmetic independent of the library. Sampling can show presence of a wrong product, not absence; the exhaustive part is complete for its range.",
   note="bnum 0.8 and u128 arithmetic; reference factorisation (own Miller-Rabin + Brent rho) for n < 2^64; 200..500-bit general composites out of budget; preferences include the verbosity level; inputs beyond the working range of Ecm128/Pm1/Ecm and integers with zero/all-ones interior words are judged on the list predicate only", ref='DESIGN.md section 2, C01'),
 'C02': dict(level='exploration', tech=PBT + " + exhaustive enumeration (Auto mode, n < 2^20 quick / 2^24 thorough); oracle: factorisation known by construction",
   text="Composites are built from certified primes (deterministic Miller-Rabin <= 64 bits, Pocklington certificates above), so the complete prime factorisation is ground truth and the library's own primality test is never consulted; Auto mode and the QS/ECM selectors inside their working range must return exactly that multiset, for thread counts None/2/8. Shapes are weighted to prime powers, squares of composites, many factors, tiny/close/repeated factors.",
   note="certified-prime generator and reference factorisation are trusted; forced selectors judged only inside stated working ranges (bits): Qs 40..100, Mpqs 40..110, Siqs 40..140, Ecm128 20..90, Ecm 20..128 (a perfect power m^k counts with the size of m); an incomplete answer under a thread pool is judged here only if the call without a pool is incomplete too (otherwise C04); published strong pseudoprimes and Carmichael numbers are fixed cases", ref='DESIGN.md section 2, C02'),
 'C03': dict(level='exploration', tech=PBT + " + boundary-class enumeration, crash-isolated worker subprocesses under two build profiles",
   text="Every case runs in a worker subprocess built twice (release; release + debug assertions + overflow checks): panics (with the repository frame as signature), aborts, signals and stack exhaustion are attributed to the case in flight. Domain: all ten selectors on every n < 2^17, tiny p*q / p^2 / p^3, 57..64-bit inputs and the top of the u64 range, integers around 2^52/2^64/2^80/2^128, 480..512-bit fast shapes, 513..1023-bit inputs that must be refused, and generated composites per selector.",
   note="termination only up to a per-case watchdog (inconclusive if hit); default preferences plus threads {None,2}, use_double and the verbosity level; one input of every bit length 432..512 (200..512 thorough) on Ecm/Auto; 512-bit inputs are refused since F34", ref='DESIGN.md section 2, C03'),
 'C04': dict(level='exploration', tech="differential testing over thread counts with repetition + seeded schedule perturbation and directed delay-only schedules (window, freeze, ambush, stale publication) through a yield hook + generated insertion orders replayed into the relation store",
   text="Schedules are sampled, not enumerated: (1) each generated contention-prone input is run with 2..16 threads repeatedly and compared with the single-threaded run (terminates, no panic, valid, complete if the reference is complete); (2) the same with seeded yields/spins/sleeps injected at every lock acquisition and completion check, and with four directed schedules that hold workers exactly where the shared completion bookkeeping (count, target, gap, done) is read, decided on or published; (3) because every mutation of the relation store happens under its write lock, any interleaving equals some order of add calls: recorded adds of real sieves are replayed in generated orders with the C11 invariants checked after every step.",
   note="cannot exclude races on the relaxed atomics; OS scheduling is outside the harness's control (said in DESIGN.md section 6)", ref='DESIGN.md section 2, C04'),
 'C05': dict(level='fault_enumeration', tech="fault injection: counter fault on the abort predicate, flip instant enumerated after a calibration run; latency measured inside the worker",
   text="The abort predicate returns true from its k-th poll onward; for small inputs a calibration run counts the polls P of an un-aborted run and every k in [0, min(P,64)] plus generated k up to P is run, for six polling selectors, single- and 4-threaded; long inputs (un-aborted run takes minutes) are aborted at early k so that ignoring the predicate is observable. Oracle: product predicate or declared failure, no crash, return within a fixed delay after the first true (slow runs are repeated alone and flagged only if slow three times).",
   note="monotone predicate; delay bound 10 s; non-polling stages (P-1, rho, linear algebra) are bounded at the sizes used; the class-group entry point (anchored file classgroup.rs) is run under the same predicate: once it fired the call must return without panic within the delay", ref='DESIGN.md section 2, C05'),
 'C06': dict(level='exploration', tech=PBT + " + exhaustive comparison with an independent sieve below 2^24 (quick) / 2^32 (thorough)",
   text="isprime64 is compared in both directions with a bitset sieve exhaustively on [0,2^24] (thorough: [0,2^32]) and with an independent 7-base deterministic Miller-Rabin on constructed strong-pseudoprime families, threshold neighbourhoods and millions of edge-biased 64-bit values incl. even ones; pseudoprime is checked one-sidedly on certified primes up to 512 bits, even numbers, Carmichael/Chernick products and p*q / p^2 of certified primes, and for agreement with isprime64 below 2^64.",
   note="reference Miller-Rabin base set {2,325,9375,28178,450775,9780504,1795265022} is a published deterministic set for 64 bits; Pocklington certificates for large primes", ref='DESIGN.md section 2, C06'),
 'C07': dict(level='exploration', tech=PBT + " with carry-path-directed generators; oracle: 4096-bit bnum arithmetic with %",
   text="Operation programs (mul/add/sub/inv/square/gcd, round trips) over odd moduli of 1..8 words biased to 2^(64k)-small, 2^(64k-1)+small, all-ones/single-bit words and certified primes, with operands 0,1,n-1,n/2,isqrt(n), factor-sharing and edge-biased values; double-width reduction on X < nR incl. all-ones high words; the 64-bit (mg_*) and 128-bit (ecm128) variants are compared with the reference and with ZmodN by exchanging raw residues. Carry-path labels are recomputed by the oracle.",
   note="501..512-bit moduli and mg_inv with n >= 2^63 are probed and labelled, not flagged; redc_large on its callers' domain", ref='DESIGN.md section 2, C07'),
 'C08': dict(level='exploration', tech=PBT + " + exhaustive sweeps (all primes < 2^16 for the 16-bit divider, all residues for small primes); oracle: native / % and bnum",
   text="Dividers (unsigned, signed, 16-bit, 128-bit, multiword), Inverter, inv_mod64, sqrt_mod, pow_mod, isqrt (incl. the SQUFOF helper) and perfect_power are compared with native integer arithmetic and the reference kit on boundary operands (multiples of p next to 2^31, 2^32, 2^63, 2^64, 2^127, i64::MIN/MAX, all-ones words) and generated ones, exhaustively where the domain is small.",
   note="each routine on its documented/implicit precondition (read from the callers)", ref='DESIGN.md section 2, C08'),
 'C09': dict(level='exploration', tech=PBT + " with constructive operand shapes; oracle: Euclid / textbook extended Euclid over 4096-bit integers",
   text="Operand pairs in the 1024-, 512- and 256-bit instantiations over the full width grid: edge-biased, scaled by a common factor, multiples, equal/zero, continued fractions with prescribed partial quotients (tiny, huge, around the 36-bit cap of the word-level reduction), next to the multiprecision-fallback boundary, short top words; gcd, Bezout identity evaluated without wrap, modular inverse in both outcomes. A per-case watchdog reports non-termination.",
   note="operands limited to the supported widths (1012 / 500 / 220 bits)", ref='DESIGN.md section 2, C09'),
 'C10': dict(level='exploration', tech=PBT + "; oracle: O(n^2) schoolbook polynomial arithmetic and closed-form families",
   text="Cyclic convolution (Schonhage-Strassen and NTT variants, any offset), Karatsuba/FFT/basic products, middle product, power-series inverse and quotient, from_roots, roots_eval / multi_eval, and the Fermat-number and multi-prime residue layers are compared coefficient by coefficient with schoolbook definitions over every word count and packing class, lengths straddling the thresholds, and closed-form families at sizes where O(n^2) is too slow.",
   note="bnum arithmetic; transform sizes up to 2^16 quick", ref='DESIGN.md section 2, C10'),
 'C11': dict(level='exploration', tech="stateful / model-based property testing (generated add histories against a multiset-of-congruences model) + observation of real sieve runs",
   text="A synthetic world with known square roots (n = PQ, roots by CRT/Cipolla) yields true congruences with controlled large-prime collisions; generated histories of complete/single/double/duplicate/trivial adds are interpreted by the relation store, and after every step every published cycle, stored partial and double is re-verified with independent modular arithmetic, pack/unpack is checked, and final_step must return only proper divisors. Real factorizations are observed through a hook and every published relation is re-verified.",
   note="histories respect the preconditions of add derived from the sieve callers", ref='DESIGN.md section 2, C11'),
 'C12': dict(level='exploration', tech=PBT + " over (n, multiplier, factor base, A, Gray-code index); oracle: exact integer identities and independent root counting",
   text="For classical QS, MPQS and SIQS polynomials the defining identity is evaluated exactly in wide integers and, for every factor-base prime, the stored roots are checked to be roots and to be as many as an independent count (Jacobi symbol, divisors of A, p | n), by brute force for small primes, along complete Gray-code walks.",
   note="n of 20..260 bits quick (400 thorough)", ref='DESIGN.md section 2, C12'),
 'C13': dict(level='exploration', tech=PBT + " with an exact model of the sieve (position divisible by prime iff residue in root table), bucket-overflow accounting recomputed by the model",
   text="Root tables are generated directly (real factor bases, synthetic roots incl. equal roots, 0 and p-1, overflow-forcing clusters), the sieve is run over all blocks, and every reported position must list every model prime unless its hit fell into a counted overflow; trial division by the listed primes must leave exactly the planted cofactor.",
   note="completeness of the candidate set is not part of the property (evidence only)", ref='DESIGN.md section 2, C13'),
 'C14': dict(level='exploration', tech=PBT + " with planted coranks; oracle: dense bit-matrix product and rank by plain Gaussian elimination",
   text="Matrices with sieve-like and uniform density, planted corank 0..100, zero and duplicate columns: every returned vector must be non-zero and annihilated; Gauss must return an independent family of size ncols - rank; Lanczos is run repeatedly over its own randomness on its design domain.",
   note="Lanczos only on matrices it is designed for (>= 256 rows, rank >= 200); a hang is inconclusive", ref='DESIGN.md section 2, C14'),
 'C15': dict(level='exploration', tech=PBT + "; oracle: affine twisted Edwards reference arithmetic modulo a prime factor + integer-level chain evaluation",
   text="All addition/doubling formulas of both implementations are checked for closure and mutual agreement and, modulo a small prime factor, against an independent affine implementation; addition chains are evaluated on the integer level and chain-based scalar multiplications are compared with double-and-add for all small scalars, every scalar within 64 of 2^64, smoothness-base products and 1024-bit scalars.",
   note="exceptional points excluded by construction", ref='DESIGN.md section 2, C15'),
 'C16': dict(level='exploration', tech="constructive property-based testing: primes built so that the promise holds by construction (P-1, P+1) or predicted by an independent point-order oracle (ECM), weighted to the stage-2 grid edges; exhaustive table check",
   text="The promise (group order = B1-powersmooth times at most one prime <= reported B2) is computed by the harness; when it holds a single run must split n separating p; whatever is returned must multiply to n with parts > 1. A pure table check compares every stage-2 row label with the structural coverage bound.",
   note="rows above d2 = 2^16 (quick) / 2^20 (thorough) only by the table check", ref='DESIGN.md section 2, C16'),
 'C17': dict(level='exploration', tech="exhaustive and generated comparison with an independent sieve; valuations of recorded exponent blocks",
   text="primes(k) for all k <= 4000 and generated k, PrimeSieve blockwise against an independent segmented sieve (all 65536 blocks in thorough), and for B1 on both sides of every implementation threshold the product of the stage-1 exponent blocks (incl. those actually flushed by pm1_impl, through a recorder hook) must be divisible by every prime power below B1 with no wrapped block.",
   note="u128 / bnum arithmetic", ref='DESIGN.md section 2, C17'),
 'C18': dict(level='exploration', tech=PBT + " + exhaustive enumeration of small fundamental discriminants; oracle: independent binary-quadratic-form arithmetic (reduced-form count, composition)",
   text="For every negative fundamental discriminant below a bound and generated ones up to 2^32+ the returned class number, invariants and generator coordinates are compared with an exhaustive reduced-form enumeration and group-structure computation; for all sizes every line of the relation file must compose to the principal form; above the enumerable range only one-sided checks apply.",
   note="give-up paths (None, 'failed to determine lattice index', 'not enough polynomials') mean no result was returned and are counted, not flagged", ref='DESIGN.md section 2, C18'),
 'C19': dict(level='exploration', tech=PBT + " with answers known by construction (U*diag(d)*V); oracle: fraction-free Bareiss, CRT determinants, textbook Smith normal form",
   text="Dense and sparse determinant routines, lattice index, Berlekamp-Massey and the Smith-type reduction are compared with independent exact integer linear algebra on matrices whose determinant / index / elementary divisors are known by construction.",
   note="the documented give-up panic of the lattice-index heuristic is counted, not flagged", ref='DESIGN.md section 2, C19'),
 'C20': dict(level='exploration', tech="exhaustive enumeration of a finite configuration space with structural predicates validated against the consumers",
   text="All bit lengths 1..512 x use_double x four sieve variants, all stage-2 rows and B2 values between rows, all strategy rows and the whole convolution dispatch are enumerated; each predicate is read off a consumer's assertion or buffer arithmetic and validated by actually starting the consumer on sampled sizes.",
   note="exhaustive: true in the evidence; predicates only where the consumer structurally requires them", ref='DESIGN.md section 2, C20'),
}

claimed_env = os.environ.get('YQV_CLAIMED')
claimed_file = os.path.join(ROOT, 'tools', 'claimed.txt')
claimed = (claimed_env.split(',') if claimed_env else open(claimed_file).read().split())

hooks = []
try:
    out = subprocess.run(['git', '-C', '/repo', 'log', '--format=%h %s'], capture_output=True, text=True).stdout
    hooks = [l.split()[0] for l in out.splitlines() if l.split(' ', 1)[1].startswith('verif hooks')]
except Exception:
    pass

m = {
 "version": 1,
 "setup_cmd": "./check --setup",
 "hooks": {
   "guard": "--cfg yamaquasi_verif",
   "enable": "RUSTFLAGS / .cargo/config.toml of /verif/harness pass --cfg yamaquasi_verif to every crate; /verif/check builds /repo's working tree as a cargo path dependency with it (profiles opt = release, chk = release + debug-assertions + overflow-checks)",
   "baseline_off_cmd": "cd /repo && cargo test --workspace --no-fail-fast --offline",
   "source_commits": hooks,
   "add_only": True,
 },
 "engines": [
   {"name": "yqv", "path": "harness", "serves_properties": [c for c in ids if c in claimed],
    "kind_free_text": "Rust harness (proptest 1.11 driven from a binary with seeded TestRunner, shrinking, replay files; exhaustive sweeps; crash-isolated worker subprocesses; two build profiles); oracle kit independent of the library (harness/src/oracle)"},
 ],
 "checks": [],
 "not_applicable": [],
 "notes": "See DESIGN.md. Exit codes: 0 held (KNOWN-FINDING lines allowed), 1 violation, 2 inconclusive, 3 harness self-check. known_findings.txt lists findings and fixed defects.",
}
for i in ids:
    if i in claimed:
        c = CHECKS[i]
        m["checks"].append({
            "property_id": i,
            "quick_cmd": f"./check {i} quick",
            "thorough_cmd": f"./check {i} thorough",
            "evidence_file": f"evidence/{i}.json",
            "replay_cmd_template": f"./check {i} --replay {{path}}",
            "engine": "yqv",
            "level_claimed": {"category": c['level'], "text": c['text'], "design_ref": c['ref']},
            "level_note": c['note'],
            "technique": c['tech'],
        })
    else:
        m["not_applicable"].append({"property_id": i, "reason": "check under construction in this session (module not merged yet); to be claimed once its check is committed and silent on the unchanged tree"})
json.dump(m, open(os.path.join(ROOT, 'MANIFEST.json'), 'w'), indent=1)
print('claimed:', [c['property_id'] for c in m['checks']])
