#!/bin/bash
# Merge a builder delivery: tools/merge.sh <name> <mod1,mod2> [oracle1,oracle2]
# copies module + oracle files, registers them, copies replays.  Hooks/fixes are applied by hand.
set -eu
N="$1"; MODS="$2"; ORACLES="${3:-}"
D="/tmp/b_$N/DELIVER"
S="/tmp/b_$N/verif/harness/src"
H=/verif/harness/src
for m in ${MODS//,/ }; do
    f="$D/harness/src/props/$m.rs"; [ -f "$f" ] || f="$S/props/$m.rs"
    cp "$f" "$H/props/$m.rs"
    grep -q "pub mod $m;" "$H/props/mod.rs" || sed -i "0,/^pub mod /s//pub mod $m;\npub mod /" "$H/props/mod.rs"
    grep -q "$m::DEF" "$H/props/mod.rs" || sed -i "s/vec!\[/vec![$m::DEF, /" "$H/props/mod.rs"
done
for o in ${ORACLES//,/ }; do
    f="$D/harness/src/oracle/$o.rs"; [ -f "$f" ] || f="$S/oracle/$o.rs"
    cp "$f" "$H/oracle/$o.rs"
    grep -q "pub mod $o;" "$H/oracle/mod.rs" || echo "pub mod $o;" >> "$H/oracle/mod.rs"
done
if [ -d "$D/replays" ]; then
    for d in "$D"/replays/*/; do
        id=$(basename "$d"); mkdir -p "/verif/replays/$id"
        for f in "$d"*.json; do [ -e "$f" ] || continue; case "$(basename $f)" in viol-*) ;; *) cp "$f" "/verif/replays/$id/";; esac; done
    done
fi
mkdir -p /verif/reports; [ -f "$D/REPORT.md" ] && cp "$D/REPORT.md" "/verif/reports/$N.md" || true
echo merged $N
