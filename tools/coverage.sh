#!/bin/bash
# Source-coverage measurement of the quick (or thorough) tiers: which lines of /repo/src the generated
# cases actually execute.  Not a check (nothing here is registered in MANIFEST.json): it is the
# "measure what the generator produces" step, used to find mechanisms named by a property that no
# generated case reaches.  Needs the nightly toolchain (llvm-profdata / llvm-cov).
#
#   tools/coverage.sh <workdir> [tier] [ID ...]      e.g.  tools/coverage.sh /tmp/cov quick C11 C14
#
# Output: <workdir>/report.txt (per-file table, all IDs merged), <workdir>/<ID>.txt (per property),
#         <workdir>/uncovered/<file>.txt (uncovered line ranges of the merged profile).
set -u
WORK="${1:?workdir}"; shift
TIER="${1:-quick}"; [ $# -gt 0 ] && shift
IDS=("$@"); [ ${#IDS[@]} -eq 0 ] && IDS=(C01 C02 C03 C04 C05 C06 C07 C08 C09 C10 C11 C12 C13 C14 C15 C16 C17 C18 C19 C20)
ROOT="$(cd "$(dirname "$0")/.." && pwd)"
BIN="$(dirname "$(rustup +nightly which rustc)")/../lib/rustlib/x86_64-unknown-linux-gnu/bin"
mkdir -p "$WORK/out" "$WORK/prof" "$WORK/uncovered"
(cd "$ROOT/harness" && RUSTUP_TOOLCHAIN=nightly RUSTFLAGS="--cfg yamaquasi_verif -C instrument-coverage" \
    cargo build --profile opt --bin yqv --target-dir "$WORK/target" 2>&1 | tail -1) || exit 2
# the chk-profile child is not instrumented: the ordinary one is used
[ -e "$WORK/target/chk" ] || ln -sfn "$ROOT/target/chk" "$WORK/target/chk"
IGN='(registry|rustc|harness|rustlib)'
for i in "${IDS[@]}"; do
    mkdir -p "$WORK/prof/$i"
    LLVM_PROFILE_FILE="$WORK/prof/$i/p-%p-%m.profraw" YQV_ROOT="$ROOT" YQV_SCRATCH="$WORK/out" \
        timeout 7200 "$WORK/target/opt/yqv" "$i" --tier "$TIER" --seed "${VERIF_SEED:-1}" 2>/dev/null | grep -E '^(VIOLATION|RESULT|INCONCL|SELF)'
    "$BIN/llvm-profdata" merge -sparse "$WORK/prof/$i"/*.profraw -o "$WORK/$i.profdata" && rm -rf "$WORK/prof/$i"
    "$BIN/llvm-cov" report "$WORK/target/opt/yqv" -instr-profile="$WORK/$i.profdata" --ignore-filename-regex="$IGN" >"$WORK/$i.txt" 2>/dev/null
done
"$BIN/llvm-profdata" merge -sparse "$WORK"/C*.profdata -o "$WORK/all.profdata"
"$BIN/llvm-cov" report "$WORK/target/opt/yqv" -instr-profile="$WORK/all.profdata" --ignore-filename-regex="$IGN" >"$WORK/report.txt" 2>/dev/null
"$BIN/llvm-cov" show "$WORK/target/opt/yqv" -instr-profile="$WORK/all.profdata" --ignore-filename-regex="$IGN" \
    --show-line-counts-or-regions=false --use-color=false >"$WORK/show.txt" 2>/dev/null
python3 "$ROOT/tools/coverage_uncovered.py" "$WORK/show.txt" "$WORK/uncovered"
cat "$WORK/report.txt"
