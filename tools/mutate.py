#!/usr/bin/env python3
"""Sensitivity runs: apply a mutation to a scratch copy of /repo (never /repo itself) and run checks on it.

  tools/mutate.py --name m1 --sub 'src/arith_gcd.rs::OLD::NEW' [--sub ...] [--patch file.diff] --ids C09,C07 [--tests] [--tier quick] [--keep]

--sub replaces the first (and must-be-unique unless --all) occurrence of OLD by NEW in the file.
The copy lives in /tmp/yqv_mut/<name>/repo; the build output in /tmp/yqv_mut/target (shared, incremental);
both the copy and its outputs are removed at the end (the shared target is removed with --clean-target).
"""
import argparse, os, shutil, subprocess, sys, time

ap = argparse.ArgumentParser()
ap.add_argument('--name', required=True)
ap.add_argument('--sub', action='append', default=[])
ap.add_argument('--all', action='store_true')
ap.add_argument('--patch')
ap.add_argument('--ids', default='')
ap.add_argument('--tests', action='store_true')
ap.add_argument('--tier', default='quick')
ap.add_argument('--keep', action='store_true')
ap.add_argument('--seed', default='1')
ap.add_argument('--clean-target', action='store_true')
ap.add_argument('--from', dest='src', default='/repo')
a = ap.parse_args()

base = os.environ.get('YQV_MUT_BASE', '/tmp/yqv_mut')
here = os.path.dirname(os.path.dirname(os.path.abspath(__file__)))
work = f'{base}/{a.name}'
repo = f'{work}/repo'
shutil.rmtree(work, ignore_errors=True)
os.makedirs(work)
subprocess.check_call(['rsync', '-a', '--exclude', 'target', '--exclude', '.git', a.src + '/', repo + '/'])
for s in a.sub:
    f, old, new = s.split('::', 2)
    p = os.path.join(repo, f)
    t = open(p).read()
    n = t.count(old)
    if n == 0 or (n > 1 and not a.all):
        print(f'MUTATION {a.name}: pattern occurs {n} times in {f}: {old!r}')
        sys.exit(3)
    t = t.replace(old, new) if a.all else t.replace(old, new, 1)
    open(p, 'w').write(t)
if a.patch:
    subprocess.check_call(['patch', '-p1', '-d', repo, '-i', os.path.abspath(a.patch)])
res = {}
env = dict(os.environ, YQV_REPO=repo, YQV_TARGET=f'{base}/target', YQV_SCRATCH=f'{work}/out', VERIF_SEED=a.seed, CARGO_NET_OFFLINE='true')
if a.tests:
    t0 = time.time()
    r = subprocess.run(['cargo', 'test', '--offline', '--target-dir', f'{base}/target-tests'], cwd=repo, env=env, capture_output=True, text=True)
    ok = r.returncode == 0
    tail = [l for l in r.stdout.splitlines() if l.startswith('test result') or 'FAILED' in l or 'failed' in l][:8]
    print(f'MUTATION {a.name}: repo tests {"PASS" if ok else "FAIL"} ({time.time()-t0:.0f}s) {tail}')
    res['tests'] = ok
for i in [x for x in a.ids.split(',') if x]:
    t0 = time.time()
    r = subprocess.run([os.path.join(here, 'check'), i, a.tier], env=env, capture_output=True, text=True)
    lines = [l for l in r.stdout.splitlines() if l.startswith(('VIOLATION', 'KNOWN-FINDING', 'RESULT', 'BUILD', 'INCONCLUSIVE', 'error'))]
    verdict = {0: 'MISSED (exit 0)', 1: 'CAUGHT (exit 1)', 2: 'INCONCLUSIVE (exit 2)', 3: 'SELFCHECK (exit 3)'}.get(r.returncode, f'exit {r.returncode}')
    print(f'MUTATION {a.name}: {i} -> {verdict} in {time.time()-t0:.0f}s')
    for l in lines[:6]:
        print('    ' + l[:400])
    if r.returncode not in (0, 1):
        print('    stderr: ' + r.stderr[-600:])
    res[i] = r.returncode
if not a.keep:
    shutil.rmtree(work, ignore_errors=True)
if a.clean_target:
    shutil.rmtree(f'{base}/target', ignore_errors=True)
    shutil.rmtree(f'{base}/target-tests', ignore_errors=True)
