#!/usr/bin/env python3
"""Regenerate the table of seeded changes in DESIGN.md 7.4 from seeded/*/meta.json and tools/seeded_needs.json."""
import json, os, re, sys
ROOT = os.path.dirname(os.path.dirname(os.path.abspath(__file__)))
needs = json.load(open(os.path.join(ROOT, 'tools', 'seeded_needs.json')))
rows = []
stats = {'total': 0, 'own': 0, 'other_only': 0, 'missed': 0, 'unconfirmed': 0}
for name in sorted(os.listdir(os.path.join(ROOT, 'seeded'))):
    mp = os.path.join(ROOT, 'seeded', name, 'meta.json')
    if not os.path.exists(mp):
        continue
    m = json.load(open(mp))
    nd = needs.get(name, {})
    # keep meta.json self-contained
    if nd and (m.get('what') != nd.get('what') or m.get('needs') != nd.get('needs')):
        m['what'], m['needs'] = nd.get('what'), nd.get('needs')
        json.dump(m, open(mp, 'w'), indent=1)
    own = m['property']
    checks = m.get('checks', {})
    ownv = checks.get(f'{own}:quick', {}).get('verdict', 'not run')
    others = [f"{k.split(':')[0]} {v['verdict']}" for k, v in sorted(checks.items()) if not k.startswith(own + ':')]
    stats['total'] += 1
    if not m.get('confirmed'):
        stats['unconfirmed'] += 1
    if ownv == 'caught':
        stats['own'] += 1
    elif any(v.endswith('caught') for v in others):
        stats['other_only'] += 1
    else:
        stats['missed'] += 1
    rows.append(f"| {name} | {nd.get('what', '?')} | {nd.get('needs', '?')} | {'**caught**' if ownv == 'caught' else '*' + ownv + '*'} | {', '.join(others)} |")
table = "| change | what was changed | what it needs to manifest | own check (quick) | other checks |\n|---|---|---|---|---|\n" + "\n".join(rows) + "\n"
p = os.path.join(ROOT, 'DESIGN.md')
s = open(p).read()
i = s.index('| change | what was changed |')
j = s.index('\n\n', i)
s = s[:i] + table.rstrip('\n') + s[j:]
s = re.sub(r'\*\*(@OWN@|\d+) of (@TOTAL@|\d+) are caught by the quick tier of the property they target\*\*',
           f"**{stats['own']} of {stats['total']} are caught by the quick tier of the property they target**", s)
s = re.sub(r'(@OTHER@|\d+) more \(C01-2\)', f"{stats['other_only']} more (C01-2)", s)
open(p, 'w').write(s)
print(stats)
