#!/usr/bin/env python3
"""Confirm a seeded change delivered by an independent sub-agent and run our checks against it.

  tools/seedcheck.py --id C05 --change 1 --src /tmp/seed_C05_out/change1 --checks C05[,C03...] [--tier quick]

Everything happens in a scratch copy of /repo under /tmp/seedchk (removed afterwards), never in /repo:
  1. unchanged copy: the demonstration (examples/seed_demo.rs) must pass (exit 0)
  2. patched copy:   the demonstration must fail (exit != 0)
  3. patched copy:   `cargo test --offline` must still pass (82 tests)
  4. our checks (quick tier unless --tier) run against the patched copy through YQV_REPO
The change is kept as /verif/seeded/<id>-<change>/ (patch.diff, demo.rs, RUN.txt, NOTES.md, meta.json).
"""
import argparse, json, os, shutil, subprocess, sys, time

ap = argparse.ArgumentParser()
ap.add_argument('--id', required=True)
ap.add_argument('--change', required=True)
ap.add_argument('--src', required=True)
ap.add_argument('--checks', required=True)
ap.add_argument('--tier', default='quick')
ap.add_argument('--demo-timeout', type=int, default=1500)
ap.add_argument('--skip-confirm', action='store_true', help='only run the checks (confirmation already recorded)')
ap.add_argument('--demo-args', default='', help='arguments passed to the demonstration program')
ap.add_argument('--confirm-only', action='store_true', help='only (re)do the confirmation, keep recorded check results')
ap.add_argument('--append-to', help='with --test-name: append demo.rs to this source file instead of applying demo.diff')
ap.add_argument('--test-name', help='the demonstration is an in-crate #[test] added by demo.diff: name of the test')
a = ap.parse_args()

here = os.path.dirname(os.path.dirname(os.path.abspath(__file__)))
base = os.environ.get('SEEDCHK_BASE', '/tmp/seedchk')
work = f'{base}/{a.id}c{a.change}'
repo = f'{work}/repo'
shutil.rmtree(work, ignore_errors=True)
os.makedirs(work)
subprocess.check_call(['rsync', '-a', '--exclude', 'target', '--exclude', '.git', '/repo/', repo + '/'])
env = dict(os.environ, CARGO_NET_OFFLINE='true', CARGO_TARGET_DIR=f'{work}/target-demo')  # private: a shared target dir reused stale artifacts across copies
name = f'{a.id}-{a.change}'
out = os.path.join(here, 'seeded', name)
os.makedirs(out, exist_ok=True)
meta_path = os.path.join(out, 'meta.json')
meta = json.load(open(meta_path)) if os.path.exists(meta_path) else {}
meta.update({'property': a.id, 'change': a.change, 'source': 'independent sub-agent given only the property text and its own worktree'})

def run(cmd, timeout, **kw):
    t0 = time.time()
    try:
        r = subprocess.run(cmd, capture_output=True, text=True, timeout=timeout, **kw)
        return r.returncode, r.stdout, r.stderr, time.time() - t0
    except subprocess.TimeoutExpired as e:
        return 124, (e.stdout or b'').decode(errors='replace') if isinstance(e.stdout, bytes) else (e.stdout or ''), 'TIMEOUT', time.time() - t0

for f in ['patch.diff', 'demo.rs', 'RUN.txt', 'NOTES.md']:
    if os.path.exists(os.path.join(a.src, f)):
        shutil.copy(os.path.join(a.src, f), os.path.join(out, f))

demo = ['cargo', 'run', '--release', '--offline', '--example', 'seed_demo'] + (['--'] + a.demo_args.split() if a.demo_args else [])
if a.test_name:
    demo = ['cargo', 'test', '--offline', a.test_name]
    env = dict(env, CARGO_TARGET_DIR=f'{work}/target-tests')
    if os.path.exists(os.path.join(a.src, 'demo.diff')):
        shutil.copy(os.path.join(a.src, 'demo.diff'), os.path.join(out, 'demo.diff'))
if not a.skip_confirm and a.test_name and a.append_to:
    appended = '\n' + open(os.path.join(a.src, 'demo.rs')).read()
    open(os.path.join(repo, a.append_to), 'a').write(appended)
elif not a.skip_confirm and a.test_name:
    subprocess.check_call(['patch', '-p1', '-s', '--no-backup-if-mismatch', '-d', repo, '-i', os.path.join(a.src, 'demo.diff')])
if not a.skip_confirm:
    os.makedirs(f'{repo}/examples', exist_ok=True)
    shutil.copy(os.path.join(a.src, 'demo.rs'), f'{repo}/examples/seed_demo.rs') if not a.test_name else None
    rc0, so, se, dt = run(demo, a.demo_timeout, cwd=repo, env=env)
    print(f'SEED {name}: demo on unchanged copy -> exit {rc0} ({dt:.0f}s)')
    meta['demo_unchanged_exit'] = rc0
    meta['demo_args'] = a.demo_args
    meta['demo_unchanged_tail'] = (so + se)[-600:]
subprocess.check_call(['patch', '-p1', '-s', '--no-backup-if-mismatch', '-d', repo, '-i', os.path.join(a.src, 'patch.diff')])
if not a.skip_confirm:
    rc1, so, se, dt = run(demo, a.demo_timeout, cwd=repo, env=env)
    print(f'SEED {name}: demo on changed copy   -> exit {rc1} ({dt:.0f}s)')
    meta['demo_changed_exit'] = rc1
    meta['demo_changed_tail'] = (so + se)[-1200:]
    if not a.test_name:
        os.remove(f'{repo}/examples/seed_demo.rs')
    elif a.append_to:
        t = open(os.path.join(repo, a.append_to)).read()
        assert t.endswith(appended)
        open(os.path.join(repo, a.append_to), 'w').write(t[:-len(appended)])
    else:
        subprocess.check_call(['patch', '-R', '-p1', '-s', '--no-backup-if-mismatch', '-d', repo, '-i', os.path.join(a.src, 'demo.diff')])
    rct, so, se, dt = run(['cargo', 'test', '--offline'], 3000, cwd=repo, env=dict(env, CARGO_TARGET_DIR=f'{work}/target-tests'))
    res = [l for l in so.splitlines() if l.startswith('test result')]
    print(f'SEED {name}: cargo test on changed copy -> exit {rct} {res[:1]} ({dt:.0f}s)')
    meta['tests_exit'] = rct
    meta['tests_result'] = res[:1]
    meta['confirmed'] = bool(meta.get('demo_unchanged_exit') == 0 and meta.get('demo_changed_exit') not in (0, None) and rct == 0)

cenv = dict(os.environ, YQV_REPO=repo, YQV_TARGET=f'{base}/target', YQV_SCRATCH=f'{work}/out', CARGO_NET_OFFLINE='true')
checks = meta.get('checks', {})
for cid in [c for c in a.checks.split(',') if c and not a.confirm_only]:
    rc, so, se, dt = run([os.path.join(here, 'check'), cid, a.tier], 7200, env=cenv)
    lines = [l for l in so.splitlines() if l.startswith(('VIOLATION', 'KNOWN-FINDING', 'RESULT', 'INCONCLUSIVE', 'BUILD'))]
    verdict = {0: 'missed', 1: 'caught', 2: 'inconclusive', 3: 'selfcheck'}.get(rc, f'exit {rc}')
    print(f'SEED {name}: check {cid} {a.tier} -> {verdict} ({dt:.0f}s)')
    for l in lines[:4]:
        print('     ' + l[:300])
    checks[f'{cid}:{a.tier}'] = {'exit': rc, 'verdict': verdict, 'wall_s': round(dt), 'lines': [l[:400] for l in lines[:6]],
                                 'harness_commit': subprocess.run(['git', '-C', here, 'rev-parse', '--short', 'HEAD'], capture_output=True, text=True).stdout.strip()}
meta['checks'] = checks
meta['ran'] = 'tools/seedcheck.py: demo on unchanged and patched scratch copy of /repo, cargo test --offline on the patched copy, then ./check <ID> <tier> with YQV_REPO=<patched copy>'
json.dump(meta, open(meta_path, 'w'), indent=1)
shutil.rmtree(work, ignore_errors=True)
