#!/bin/bash
# Create an isolated development copy: /tmp/b_<name>/{verif,repo} (+ target, out) so that work on one
# property module cannot break the build of another.  Usage: tools/devcopy.sh <name>
set -eu
N="$1"; B="/tmp/b_$N"
mkdir -p "$B"
rsync -a --exclude target --exclude .git /verif/ "$B/verif/"
rsync -a --exclude target --exclude .git /repo/ "$B/repo/"
cat > "$B/env.sh" <<EOT
export YQV_REPO=$B/repo YQV_TARGET=$B/target YQV_SCRATCH=$B/out YQV_MUT_BASE=$B/mut CARGO_NET_OFFLINE=true
EOT
echo "source $B/env.sh ; then: $B/verif/check <ID> quick"
