#!/usr/bin/env python3
"""Split `llvm-cov show` output into per-file lists of uncovered line ranges.

  coverage_uncovered.py show.txt outdir

For every source file: outdir/<name>.txt with runs of consecutive lines whose execution count is 0
(lines without a count — declarations, comments — neither start nor break a run), each with its text.
"""
import os, re, sys

show, outdir = sys.argv[1], sys.argv[2]
os.makedirs(outdir, exist_ok=True)
cur, rows = None, {}
for line in open(show, errors='replace'):
    line = line.rstrip('\n')
    if line.endswith(':') and line.startswith('/') and '|' not in line:
        cur = line[:-1]
        rows[cur] = []
        continue
    m = re.match(r'\s*(\d+)\|\s*([0-9.]+[kMGE]?)?\|(.*)$', line)
    if m and cur:
        cnt = m.group(2)
        rows[cur].append((int(m.group(1)), None if cnt is None else cnt, m.group(3)))
for f, rs in rows.items():
    name = f.split('/src/', 1)[-1].replace('/', '_')
    out, run = [], []
    def flush():
        if run:
            out.append(f'--- lines {run[0][0]}..{run[-1][0]} ({len(run)} uncovered)')
            out.extend(f'{n:6d}: {t}' for n, t in run)
            run.clear()
    for n, c, t in rs:
        if c is None:
            continue
        if c == '0':
            run.append((n, t))
        else:
            flush()
    flush()
    tot = sum(1 for _, c, _ in rs if c is not None)
    unc = sum(1 for _, c, _ in rs if c == '0')
    with open(os.path.join(outdir, name + '.txt'), 'w') as o:
        o.write(f'# {f}: {unc} of {tot} counted lines never executed\n')
        o.write('\n'.join(out) + '\n')
