#!/usr/bin/env python3-vt
"""Validate MANIFEST.json and every evidence file against the schemas."""
import json, jsonschema, sys, os
root = os.path.dirname(os.path.dirname(os.path.abspath(__file__)))
m = json.load(open(f'{root}/MANIFEST.json'))
jsonschema.validate(m, json.load(open('/root/.vp/MANIFEST.schema.json')))
es = json.load(open('/root/.vp/EVIDENCE.schema.json'))
bad = 0
for c in m['checks']:
    p = os.path.join(root, c['evidence_file'])
    try:
        e = json.load(open(p)); jsonschema.validate(e, es)
        assert e['property_id'] == c['property_id'] and e['level'] == c['level_claimed']['category'], 'id/level mismatch'
        print(c['property_id'], 'ok', e['tier'], 'evals', e['coverage']['evaluations'], 'nt', e['coverage']['distinct_nontrivial'], 'samples', len(e['coverage']['samples']), 'viol', e.get('violations'))
    except Exception as ex:
        bad += 1; print(c['property_id'], 'INVALID', str(ex)[:200])
sys.exit(1 if bad else 0)
