//! yqv — property-based verification harness for remyoudompheng/yamaquasi.
//! See /verif/DESIGN.md.

#[macro_use]
pub mod engine;
pub mod fuzzdec;
pub mod gen;
pub mod oracle;
pub mod props;
pub mod ser;
pub mod worker;
