//! Crash-isolated worker subprocesses (DESIGN.md 0.4): `yqv --worker` reads one JSON job
//! per line on stdin and writes one JSON answer per line on stdout.  A job that kills the
//! process (stack overflow, abort) or hangs is attributed to the job in flight by the
//! parent, which restarts the worker and carries on.

use std::io::{BufRead, BufReader, Write};
use std::path::PathBuf;
use std::process::{Child, ChildStdin, Command, Stdio};
use std::sync::atomic::{AtomicUsize, Ordering};
use std::sync::mpsc::{channel, Receiver, RecvTimeoutError};
use std::sync::Mutex;
use std::time::{Duration, Instant};

use serde_json::Value;

#[derive(Debug, Clone)]
pub enum JobResult {
    Resp(Value),
    /// worker process died while this job was in flight (exit status text)
    Died(String),
    /// per-job watchdog fired (worker killed)
    Timeout,
}

struct Worker {
    child: Child,
    stdin: ChildStdin,
    rx: Receiver<String>,
}

fn spawn(bin: &PathBuf) -> std::io::Result<Worker> {
    let mut child = Command::new(bin)
        .arg("--worker")
        .stdin(Stdio::piped())
        .stdout(Stdio::piped())
        .stderr(Stdio::null())
        .spawn()?;
    let stdin = child.stdin.take().unwrap();
    let stdout = child.stdout.take().unwrap();
    let (tx, rx) = channel();
    std::thread::spawn(move || {
        for line in BufReader::new(stdout).lines() {
            match line {
                Ok(l) => {
                    if tx.send(l).is_err() {
                        break;
                    }
                }
                Err(_) => break,
            }
        }
    });
    Ok(Worker { child, stdin, rx })
}

pub fn binary_for(profile: &str) -> Option<PathBuf> {
    let exe = std::env::current_exe().ok()?;
    let dir = exe.parent()?.parent()?;
    let p = dir.join(profile).join("yqv");
    if p.exists() {
        Some(p)
    } else {
        None
    }
}

/// Run all jobs on `nworkers` worker processes of the given profile binary.
/// `timeout_s(job)` is the per-job watchdog.  Results are in job order.
pub fn run_jobs(
    profile: &str,
    jobs: &[Value],
    nworkers: usize,
    timeout_s: &(dyn Fn(&Value) -> f64 + Sync),
) -> Result<Vec<JobResult>, String> {
    let bin = binary_for(profile).ok_or_else(|| format!("worker binary for profile {} not built", profile))?;
    let next = AtomicUsize::new(0);
    let results: Mutex<Vec<Option<JobResult>>> = Mutex::new(vec![None; jobs.len()]);
    let nworkers = nworkers.max(1).min(jobs.len().max(1));
    std::thread::scope(|s| {
        for _ in 0..nworkers {
            s.spawn(|| {
                let mut w: Option<Worker> = None;
                loop {
                    let i = next.fetch_add(1, Ordering::Relaxed);
                    if i >= jobs.len() {
                        break;
                    }
                    if w.is_none() {
                        w = spawn(&bin).ok();
                    }
                    let Some(wk) = w.as_mut() else {
                        results.lock().unwrap()[i] = Some(JobResult::Died("cannot spawn worker".into()));
                        continue;
                    };
                    let line = serde_json::to_string(&jobs[i]).unwrap();
                    let sent = writeln!(wk.stdin, "{}", line).and_then(|_| wk.stdin.flush());
                    let res = if sent.is_err() {
                        JobResult::Died("worker stdin closed".into())
                    } else {
                        // The watchdog counts its own 250 ms polls instead of comparing clock readings, so that a
                        // pause of the whole machine (sandbox snapshot) or of this process is not mistaken for a
                        // job that exceeded its limit.
                        let limit_polls = (timeout_s(&jobs[i]) / 0.25).ceil() as u64;
                        let mut polls = 0u64;
                        loop {
                            match wk.rx.recv_timeout(Duration::from_millis(250)) {
                                Ok(l) => {
                                    break match serde_json::from_str::<Value>(&l) {
                                        Ok(v) => JobResult::Resp(v),
                                        Err(e) => JobResult::Died(format!("garbled worker answer: {}", e)),
                                    }
                                }
                                Err(RecvTimeoutError::Timeout) => {
                                    polls += 1;
                                    if polls > limit_polls {
                                        break JobResult::Timeout;
                                    }
                                }
                                Err(RecvTimeoutError::Disconnected) => {
                                    let st = wk.child.wait().map(|s| format!("{}", s)).unwrap_or_else(|e| e.to_string());
                                    break JobResult::Died(st);
                                }
                            }
                        }
                    };
                    if !matches!(res, JobResult::Resp(_)) {
                        if let Some(mut dead) = w.take() {
                            let _ = dead.child.kill();
                            let _ = dead.child.wait();
                        }
                    }
                    results.lock().unwrap()[i] = Some(res);
                }
                if let Some(mut wk) = w.take() {
                    drop(wk.stdin);
                    let t0 = Instant::now();
                    loop {
                        match wk.child.try_wait() {
                            Ok(Some(_)) => break,
                            _ if t0.elapsed() > Duration::from_secs(5) => {
                                let _ = wk.child.kill();
                                let _ = wk.child.wait();
                                break;
                            }
                            _ => std::thread::sleep(Duration::from_millis(5)),
                        }
                    }
                }
            });
        }
    });
    Ok(results
        .into_inner()
        .unwrap()
        .into_iter()
        .map(|r| r.unwrap_or(JobResult::Died("job not run".into())))
        .collect())
}

/// Worker main loop: dispatches each job to `handler` on a thread with an 8 MiB stack
/// (the size of the CLI's main thread), so that deep recursion behaves as in `ymqs`.
pub fn worker_main(handler: fn(&Value) -> Value) {
    let stdin = std::io::stdin();
    let stdout = std::io::stdout();
    for line in stdin.lock().lines() {
        let Ok(line) = line else { break };
        if line.trim().is_empty() {
            continue;
        }
        let job: Value = match serde_json::from_str(&line) {
            Ok(v) => v,
            Err(e) => {
                let mut o = stdout.lock();
                let _ = writeln!(o, "{}", serde_json::json!({"r": "bad-job", "msg": e.to_string()}));
                let _ = o.flush();
                continue;
            }
        };
        let th = std::thread::Builder::new()
            .stack_size(8 << 20)
            .spawn(move || handler(&job))
            .expect("spawn job thread");
        let resp = match th.join() {
            Ok(v) => v,
            Err(_) => serde_json::json!({"r": "harness-panic"}),
        };
        let mut o = stdout.lock();
        let _ = writeln!(o, "{}", serde_json::to_string(&resp).unwrap());
        let _ = o.flush();
    }
}
