//! serde helpers: big integers as decimal strings (canonical replay encoding).

use bnum::{BInt, BUint};
use serde::{Deserialize, Deserializer, Serializer};
use std::str::FromStr;

pub fn to_dec<const N: usize>(x: &BUint<N>) -> String {
    x.to_string()
}

pub fn from_dec<const N: usize>(s: &str) -> Option<BUint<N>> {
    if let Some(h) = s.strip_prefix("0x") {
        BUint::<N>::from_str_radix(h, 16).ok()
    } else {
        BUint::<N>::from_str(s).ok()
    }
}

/// `#[serde(with = "crate::ser::dec")] x: BUint<N>`
pub mod dec {
    use super::*;
    pub fn serialize<const N: usize, S: Serializer>(x: &BUint<N>, s: S) -> Result<S::Ok, S::Error> {
        s.serialize_str(&x.to_string())
    }
    pub fn deserialize<'de, const N: usize, D: Deserializer<'de>>(d: D) -> Result<BUint<N>, D::Error> {
        let s = String::deserialize(d)?;
        from_dec::<N>(&s).ok_or_else(|| serde::de::Error::custom(format!("bad integer {}", s)))
    }
}

/// `#[serde(with = "crate::ser::dec_vec")] xs: Vec<BUint<N>>`
pub mod dec_vec {
    use super::*;
    use serde::ser::SerializeSeq;
    pub fn serialize<const N: usize, S: Serializer>(xs: &Vec<BUint<N>>, s: S) -> Result<S::Ok, S::Error> {
        let mut seq = s.serialize_seq(Some(xs.len()))?;
        for x in xs {
            seq.serialize_element(&x.to_string())?;
        }
        seq.end()
    }
    pub fn deserialize<'de, const N: usize, D: Deserializer<'de>>(d: D) -> Result<Vec<BUint<N>>, D::Error> {
        let v = Vec::<String>::deserialize(d)?;
        v.iter()
            .map(|s| from_dec::<N>(s).ok_or_else(|| serde::de::Error::custom(format!("bad integer {}", s))))
            .collect()
    }
}

/// signed: `#[serde(with = "crate::ser::sdec")] x: BInt<N>`
pub mod sdec {
    use super::*;
    pub fn serialize<const N: usize, S: Serializer>(x: &BInt<N>, s: S) -> Result<S::Ok, S::Error> {
        s.serialize_str(&x.to_string())
    }
    pub fn deserialize<'de, const N: usize, D: Deserializer<'de>>(d: D) -> Result<BInt<N>, D::Error> {
        let s = String::deserialize(d)?;
        BInt::<N>::from_str(&s).map_err(|_| serde::de::Error::custom(format!("bad integer {}", s)))
    }
}

/// u64 / u128 as decimal strings (JSON numbers lose precision above 2^53 in many readers)
pub mod u64s {
    use super::*;
    pub fn serialize<S: Serializer>(x: &u64, s: S) -> Result<S::Ok, S::Error> {
        s.serialize_str(&x.to_string())
    }
    pub fn deserialize<'de, D: Deserializer<'de>>(d: D) -> Result<u64, D::Error> {
        let s = String::deserialize(d)?;
        s.parse().map_err(|_| serde::de::Error::custom(format!("bad u64 {}", s)))
    }
}
pub mod u128s {
    use super::*;
    pub fn serialize<S: Serializer>(x: &u128, s: S) -> Result<S::Ok, S::Error> {
        s.serialize_str(&x.to_string())
    }
    pub fn deserialize<'de, D: Deserializer<'de>>(d: D) -> Result<u128, D::Error> {
        let s = String::deserialize(d)?;
        s.parse().map_err(|_| serde::de::Error::custom(format!("bad u128 {}", s)))
    }
}
