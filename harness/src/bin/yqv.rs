//! CLI: yqv <ID> [--tier quick|thorough] [--seed N] [--replay FILE] [--child]
//!      yqv --worker          (crash-isolated factoring worker, see props/worker.rs)
//!      yqv --selftest

use std::io::{BufRead, BufReader};
use std::process::{Command, Stdio};

use yqv::engine::{self, Ctx, Fail, Tier};

fn usage() -> ! {
    eprintln!("usage: yqv <ID> [--tier quick|thorough] [--seed N] [--replay FILE] [--child] | --worker | --selftest | --list");
    std::process::exit(3)
}

fn main() {
    let args: Vec<String> = std::env::args().skip(1).collect();
    if args.is_empty() {
        usage();
    }
    engine::install_panic_hook();
    if args[0] == "--list" {
        for d in yqv::props::all() {
            println!("{}", d.id);
        }
        return;
    }
    if args[0] == "--worker" {
        yqv::worker::worker_main(yqv::props::factoring::handle_job);
        return;
    }
    if args[0] == "--selftest" {
        match yqv::oracle::int::self_test() {
            Ok(()) => println!("oracle kit self-test ok"),
            Err(e) => {
                eprintln!("oracle kit self-test FAILED: {}", e);
                std::process::exit(3);
            }
        }
        return;
    }
    let id = args[0].clone();
    let mut tier = match std::env::var("VERIF_TIER").as_deref() {
        Ok("thorough") => Tier::Thorough,
        _ => Tier::Quick,
    };
    let mut seed: u64 = std::env::var("VERIF_SEED").ok().and_then(|s| s.parse().ok()).unwrap_or(1);
    let mut replay: Option<String> = None;
    let mut child = false;
    let mut i = 1;
    while i < args.len() {
        match args[i].as_str() {
            "--tier" => {
                i += 1;
                tier = match args.get(i).map(|s| s.as_str()) {
                    Some("quick") => Tier::Quick,
                    Some("thorough") => Tier::Thorough,
                    _ => usage(),
                };
            }
            "--seed" => {
                i += 1;
                seed = args.get(i).and_then(|s| s.parse().ok()).unwrap_or_else(|| usage());
            }
            "--replay" => {
                i += 1;
                replay = Some(args.get(i).cloned().unwrap_or_else(|| usage()));
            }
            "--child" => child = true,
            "--fuzz-artifact" => {
                // yqv <ID> --fuzz-artifact <target> <file>: convert a libFuzzer artifact into a replay + VIOLATION line
                let target = args.get(i + 1).cloned().unwrap_or_else(|| usage());
                let file = args.get(i + 2).cloned().unwrap_or_else(|| usage());
                std::process::exit(fuzz_artifact(&id, &target, &file, seed, tier));
            }
            _ => usage(),
        }
        i += 1;
    }
    let Some(def) = yqv::props::find(&id) else {
        eprintln!("unknown property {}", id);
        std::process::exit(3);
    };
    if let Err(e) = yqv::oracle::int::self_test() {
        eprintln!("SELF-CHECK FAILED oracle kit: {}", e);
        std::process::exit(3);
    }
    let mut ctx = Ctx::new(def.id, tier, seed, def.level);
    ctx.child = child;

    if let Some(path) = replay {
        ctx.replay_mode = true;
        let code = replay_file(&ctx, &def, std::path::Path::new(&path), true);
        std::process::exit(code);
    }

    // 1. committed regression inputs (fixed defects, golden cases)
    if !child || ctx.is_chk() {
        let dir = ctx.root.join("replays").join(def.id);
        if let Ok(rd) = std::fs::read_dir(&dir) {
            let mut files: Vec<_> = rd
                .filter_map(|e| e.ok())
                .map(|e| e.path())
                .filter(|p| {
                    let n = p.file_name().and_then(|s| s.to_str()).unwrap_or("");
                    n.ends_with(".json") && !n.starts_with("viol-")
                })
                .collect();
            files.sort();
            let mut l = engine::Local::new();
            for f in files {
                replay_file(&ctx, &def, &f, false);
                l.label("committed-replay");
            }
            ctx.merge(l);
        }
    }
    // 2. the generated search
    std::thread::scope(|sc| {
        let mon = sc.spawn(|| ctx.fixed_monitor());
        (def.run)(&ctx);
        ctx.fixed_monitor_stop();
        mon.thread().unpark();
    });
    // 3. same under the chk profile
    if def.chk_child && !child && !ctx.is_chk() && std::env::var("YQV_NO_CHK").is_err() {
        run_chk_child(&ctx, &id);
    }
    std::process::exit(ctx.finish());
}

fn fuzz_artifact(id: &str, target: &str, file: &str, seed: u64, tier: Tier) -> i32 {
    let Ok(data) = std::fs::read(file) else {
        eprintln!("cannot read {}", file);
        return 3;
    };
    let Some(def) = yqv::props::find(id) else { return 3 };
    let mut ctx = Ctx::new(def.id, tier, seed, def.level);
    ctx.replay_mode = true;
    match yqv::fuzzdec::fuzz_one(target, &data) {
        None => 0,
        Some((_, _, Ok(()))) => {
            // the artifact was a sanitizer report / timeout / OOM rather than an oracle failure: keep it as inconclusive
            println!("INCONCLUSIVE property={} fuzz artifact {} does not fail the oracle when replayed (sanitizer report, timeout or OOM?)", id, file);
            2
        }
        Some((_, _, Err(f))) if f.class.starts_with("HARNESS|") || f.class.starts_with("PROBE|") => 0,
        Some((check, case, Err(f))) => {
            if ctx.violation(check, &f, case) {
                1
            } else {
                0
            }
        }
    }
}

/// Returns the exit code for --replay mode.
fn replay_file(ctx: &Ctx, def: &engine::PropDef, path: &std::path::Path, verbose: bool) -> i32 {
    let body: serde_json::Value = match std::fs::read_to_string(path)
        .map_err(|e| e.to_string())
        .and_then(|s| serde_json::from_str(&s).map_err(|e| e.to_string()))
    {
        Ok(v) => v,
        Err(e) => {
            ctx.selfcheck_failed(&format!("cannot read replay {}: {}", path.display(), e));
            return 3;
        }
    };
    // a replay recorded under one profile is only meaningful there if it says so
    if let Some(p) = body.get("only_profile").and_then(|v| v.as_str()) {
        if p != ctx.profile {
            if verbose {
                // re-run under the right binary
                if let Some(code) = rerun_under(p, &ctx.prop, path) {
                    return code;
                }
            }
            return 0;
        }
    }
    let check = body["check"].as_str().unwrap_or("").to_string();
    let r: Result<(), Fail> = (def.replay)(ctx, &check, &body["case"]);
    match r {
        Ok(()) => {
            if verbose {
                println!("replay passed: property={} check={} file={}", ctx.prop, check, path.display());
            }
            0
        }
        Err(f) => {
            if f.class.starts_with("HARNESS|") {
                ctx.selfcheck_failed(&format!("replay {}: {}", path.display(), f.what));
                3
            } else if ctx.violation_at(&check, &f, path) {
                1
            } else {
                0
            }
        }
    }
}

fn sibling_binary(profile: &str) -> Option<std::path::PathBuf> {
    let exe = std::env::current_exe().ok()?;
    let dir = exe.parent()?.parent()?;
    let p = dir.join(profile).join("yqv");
    if p.exists() {
        Some(p)
    } else {
        None
    }
}

fn rerun_under(profile: &str, id: &str, path: &std::path::Path) -> Option<i32> {
    let bin = sibling_binary(profile)?;
    let st = Command::new(bin).arg(id).arg("--replay").arg(path).status().ok()?;
    st.code()
}

fn run_chk_child(ctx: &Ctx, id: &str) {
    let Some(bin) = sibling_binary("chk") else {
        ctx.selfcheck_failed("chk-profile binary not built (run ./check --setup)");
        return;
    };
    let mut cmd = Command::new(bin);
    cmd.arg(id)
        .arg("--tier")
        .arg(ctx.tier.name())
        .arg("--seed")
        .arg(ctx.seed.to_string())
        .arg("--child")
        .stdout(Stdio::piped());
    let mut ch = match cmd.spawn() {
        Ok(c) => c,
        Err(e) => {
            ctx.selfcheck_failed(&format!("cannot start chk child: {}", e));
            return;
        }
    };
    let out = ch.stdout.take().unwrap();
    let mut got = false;
    for line in BufReader::new(out).lines().map_while(Result::ok) {
        if let Some(js) = line.strip_prefix("YQV-CHILD ") {
            if let Ok(v) = serde_json::from_str::<serde_json::Value>(js) {
                ctx.absorb_child(&v);
                got = true;
            }
        } else if line.starts_with("KNOWN-FINDING:") && ctx.known_already_printed(&line) {
            // the same finding was already reported by this (opt) process
        } else {
            println!("{}", line);
        }
    }
    let st = ch.wait();
    if !got {
        ctx.inconclusive(&format!("chk child ended without a summary ({:?})", st.map(|s| s.code())));
    }
}
