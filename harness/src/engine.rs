//! Shared runner: seeding, proptest driving + shrinking, counters, evidence,
//! replay files, known findings, exit codes.  See DESIGN.md section 0.
//!
//! Exit codes: 0 held, 1 violation (not listed as known finding), 2 inconclusive,
//! 3 harness self-check failed.

use std::cell::{Cell, RefCell};
use std::collections::{BTreeMap, BTreeSet, HashMap, HashSet};
use std::hash::{Hash, Hasher};
use std::path::PathBuf;
use std::sync::Mutex;
use std::time::Instant;

use proptest::strategy::Strategy;
use proptest::test_runner::{Config, RngAlgorithm, TestCaseError, TestError, TestRng, TestRunner};
use serde::Serialize;
use serde_json::{json, Value};

#[derive(Clone, Copy, PartialEq, Eq, Debug)]
pub enum Tier {
    Quick,
    Thorough,
}

impl Tier {
    pub fn name(&self) -> &'static str {
        match self {
            Tier::Quick => "quick",
            Tier::Thorough => "thorough",
        }
    }
}

/// A failed oracle.  `class` is stable under shrinking (entry point + location or
/// closed-form input class); `detail` pins the concrete input when the class alone
/// is too coarse for a known-finding entry.  The signature used for known findings is
/// `class` or `class|detail`.
#[derive(Clone, Debug)]
pub struct Fail {
    pub class: String,
    pub detail: String,
    pub what: String,
}

impl Fail {
    pub fn new(class: impl Into<String>, what: impl Into<String>) -> Fail {
        Fail {
            class: class.into(),
            detail: String::new(),
            what: what.into(),
        }
    }
    pub fn with_detail(mut self, d: impl Into<String>) -> Fail {
        self.detail = d.into();
        self
    }
    pub fn sig(&self) -> String {
        if self.detail.is_empty() {
            self.class.clone()
        } else {
            format!("{}|{}", self.class, self.detail)
        }
    }
}

/// Convenience: `ensure!(cond, "class", "text {}", x)`.
#[macro_export]
macro_rules! ensure {
    ($cond:expr, $class:expr, $($arg:tt)*) => {
        if !($cond) {
            return Err($crate::engine::Fail::new($class, format!($($arg)*)));
        }
    };
}

pub fn hash64<T: Hash + ?Sized>(t: &T) -> u64 {
    // DefaultHasher::new() uses fixed keys: deterministic across runs.
    #[allow(deprecated)]
    let mut h = std::collections::hash_map::DefaultHasher::new();
    t.hash(&mut h);
    h.finish()
}

// ---------------------------------------------------------------------------
// Panic capture

thread_local! {
    static LAST_PANIC: RefCell<Option<(String, String)>> = RefCell::new(None);
    static QUIET: Cell<u32> = Cell::new(0);
}
static PANIC_LOCS: Mutex<Option<HashMap<String, String>>> = Mutex::new(None);
static GLOBAL_QUIET: std::sync::atomic::AtomicU32 = std::sync::atomic::AtomicU32::new(0);

pub fn install_panic_hook() {
    let verbose = std::env::var("YQV_PANIC_VERBOSE").is_ok();
    let default = std::panic::take_hook();
    std::panic::set_hook(Box::new(move |info| {
        let msg = if let Some(s) = info.payload().downcast_ref::<&str>() {
            s.to_string()
        } else if let Some(s) = info.payload().downcast_ref::<String>() {
            s.clone()
        } else {
            "<non-string panic>".to_string()
        };
        let mut loc = info
            .location()
            .map(|l| format!("{}:{}", l.file(), l.line()))
            .unwrap_or_else(|| "?".into());
        // A panic raised inside a dependency (bnum overflow, core slice index): attribute it to the
        // innermost frame of the repository, which is what a known-finding signature must name.
        let repo = std::env::var("YQV_REPO").unwrap_or_else(|_| "/repo".into());
        if !loc.starts_with(&repo) && !loc.starts_with("src/") && !loc.contains("/harness/src/") {
            let bt = std::backtrace::Backtrace::force_capture().to_string();
            let needle = format!("at {}/src/", repo.trim_end_matches('/'));
            let lines: Vec<&str> = bt.lines().collect();
            for (i, line) in lines.iter().enumerate() {
                // frame header: "  12: yamaquasi::module::function"
                let Some((num, sym)) = line.trim().split_once(": ") else { continue };
                if !num.chars().all(|c| c.is_ascii_digit()) {
                    continue;
                }
                if !(sym.starts_with("yamaquasi::") || sym.starts_with("<yamaquasi::")) {
                    continue;
                }
                let at = lines.get(i + 1).filter(|l| l.contains(&needle));
                loc = match at {
                    Some(l) => {
                        let f = l.trim().trim_start_matches("at ").trim();
                        let f = match f.rfind(':') {
                            Some(j) if f[..j].contains(':') => &f[..j],
                            _ => f,
                        };
                        f.to_string()
                    }
                    None => format!("fn:{}", sym.trim()),
                };
                break;
            }
        }
        LAST_PANIC.with(|p| *p.borrow_mut() = Some((msg.clone(), loc.clone())));
        if let Ok(mut g) = PANIC_LOCS.lock() {
            let m = g.get_or_insert_with(HashMap::new);
            if m.len() < 10000 {
                m.insert(msg.clone(), loc.clone());
            }
        }
        let quiet = QUIET.with(|q| q.get()) > 0
            || GLOBAL_QUIET.load(std::sync::atomic::Ordering::Relaxed) > 0;
        if verbose || !quiet {
            default(info);
        }
    }));
}

#[derive(Clone, Debug)]
pub struct PanicInfo {
    pub msg: String,
    pub loc: String,
}

impl PanicInfo {
    /// Location with the repository prefix removed (`src/ecm.rs:965`).
    pub fn short_loc(&self) -> String {
        let l = &self.loc;
        if let Some(i) = l.find("/src/") {
            if !l.contains(".cargo/registry") {
                return l[i + 1..].to_string();
            }
        }
        if let Some(i) = l.find(".cargo/registry/src/") {
            let rest = &l[i + 20..];
            if let Some(j) = rest.find('/') {
                return rest[j + 1..].to_string();
            }
        }
        l.clone()
    }
    /// Message with digits collapsed, so that it is a class and not an input.
    pub fn msg_class(&self) -> String {
        let mut out = String::new();
        let mut in_num = false;
        for c in self.msg.chars().take(120) {
            if c.is_ascii_digit() {
                if !in_num {
                    out.push('#');
                }
                in_num = true;
            } else {
                in_num = false;
                out.push(c);
            }
        }
        out
    }
}

/// Run `f`, capturing a panic silently.
pub fn catch<T>(f: impl FnOnce() -> T) -> Result<T, PanicInfo> {
    QUIET.with(|q| q.set(q.get() + 1));
    // Library thread pools panic on other threads: silence those too while a
    // guarded call is running anywhere.
    GLOBAL_QUIET.fetch_add(1, std::sync::atomic::Ordering::Relaxed);
    LAST_PANIC.with(|p| *p.borrow_mut() = None);
    let r = std::panic::catch_unwind(std::panic::AssertUnwindSafe(f));
    GLOBAL_QUIET.fetch_sub(1, std::sync::atomic::Ordering::Relaxed);
    QUIET.with(|q| q.set(q.get() - 1));
    match r {
        Ok(v) => Ok(v),
        Err(payload) => {
            let msg = if let Some(s) = payload.downcast_ref::<&str>() {
                s.to_string()
            } else if let Some(s) = payload.downcast_ref::<String>() {
                s.clone()
            } else {
                "<non-string panic>".to_string()
            };
            let tl = LAST_PANIC.with(|p| p.borrow_mut().take());
            let loc = match tl {
                Some((m, l)) if m == msg => l,
                _ => PANIC_LOCS
                    .lock()
                    .ok()
                    .and_then(|g| g.as_ref().and_then(|m| m.get(&msg).cloned()))
                    .unwrap_or_else(|| "?".into()),
            };
            Err(PanicInfo { msg, loc })
        }
    }
}

/// Call into the library: a panic becomes a `Fail` of class `<entry>|panic@<file:line>`.
pub fn guard<T>(entry: &str, f: impl FnOnce() -> T) -> Result<T, Fail> {
    catch(f).map_err(|p| {
        Fail::new(
            format!("{}|panic@{}", entry, p.short_loc()),
            format!("{} panicked at {}: {}", entry, p.loc, truncate(&p.msg, 300)),
        )
    })
}

pub fn truncate(s: &str, n: usize) -> String {
    if s.len() <= n {
        s.to_string()
    } else {
        let mut e = n;
        while !s.is_char_boundary(e) {
            e -= 1;
        }
        format!("{}…", &s[..e])
    }
}

// ---------------------------------------------------------------------------
// Counters

#[derive(Default)]
pub struct Local {
    pub evals: u64,
    /// non-trivial cases that are distinct by construction (exhaustive sweeps)
    pub nt_bulk: u64,
    pub nt_keys: HashSet<u64>,
    pub labels: BTreeMap<String, u64>,
    pub samples: Vec<(String, Value)>,
    pub excluded: u64,
    sample_seen: BTreeMap<String, u32>,
}

impl Local {
    pub fn new() -> Local {
        Local::default()
    }
    /// one generated case was evaluated
    #[inline]
    pub fn case(&mut self) {
        self.evals += 1;
    }
    #[inline]
    pub fn cases(&mut self, n: u64) {
        self.evals += n;
    }
    /// a non-trivial case, distinct by `key` (hash of its canonical encoding)
    #[inline]
    pub fn nontrivial(&mut self, key: u64) {
        if self.nt_keys.len() < 4_000_000 {
            self.nt_keys.insert(key);
        }
    }
    pub fn nontrivial_of<T: Hash + ?Sized>(&mut self, t: &T) {
        self.nontrivial(hash64(t));
    }
    /// `n` non-trivial cases known to be pairwise distinct by construction
    /// (e.g. an exhaustive integer range) and distinct from all keyed ones
    #[inline]
    pub fn nontrivial_bulk(&mut self, n: u64) {
        self.nt_bulk += n;
    }
    #[inline]
    pub fn label(&mut self, l: &str) {
        if let Some(c) = self.labels.get_mut(l) {
            *c += 1;
        } else {
            self.labels.insert(l.to_string(), 1);
        }
    }
    pub fn label_n(&mut self, l: &str, n: u64) {
        *self.labels.entry(l.to_string()).or_insert(0) += n;
    }
    /// keep up to 2 samples per label
    pub fn sample(&mut self, label: &str, v: impl FnOnce() -> Value) {
        let c = self.sample_seen.entry(label.to_string()).or_insert(0);
        if *c < 2 {
            *c += 1;
            self.samples.push((label.to_string(), v()));
        }
    }
    pub fn merge(&mut self, o: Local) {
        self.evals += o.evals;
        self.nt_bulk += o.nt_bulk;
        self.excluded += o.excluded;
        if self.nt_keys.len() < 8_000_000 {
            self.nt_keys.extend(o.nt_keys);
        }
        for (k, v) in o.labels {
            *self.labels.entry(k).or_insert(0) += v;
        }
        for (l, v) in o.samples {
            let c = self.sample_seen.entry(l.clone()).or_insert(0);
            if *c < 2 {
                *c += 1;
                self.samples.push((l, v));
            }
        }
    }
}

// ---------------------------------------------------------------------------
// Known findings

#[derive(Clone, Debug)]
pub struct KnownFinding {
    pub property: String,
    pub sig: String,
    pub text: String,
}

pub fn load_known_findings(root: &std::path::Path) -> Vec<KnownFinding> {
    let mut out = vec![];
    let Ok(s) = std::fs::read_to_string(root.join("known_findings.txt")) else {
        return out;
    };
    for line in s.lines() {
        let line = line.trim();
        // `fixed:` lines suppress nothing.
        let Some(rest) = line.strip_prefix("finding:") else {
            continue;
        };
        let rest = rest.trim();
        let Some(rest) = rest.strip_prefix("property=") else {
            continue;
        };
        let Some((prop, rest)) = rest.split_once(' ') else {
            continue;
        };
        let Some(rest) = rest.trim().strip_prefix("sig=") else {
            continue;
        };
        let (sig, text) = match rest.split_once(" :: ") {
            Some((a, b)) => (a.trim(), b.trim()),
            None => (rest.trim(), ""),
        };
        out.push(KnownFinding {
            property: prop.to_string(),
            sig: sig.to_string(),
            text: text.to_string(),
        });
    }
    out
}

// ---------------------------------------------------------------------------
// Context

#[derive(Clone, Debug, Serialize)]
pub struct ViolationRec {
    pub check: String,
    pub class: String,
    pub detail: String,
    pub what: String,
    pub replay: String,
}

#[derive(Default)]
struct State {
    total: Local,
    violations: Vec<ViolationRec>,
    violation_sigs: BTreeSet<String>,
    known_hits: BTreeMap<String, (String, u64)>,
    inconclusive: Vec<String>,
    selfcheck: Vec<String>,
    rule: String,
    assumptions: Vec<String>,
    exhaustive: bool,
    extra: serde_json::Map<String, Value>,
    essential: Vec<(String, u64)>,
}

pub struct Ctx {
    pub prop: String,
    pub tier: Tier,
    pub seed: u64,
    /// "opt" or "chk" (release + debug assertions + overflow checks)
    pub profile: &'static str,
    /// running as the chk-profile child of a driver process
    pub child: bool,
    pub replay_mode: bool,
    /// /verif (or YQV_SCRATCH): where evidence/ and replays/ are written
    pub out_root: PathBuf,
    /// /verif: where committed replays and known_findings.txt are read
    pub root: PathBuf,
    pub level: String,
    state: Mutex<State>,
    known: Vec<KnownFinding>,
    start: Instant,
    /// the fixed case in flight: (generation, check, case), observed by `fixed_monitor`
    fixed_slot: Mutex<Option<(u64, String, Value)>>,
    fixed_gen: std::sync::atomic::AtomicU64,
    run_done: std::sync::atomic::AtomicBool,
}

pub fn profile_name() -> &'static str {
    if cfg!(debug_assertions) {
        "chk"
    } else {
        "opt"
    }
}

impl Ctx {
    pub fn new(prop: &str, tier: Tier, seed: u64, level: &str) -> Ctx {
        let root = PathBuf::from(std::env::var("YQV_ROOT").unwrap_or_else(|_| "/verif".into()));
        let out_root = std::env::var("YQV_SCRATCH")
            .map(PathBuf::from)
            .unwrap_or_else(|_| root.clone());
        let known = load_known_findings(&root)
            .into_iter()
            .filter(|k| k.property == prop)
            .collect();
        Ctx {
            prop: prop.to_string(),
            tier,
            seed,
            profile: profile_name(),
            child: false,
            replay_mode: false,
            out_root,
            root,
            level: level.to_string(),
            state: Mutex::new(State::default()),
            known,
            start: Instant::now(),
            fixed_slot: Mutex::new(None),
            fixed_gen: std::sync::atomic::AtomicU64::new(0),
            run_done: std::sync::atomic::AtomicBool::new(false),
        }
    }

    /// Watchdog of the fixed (non-generated) cases, run by the driver on its own thread next to the property's
    /// `run`: a fixed case that stays in flight for more than the per-case limit of *observed* polls (same rule
    /// and limits as `par_prop`) is reported as `<check>|nonterminating` with that case as replay; the evidence
    /// is written and the process exits.  Returns when `fixed_monitor_stop` was called.
    pub fn fixed_monitor(&self) {
        const POLL_S: f64 = 0.25;
        let limit: f64 = std::env::var("YQV_CASE_LIMIT").ok().and_then(|s| s.parse().ok()).unwrap_or(if self.quick() { 300.0 } else { 3600.0 });
        let mut seen: (u64, u64) = (0, 0);
        while !self.run_done.load(std::sync::atomic::Ordering::Relaxed) {
            std::thread::park_timeout(std::time::Duration::from_millis((POLL_S * 1000.0) as u64));
            let stuck = {
                let g = self.fixed_slot.lock().unwrap();
                match &*g {
                    Some((gen, check, v)) => {
                        if seen.0 == *gen {
                            seen.1 += 1;
                        } else {
                            seen = (*gen, 1);
                        }
                        if seen.1 as f64 * POLL_S > limit {
                            Some((check.clone(), v.clone()))
                        } else {
                            None
                        }
                    }
                    None => {
                        seen = (0, 0);
                        None
                    }
                }
            };
            if let Some((check, v)) = stuck {
                let fl = Fail::new(
                    format!("{}|nonterminating", check),
                    format!("a fixed case did not return within {} s of observed run time", limit),
                );
                self.violation(&check, &fl, v);
                let code = self.finish();
                std::process::exit(if code == 0 { 1 } else { code });
            }
        }
    }

    pub fn fixed_monitor_stop(&self) {
        self.run_done.store(true, std::sync::atomic::Ordering::Relaxed);
    }

    pub fn quick(&self) -> bool {
        self.tier == Tier::Quick
    }
    pub fn is_chk(&self) -> bool {
        self.profile == "chk"
    }
    /// pick a work amount by tier
    pub fn pick<T>(&self, quick: T, thorough: T) -> T {
        if self.quick() {
            quick
        } else {
            thorough
        }
    }
    /// number of generated cases: quick/thorough, divided by 4 under the chk profile child
    /// (debug assertions make the library several times slower)
    pub fn n(&self, quick: u64, thorough: u64) -> u64 {
        let v = self.pick(quick, thorough);
        // Quick tiers are fixed work sized for roughly 20-40 s on this 16-core machine: the cheap properties
        // get a multiple of the case counts their modules were first calibrated with (measured after the
        // builders delivered: they then ran for 3-10 s only).
        let boost: u64 = if self.quick() {
            match self.prop.as_str() {
                "C09" => 5,
                "C14" => 6,
                "C06" | "C17" | "C16" | "C02" => 3,
                "C01" | "C10" | "C11" | "C13" | "C15" | "C19" => 2,
                _ => 1,
            }
        } else {
            1
        };
        let v = v.saturating_mul(boost).min(thorough.max(v));
        let v = match std::env::var("YQV_SCALE").ok().and_then(|s| s.parse::<f64>().ok()) {
            Some(f) => ((v as f64) * f).max(1.0) as u64,
            None => v,
        };
        if self.is_chk() {
            (v / 4).max(1)
        } else {
            v
        }
    }
    pub fn elapsed(&self) -> f64 {
        self.start.elapsed().as_secs_f64()
    }

    pub fn set_rule(&self, r: &str) {
        self.state.lock().unwrap().rule = r.to_string();
    }
    pub fn assume(&self, a: &str) {
        let mut s = self.state.lock().unwrap();
        if !s.assumptions.iter().any(|x| x == a) {
            s.assumptions.push(a.to_string());
        }
    }
    pub fn set_exhaustive(&self, e: bool) {
        self.state.lock().unwrap().exhaustive = e;
    }
    pub fn extra(&self, k: &str, v: Value) {
        self.state.lock().unwrap().extra.insert(k.to_string(), v);
    }
    /// a label that must have at least `min` hits at the end of the run, otherwise the
    /// generator is vacuous for a class the design calls essential (exit 3)
    pub fn essential(&self, label: &str, min: u64) {
        self.state
            .lock()
            .unwrap()
            .essential
            .push((label.to_string(), min));
    }
    pub fn merge(&self, l: Local) {
        self.state.lock().unwrap().total.merge(l);
    }
    pub fn inconclusive(&self, why: &str) {
        eprintln!("INCONCLUSIVE property={} {}", self.prop, why);
        self.state.lock().unwrap().inconclusive.push(why.to_string());
    }
    pub fn selfcheck_failed(&self, why: &str) {
        eprintln!("SELF-CHECK FAILED property={} {}", self.prop, why);
        self.state.lock().unwrap().selfcheck.push(why.to_string());
    }
    pub fn label_count(&self, l: &str) -> u64 {
        *self.state.lock().unwrap().total.labels.get(l).unwrap_or(&0)
    }

    fn known_match(&self, f: &Fail) -> Option<&KnownFinding> {
        let sig = f.sig();
        self.known.iter().find(|k| k.sig == sig || k.sig == f.class)
    }

    /// Has a KNOWN-FINDING line with this signature already been printed by this process?
    /// (`line` is a KNOWN-FINDING line of the chk child, which ends in `[sig=...]`)
    pub fn known_already_printed(&self, line: &str) -> bool {
        let s = self.state.lock().unwrap();
        s.known_hits.keys().any(|sig| line.ends_with(&format!("[sig={}]", sig)))
    }

    /// Is this failure listed as a known finding?  (used by generators that want to
    /// exclude a confirmed finding by construction and keep searching)
    pub fn is_known(&self, f: &Fail) -> bool {
        self.known_match(f).is_some()
    }

    /// Record a failed oracle.  Known findings print KNOWN-FINDING once; anything else
    /// writes a replay file and prints a VIOLATION line.  Returns true if it counted
    /// as a (new) violation.
    pub fn violation(&self, check: &str, f: &Fail, case: Value) -> bool {
        if let Some(k) = self.known_match(f) {
            let mut s = self.state.lock().unwrap();
            let e = s
                .known_hits
                .entry(k.sig.clone())
                .or_insert((k.text.clone(), 0));
            e.1 += 1;
            if e.1 == 1 {
                println!(
                    "KNOWN-FINDING: property={} {} [sig={}]",
                    self.prop, k.text, k.sig
                );
            }
            return false;
        }
        let sig = format!("{}|{}", check, f.sig());
        {
            let mut s = self.state.lock().unwrap();
            if s.violation_sigs.contains(&sig) {
                return false;
            }
            s.violation_sigs.insert(sig.clone());
        }
        let body = json!({
            "property": self.prop,
            "check": check,
            "class": f.class,
            "detail": f.detail,
            "what": f.what,
            "profile": self.profile,
            "seed": self.seed,
            "tier": self.tier.name(),
            "case": case,
        });
        let dir = self.out_root.join("replays").join(&self.prop);
        let _ = std::fs::create_dir_all(&dir);
        let name = format!("viol-{:016x}.json", hash64(&(sig.as_str(), self.profile)));
        let path = dir.join(name);
        let _ = std::fs::write(&path, serde_json::to_string_pretty(&body).unwrap());
        println!(
            "VIOLATION property={} replay={} check={} profile={} sig={} :: {}",
            self.prop,
            path.display(),
            check,
            self.profile,
            f.sig(),
            truncate(&f.what, 600)
        );
        let mut s = self.state.lock().unwrap();
        s.violations.push(ViolationRec {
            check: check.to_string(),
            class: f.class.clone(),
            detail: f.detail.clone(),
            what: truncate(&f.what, 600),
            replay: path.display().to_string(),
        });
        true
    }

    /// Violation found while replaying a committed file: the replay path is that file.
    pub fn violation_at(&self, check: &str, f: &Fail, path: &std::path::Path) -> bool {
        if let Some(k) = self.known_match(f) {
            let mut s = self.state.lock().unwrap();
            let e = s
                .known_hits
                .entry(k.sig.clone())
                .or_insert((k.text.clone(), 0));
            e.1 += 1;
            if e.1 == 1 {
                println!(
                    "KNOWN-FINDING: property={} {} [sig={}]",
                    self.prop, k.text, k.sig
                );
            }
            return false;
        }
        let sig = format!("{}|{}", check, f.sig());
        let mut s = self.state.lock().unwrap();
        if s.violation_sigs.contains(&sig) {
            return false;
        }
        s.violation_sigs.insert(sig);
        println!(
            "VIOLATION property={} replay={} check={} profile={} sig={} :: {}",
            self.prop,
            path.display(),
            check,
            self.profile,
            f.sig(),
            truncate(&f.what, 600)
        );
        s.violations.push(ViolationRec {
            check: check.to_string(),
            class: f.class.clone(),
            detail: f.detail.clone(),
            what: truncate(&f.what, 600),
            replay: path.display().to_string(),
        });
        true
    }

    fn seed_bytes(&self, check: &str, shard: u64, attempt: u32) -> [u8; 32] {
        let mut out = [0u8; 32];
        for i in 0..4u64 {
            let h = hash64(&(self.seed, self.prop.as_str(), check, shard, attempt, i));
            out[(i as usize) * 8..(i as usize + 1) * 8].copy_from_slice(&h.to_le_bytes());
        }
        out
    }

    /// A deterministic proptest RNG for (seed, property, check, shard): for code that
    /// needs to draw values outside `run_prop` (e.g. building fixtures).
    pub fn rng(&self, check: &str, shard: u64) -> TestRng {
        TestRng::from_seed(RngAlgorithm::ChaCha, &self.seed_bytes(check, shard, 1000))
    }

    /// Draw `count` values from a strategy with the seeded RNG of (seed, property, check, shard):
    /// for checks whose cases are evaluated in batches by worker processes.
    pub fn sample_strategy<S: Strategy>(&self, check: &str, shard: u64, strat: &S, count: usize) -> Vec<S::Value> {
        use proptest::strategy::ValueTree;
        let rng = TestRng::from_seed(RngAlgorithm::ChaCha, &self.seed_bytes(check, shard, 0));
        let mut runner = TestRunner::new_with_rng(Config { failure_persistence: None, ..Config::default() }, rng);
        let mut out = Vec::with_capacity(count);
        let mut rejects = 0;
        while out.len() < count && rejects < 10_000 {
            match strat.new_tree(&mut runner) {
                Ok(t) => out.push(t.current()),
                Err(_) => rejects += 1,
            }
        }
        out
    }

    /// Drive `f` over `cases` values of `strat` (proptest, seeded from VERIF_SEED, the
    /// property, the check name and the shard), shrink a failure to a minimal case,
    /// record it, and keep searching behind it (failures of an already reported class
    /// are counted as `excluded`).  Counters go to `local`.
    pub fn run_prop<S, F>(&self, check: &str, shard: u64, cases: u64, strat: &S, local: &mut Local, f: F)
    where
        S: Strategy,
        S::Value: Serialize + Clone + std::fmt::Debug,
        F: Fn(&S::Value, &mut Local) -> Result<(), Fail>,
    {
        let mut remaining = cases.min(u32::MAX as u64) as u32;
        let seen: RefCell<BTreeSet<String>> = RefCell::new(BTreeSet::new());
        let loc = RefCell::new(std::mem::take(local));
        let mut attempt = 0u32;
        while remaining > 0 && attempt < 8 {
            let rng = TestRng::from_seed(RngAlgorithm::ChaCha, &self.seed_bytes(check, shard, attempt));
            let cfg = Config {
                cases: remaining,
                failure_persistence: None,
                max_shrink_iters: 2000,
                max_global_rejects: 1 << 20,
                max_local_rejects: 1 << 20,
                verbose: 0,
                ..Config::default()
            };
            let mut runner = TestRunner::new_with_rng(cfg, rng);
            let failing: RefCell<Option<String>> = RefCell::new(None);
            let passed = Cell::new(0u32);
            let res = runner.run(strat, |v| {
                let shrinking = failing.borrow().is_some();
                let r = if shrinking {
                    let mut tmp = Local::default();
                    catch(|| f(&v, &mut tmp))
                } else {
                    let mut l = loc.borrow_mut();
                    // every check contributes at least its first generated cases to the evidence samples
                    l.sample(&format!("generated:{}", check), || serde_json::to_value(&v).unwrap_or(Value::Null));
                    catch(|| f(&v, &mut l))
                };
                let r = match r {
                    Ok(r) => r,
                    Err(p) => Err(unguarded_panic(&p)),
                };
                match r {
                    Ok(()) => {
                        if !shrinking {
                            passed.set(passed.get() + 1);
                        }
                        Ok(())
                    }
                    // a generated case the oracle refuses as outside its domain (not a harness panic) is a
                    // rejected draw, not a verdict: counted, and the run fails its self-check only if such
                    // draws are frequent (see finish)
                    Err(fl) if !shrinking && fl.class.starts_with("HARNESS|") && !fl.class.starts_with("HARNESS|panic") => {
                        let mut l = loc.borrow_mut();
                        l.label(&format!("rejected-draw:{}", fl.class));
                        l.label("rejected-draws");
                        passed.set(passed.get() + 1);
                        Ok(())
                    }
                    Err(fl) => {
                        if shrinking {
                            // keep to the class being shrunk
                            if failing.borrow().as_deref() == Some(fl.class.as_str()) {
                                Err(TestCaseError::fail(fl.class))
                            } else {
                                Ok(())
                            }
                        } else if seen.borrow().contains(&fl.class) {
                            loc.borrow_mut().excluded += 1;
                            passed.set(passed.get() + 1);
                            Ok(())
                        } else {
                            *failing.borrow_mut() = Some(fl.class.clone());
                            Err(TestCaseError::fail(fl.class))
                        }
                    }
                }
            });
            match res {
                Ok(()) => break,
                Err(TestError::Fail(_, v)) => {
                    // Re-evaluate the minimal case to obtain its message.
                    let mut tmp = Local::default();
                    let r = match catch(|| f(&v, &mut tmp)) {
                        Ok(r) => r,
                        Err(p) => Err(unguarded_panic(&p)),
                    };
                    let class = failing.borrow().clone().unwrap_or_default();
                    let fl = match r {
                        Err(fl) => fl,
                        Ok(()) => Fail::new(
                            class.clone(),
                            "shrunk case did not fail again (non-deterministic)",
                        ),
                    };
                    seen.borrow_mut().insert(class);
                    let case = serde_json::to_value(&v).unwrap_or(Value::Null);
                    if fl.class.starts_with("HARNESS|") {
                        self.selfcheck_failed(&format!("{}: {}", check, fl.what));
                    } else {
                        self.violation(check, &fl, case);
                    }
                    remaining = remaining.saturating_sub(passed.get() + 1);
                    attempt += 1;
                }
                Err(TestError::Abort(r)) => {
                    self.selfcheck_failed(&format!(
                        "{}: proptest aborted (generator rejects too much): {}",
                        check, r
                    ));
                    break;
                }
            }
        }
        *local = loc.into_inner();
    }

    /// Run `run_prop` on `shards` parallel shards (rayon), `cases` in total.
    ///
    /// A watchdog thread observes the case in flight on every shard: a single case that does
    /// not return within `YQV_CASE_LIMIT` seconds of *observed* run time (default 300 quick / 3600 thorough; cases
    /// of the arithmetic properties cost micro- to milliseconds) is reported as a violation of class
    /// `<check>|nonterminating` with that case as replay, the evidence is written and the
    /// process exits (the stuck thread cannot be stopped).  DESIGN.md 0.4.
    pub fn par_prop<S, G, F>(&self, check: &str, shards: u64, cases: u64, mk: G, f: F)
    where
        S: Strategy,
        G: Fn() -> S + Sync,
        S::Value: Serialize + Clone + std::fmt::Debug + Send + 'static,
        F: Fn(&S::Value, &mut Local) -> Result<(), Fail> + Sync,
    {
        use rayon::prelude::*;
        let per = (cases + shards - 1) / shards;
        // quick cases cost micro- to milliseconds (seconds for the heaviest consumers under load); thorough tiers
        // contain cases that legitimately run for minutes (50 Lanczos runs on a 14000-row matrix)
        let limit: f64 = std::env::var("YQV_CASE_LIMIT")
            .ok()
            .and_then(|s| s.parse().ok())
            .unwrap_or(if self.quick() { 300.0 } else { 3600.0 });
        // slot = (generation, case): the generation changes with every case
        let slots: Vec<Mutex<Option<(u64, S::Value)>>> = (0..shards).map(|_| Mutex::new(None)).collect();
        let finished = std::sync::atomic::AtomicBool::new(false);
        std::thread::scope(|sc| {
            sc.spawn(|| {
                // The monitor counts its OWN polls during which it saw the same case in flight, instead of
                // comparing clock readings: a pause of the whole process or machine (snapshot, SIGSTOP) stops
                // the monitor as well and is not mistaken for a stuck case.
                const POLL_S: f64 = 0.25;
                let mut seen: Vec<(u64, u64)> = vec![(0, 0); slots.len()]; // (generation, polls)
                while !finished.load(std::sync::atomic::Ordering::Relaxed) {
                    std::thread::sleep(std::time::Duration::from_millis((POLL_S * 1000.0) as u64));
                    for (k, slot) in slots.iter().enumerate() {
                        let stuck = {
                            let g = slot.lock().unwrap();
                            match &*g {
                                Some((gen, v)) => {
                                    if seen[k].0 == *gen {
                                        seen[k].1 += 1;
                                    } else {
                                        seen[k] = (*gen, 1);
                                    }
                                    if seen[k].1 as f64 * POLL_S > limit {
                                        Some(v.clone())
                                    } else {
                                        None
                                    }
                                }
                                None => {
                                    seen[k] = (0, 0);
                                    None
                                }
                            }
                        };
                        if let Some(v) = stuck {
                            let fl = Fail::new(
                                format!("{}|nonterminating", check),
                                format!("a single case did not return within {} s of observed run time (normal cost: micro- to milliseconds)", limit),
                            );
                            self.violation(check, &fl, serde_json::to_value(&v).unwrap_or(Value::Null));
                            let code = self.finish();
                            std::process::exit(if code == 0 { 1 } else { code });
                        }
                    }
                }
            });
            (0..shards).into_par_iter().for_each(|sh| {
                let mut l = Local::new();
                let strat = mk();
                let slot = &slots[sh as usize];
                let counter = std::cell::Cell::new(0u64);
                self.run_prop(check, sh, per, &strat, &mut l, |v, l| {
                    counter.set(counter.get() + 1);
                    *slot.lock().unwrap() = Some(((sh << 40) | counter.get(), v.clone()));
                    let r = f(v, l);
                    *slot.lock().unwrap() = None;
                    r
                });
                // a case that panicked left its entry behind
                *slot.lock().unwrap() = None;
                self.merge(l);
            });
            finished.store(true, std::sync::atomic::Ordering::Relaxed);
        });
    }

    /// Evaluate one explicit case (fixed part of a tier: golden cases, boundary
    /// enumerations).  A failure is recorded with the case as replay.
    pub fn fixed_case<C: Serialize>(
        &self,
        check: &str,
        case: &C,
        local: &mut Local,
        f: impl FnOnce(&C, &mut Local) -> Result<(), Fail>,
    ) -> bool {
        let gen = self.fixed_gen.fetch_add(1, std::sync::atomic::Ordering::Relaxed) + 1;
        *self.fixed_slot.lock().unwrap() = Some((gen, check.to_string(), serde_json::to_value(case).unwrap_or(Value::Null)));
        let r = match catch(|| f(case, local)) {
            Ok(r) => r,
            Err(p) => Err(unguarded_panic(&p)),
        };
        *self.fixed_slot.lock().unwrap() = None;
        match r {
            Ok(()) => true,
            Err(fl) => {
                if fl.class.starts_with("HARNESS|") {
                    self.selfcheck_failed(&format!("{}: {}", check, fl.what));
                } else {
                    self.violation(check, &fl, serde_json::to_value(case).unwrap_or(Value::Null));
                }
                false
            }
        }
    }

    /// Summary for the parent process (chk child) or evidence + exit code.
    pub fn finish(&self) -> i32 {
        let mut s = self.state.lock().unwrap();
        // vacuity floors
        let ess = s.essential.clone();
        for (l, min) in ess {
            let c = *s.total.labels.get(&l).unwrap_or(&0);
            if c < min {
                let why = format!("essential label '{}' has {} hits (< {})", l, c, min);
                eprintln!("SELF-CHECK FAILED property={} {}", self.prop, why);
                s.selfcheck.push(why);
            }
        }
        let rejected = *s.total.labels.get("rejected-draws").unwrap_or(&0);
        if rejected > 100 && rejected * 100 > s.total.evals.max(1) {
            let why = format!("{} of {} generated cases were refused by the oracle as out of domain (generator needs fixing)", rejected, s.total.evals);
            eprintln!("SELF-CHECK FAILED property={} {}", self.prop, why);
            s.selfcheck.push(why);
        }
        let distinct = s.total.nt_keys.len() as u64 + s.total.nt_bulk;
        let samples: Vec<Value> = s
            .total
            .samples
            .iter()
            .take(40)
            .map(|(l, v)| json!({"label": l, "case": v}))
            .collect();
        let known: Vec<Value> = s
            .known_hits
            .iter()
            .map(|(k, (t, n))| json!({"sig": k, "text": t, "hits": n}))
            .collect();
        let code = if !s.violations.is_empty() {
            1
        } else if !s.selfcheck.is_empty() {
            3
        } else if !s.inconclusive.is_empty() {
            2
        } else {
            0
        };
        let mut coverage = serde_json::Map::new();
        coverage.insert("evaluations".into(), json!(s.total.evals));
        coverage.insert("distinct_nontrivial".into(), json!(distinct));
        coverage.insert("rule".into(), json!(s.rule));
        coverage.insert("samples".into(), json!(samples));
        coverage.insert("exhaustive".into(), json!(s.exhaustive));
        coverage.insert("labels".into(), json!(s.total.labels));
        coverage.insert("excluded_by_known_class".into(), json!(s.total.excluded));
        coverage.insert("known_findings_hit".into(), json!(known));
        coverage.insert("violation_list".into(), json!(s.violations));
        coverage.insert("inconclusive".into(), json!(s.inconclusive));
        coverage.insert("selfcheck_failures".into(), json!(s.selfcheck));
        coverage.insert("profile".into(), json!(self.profile));
        for (k, v) in s.extra.iter() {
            coverage.insert(k.clone(), v.clone());
        }
        let ev = json!({
            "property_id": self.prop,
            "tier": self.tier.name(),
            "seed": self.seed,
            "level": self.level,
            "coverage": Value::Object(coverage),
            "assumptions": s.assumptions,
            "wall_s": self.start.elapsed().as_secs_f64(),
            "violations": s.violations.len(),
            "exit_code": code,
        });
        if self.child {
            println!("YQV-CHILD {}", serde_json::to_string(&ev).unwrap());
        } else if !self.replay_mode {
            let dir = self.out_root.join("evidence");
            let _ = std::fs::create_dir_all(&dir);
            let path = dir.join(format!("{}.json", self.prop));
            if let Err(e) = std::fs::write(&path, serde_json::to_string_pretty(&ev).unwrap()) {
                eprintln!("cannot write evidence {}: {}", path.display(), e);
                return 3;
            }
            println!(
                "RESULT property={} tier={} seed={} profile={} evaluations={} distinct_nontrivial={} violations={} known_findings={} exit={} wall_s={:.1}",
                self.prop,
                self.tier.name(),
                self.seed,
                self.profile,
                s.total.evals,
                distinct,
                s.violations.len(),
                s.known_hits.len(),
                code,
                self.start.elapsed().as_secs_f64()
            );
        }
        code
    }

    /// Fold the summary of a chk-profile child run into this context.
    pub fn absorb_child(&self, ev: &Value) {
        let mut s = self.state.lock().unwrap();
        let cov = &ev["coverage"];
        s.total.evals += cov["evaluations"].as_u64().unwrap_or(0);
        // keys include the profile, so the two sets are disjoint
        s.total.nt_bulk += cov["distinct_nontrivial"].as_u64().unwrap_or(0);
        s.total.excluded += cov["excluded_by_known_class"].as_u64().unwrap_or(0);
        if let Some(m) = cov["labels"].as_object() {
            for (k, v) in m {
                *s.total.labels.entry(format!("chk:{}", k)).or_insert(0) += v.as_u64().unwrap_or(0);
                // essential labels may be satisfied by either profile
                *s.total.labels.entry(k.clone()).or_insert(0) += 0;
            }
        }
        if let Some(a) = cov["samples"].as_array() {
            for v in a.iter().take(4) {
                s.total
                    .samples
                    .push(("chk".into(), v.clone()));
            }
        }
        if let Some(a) = cov["violation_list"].as_array() {
            for v in a {
                if let Ok(r) = serde_json::from_value::<ViolationRecDe>(v.clone()) {
                    s.violations.push(ViolationRec {
                        check: format!("chk:{}", r.check),
                        class: r.class,
                        detail: r.detail,
                        what: r.what,
                        replay: r.replay,
                    });
                }
            }
        }
        if let Some(a) = cov["known_findings_hit"].as_array() {
            for v in a {
                let sig = v["sig"].as_str().unwrap_or("").to_string();
                let e = s
                    .known_hits
                    .entry(sig)
                    .or_insert((v["text"].as_str().unwrap_or("").to_string(), 0));
                e.1 += v["hits"].as_u64().unwrap_or(0);
            }
        }
        for k in ["inconclusive", "selfcheck_failures"] {
            if let Some(a) = cov[k].as_array() {
                for v in a {
                    let t = format!("chk: {}", v.as_str().unwrap_or(""));
                    if k == "inconclusive" {
                        s.inconclusive.push(t);
                    } else {
                        s.selfcheck.push(t);
                    }
                }
            }
        }
        s.extra.insert("chk_child".into(), json!({
            "evaluations": cov["evaluations"], "distinct_nontrivial": cov["distinct_nontrivial"],
            "wall_s": ev["wall_s"], "labels": cov["labels"],
        }));
    }
}

#[derive(serde::Deserialize)]
struct ViolationRecDe {
    check: String,
    class: String,
    detail: String,
    what: String,
    replay: String,
}

/// A panic that escaped every `guard`: if it comes from the repository's sources it is
/// the library's (a violation of whatever was being checked); otherwise the harness or
/// a dependency called by the harness broke (self-check failure).
fn unguarded_panic(p: &PanicInfo) -> Fail {
    let repo = std::env::var("YQV_REPO").unwrap_or_else(|_| "/repo".into());
    if p.loc.starts_with(&repo) || p.loc.starts_with("/repo/") {
        Fail::new(
            format!("unguarded|panic@{}", p.short_loc()),
            format!("library panicked at {}: {}", p.loc, truncate(&p.msg, 300)),
        )
    } else {
        Fail::new(
            format!("HARNESS|panic@{}", p.short_loc()),
            format!("harness panicked at {}: {}", p.loc, truncate(&p.msg, 300)),
        )
    }
}

/// Definition of one property check.
pub struct PropDef {
    pub id: &'static str,
    /// evidence level ("exploration", "fault_enumeration")
    pub level: &'static str,
    /// also run under the chk profile (as a child process of the driver)
    pub chk_child: bool,
    pub run: fn(&Ctx),
    /// re-evaluate one saved case: (ctx, check name, case json)
    pub replay: fn(&Ctx, &str, &Value) -> Result<(), Fail>,
}

/// Helper for replay functions.
pub fn replay_as<T: serde::de::DeserializeOwned>(
    case: &Value,
    f: impl FnOnce(&T, &mut Local) -> Result<(), Fail>,
) -> Result<(), Fail> {
    let t: T = serde_json::from_value(case.clone())
        .map_err(|e| Fail::new("HARNESS|bad-replay-file", format!("cannot decode case: {}", e)))?;
    let mut l = Local::new();
    match catch(|| f(&t, &mut l)) {
        Ok(r) => r,
        Err(p) => Err(unguarded_panic(&p)),
    }
}
