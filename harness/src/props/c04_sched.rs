//! C04 part 2: schedule perturbation through the `yield_point` hook; part 3: exact
//! exploration of relation-store insertion orders (c04_orders.rs).

use serde_json::{json, Value};

use crate::engine::{Ctx, Fail, Local};
use crate::oracle::int::{SplitMix, U1024};
use crate::props::c04::{contention_cases, judge_threaded_diag as judge_threaded, THREAD_COUNTS};
use crate::props::factoring::*;
use crate::worker::run_jobs;

fn run_perturbed(ctx: &Ctx, l: &mut Local) {
    let check = "perturbed@opt";
    let per = ctx.n(24, 400) as usize;
    let reps = ctx.pick(2usize, 8);
    let base_cases = contention_cases(ctx, check, per);
    let jobs: Vec<Value> = base_cases.iter().map(|c| c.job()).collect();
    let base = run_jobs("opt", &jobs, workers(), &|_| 300.0).unwrap_or_default();
    let base: Vec<Outcome> = base.iter().map(Outcome::from_job).collect();
    let mut rng = SplitMix(crate::engine::hash64(&(ctx.seed, "c04-perturb")));
    let mut cases = vec![];
    let mut idx = vec![];
    for (i, c) in base_cases.iter().enumerate() {
        // the 165..190-bit inputs typically complete with fewer relations than the factor base has primes: there the
        // published gap decides between success and the internal error, so they get more runs, mostly in "stale" mode
        let big = c.shape == "large-semiprime";
        for r in 0..(if big { reps * 2 } else { reps }) {
            let mut d = c.clone();
            d.prefs.threads = Some(THREAD_COUNTS[(i + r) % THREAD_COUNTS.len()]);
            // general batch: PCT-flavoured mode, every fourth run the "ambush" mode
            d.prefs.perturb = Some(if big && r % 4 != 3 {
                rng.next() & !14 | 13
            } else if (i + r) % 4 == 3 {
                rng.next() & !14 | 9
            } else {
                rng.next() & !14 | 1
            });
            cases.push(d);
            idx.push(i);
        }
    }
    // window- and freeze-mode batch: 64..100-bit semiprimes on the self-initialising and the multiple-polynomial sieve with
    // 8, 12 and 16 workers, i.e. runs that need more work items than there are workers and cross the relation
    // target several times
    let nwin = ctx.n(100, 600) as usize;
    let wreps = ctx.pick(6usize, 12);
    let mut win_cases = vec![];
    for i in 0..nwin {
        let bits = 64 + rng.below(37) as u32;
        let a = bits / 2 - rng.below(4) as u32;
        let p = U1024::from(crate::oracle::int::prime64(a, &mut rng));
        let q = U1024::from(crate::oracle::int::prime64(bits - a, &mut rng));
        if p == q {
            continue;
        }
        let algo = match i % 4 {
            0 | 1 => "siqs",
            2 => "mpqs",
            _ => "auto",
        };
        let mut c = mk_case("window-semiprime", vec![p, q], algo, PrefSpec::default());
        c.shape = "window-semiprime".into();
        win_cases.push(c);
    }
    let wjobs: Vec<Value> = win_cases.iter().map(|c| c.job()).collect();
    let wbase = run_jobs("opt", &wjobs, workers(), &|_| 300.0).unwrap_or_default();
    let mut base = base;
    let nbase = base.len();
    base.extend(wbase.iter().map(Outcome::from_job));
    for (i, c) in win_cases.iter().enumerate() {
        for r in 0..wreps {
            let mut d = c.clone();
            d.prefs.threads = Some([8, 12, 16][(i + r) % 3]);
            // a third of the runs use the "ambush" mode (bit 3), a third the "freeze" mode (bit 2), a sixth each the
            // "window" mode (bit 1) and the "stale" mode (bits 2 and 3)
            let x = rng.next() & !14 | 1;
            d.prefs.perturb = Some(match r % 6 {
                0 | 2 => x | 8,
                4 => x | 12,
                1 | 3 => x | 4,
                _ => x | 2,
            });
            cases.push(d);
            idx.push(nbase + i);
        }
    }
    let jobs: Vec<Value> = cases.iter().map(|c| c.job()).collect();
    let res = crate::props::c04::run_chunked(&jobs, 3, crate::props::c04::WATCHDOG_S, l);
    for ((c, r), &i) in cases.iter().zip(res.iter()).zip(idx.iter()) {
        let Some(r) = r else { continue };
        let o = Outcome::from_job(r);
        l.case();
        l.label("perturbed-run");
        if c.prefs.perturb.unwrap_or(0) & 2 != 0 {
            l.label("perturbed:window-mode");
        }
        let pm = c.prefs.perturb.unwrap_or(0);
        if pm & 12 == 12 {
            l.label("perturbed:stale-mode");
            if let crate::worker::JobResult::Resp(v) = r {
                if v["site_hits"][21].as_u64().unwrap_or(0) > 0 {
                    l.label("perturbed:stale-publication-delayed");
                }
            }
        } else if pm & 4 != 0 {
            l.label("perturbed:freeze-mode");
        } else if pm & 8 != 0 {
            l.label("perturbed:ambush-mode");
            if let crate::worker::JobResult::Resp(v) = r {
                if v["ambushes"].as_u64().unwrap_or(0) > 0 {
                    l.label("perturbed:ambush-sprung");
                }
            }
        }
        l.label(&format!("perturbed:algo:{}", c.algo));
        l.label(&format!("perturbed:outcome:{}", o.tag()));
        if let crate::worker::JobResult::Resp(v) = r {
            let writers = v["writer_threads"].as_u64().unwrap_or(0);
            let yp = v["yield_points"].as_u64().unwrap_or(0);
            l.label_n("yield-points-hit", yp);
            if writers >= 2 {
                // the rule for a non-trivial schedule case: at least two threads inserted relations
                l.label("perturbed:>=2-writer-threads");
                l.nontrivial(c.key());
                l.sample(&format!("perturbed:{}", c.algo), || json!({"case": c, "writer_threads": writers, "yield_points": yp, "site_hits": v["site_hits"]}));
            }
        }
        if let Err(f) = judge_threaded(c, &base[i], &o, "opt") {
            ctx.violation(check, &f, json!({"case": c, "single_threaded": format!("{:?}", base[i])}));
        }
    }
}

pub fn run(ctx: &Ctx, l: &mut Local) {
    run_perturbed(ctx, l);
    super::c04_orders::run(ctx, l);
    ctx.essential("perturbed:>=2-writer-threads", 20);
    ctx.essential("yield-points-hit", 1000);
    ctx.essential("perturbed:window-mode", 20);
    ctx.essential("perturbed:freeze-mode", 40);
    ctx.essential("perturbed:ambush-sprung", 20);
    ctx.essential("perturbed:stale-publication-delayed", 20);
}

pub fn replay(ctx: &Ctx, check: &str, case: &Value) -> Result<(), Fail> {
    if check.starts_with("perturbed@") {
        let c: FCase = serde_json::from_value(case["case"].clone()).map_err(|e| Fail::new("HARNESS|bad-replay-file", e.to_string()))?;
        let mut b = c.clone();
        b.prefs.threads = None;
        b.prefs.perturb = None;
        let r = run_jobs("opt", &[b.job()], 1, &|_| 600.0).map_err(|e| Fail::new("HARNESS|worker", e))?;
        let base = Outcome::from_job(&r[0]);
        // reproduction is statistical: repeat the perturbed schedule seed and neighbours
        for k in 0..20u64 {
            let mut d = c.clone();
            d.prefs.perturb = c.prefs.perturb.map(|s| s.wrapping_add(2 * k));
            let r = run_jobs("opt", &[d.job()], 1, &|_| 600.0).map_err(|e| Fail::new("HARNESS|worker", e))?;
            judge_threaded(&d, &base, &Outcome::from_job(&r[0]), "opt")?;
        }
        Ok(())
    } else {
        super::c04_orders::replay(ctx, check, case)
    }
}
