//! C04 parts 2 and 3 (schedule perturbation through the yield hook; exact exploration of
//! relation-store insertion orders).  Filled in once the relation-store hooks are merged.
use crate::engine::{Ctx, Fail, Local};
use serde_json::Value;

pub fn run(_ctx: &Ctx, _l: &mut Local) {}

pub fn replay(_ctx: &Ctx, check: &str, _case: &Value) -> Result<(), Fail> {
    Err(Fail::new("HARNESS|unknown-check", check.to_string()))
}
