//! C17 — prime enumeration is exact and smoothness exponents cover every prime power
//! (DESIGN.md section 2, C17).
//!
//! Checks (each with its own replayable case type):
//!   primes     `fbase::primes(k)` == first k primes of the reference sieve
//!   sieve      `fbase::PrimeSieve` block i == primes of [i*2^16, (i+1)*2^16), end marker
//!   smooth     `ecm::SmoothBase::new(b1, large)`: v_q(prod blocks) >= e for every q^e < b1
//!   pm1base    `pollard_pm1::PM1Base::new()`: same for the documented bound 500
//!   pm1_blocks the exponents actually used by `pm1_impl` stage 1 (recorder hook): same for B1
//! Oracle: `oracle::int::ref_sieve` / `ref_sieve_segment` (independent Eratosthenes) and the
//! block oracle of `oracle::primes` (valuations by dividing the blocks with u128 limb arithmetic).

use std::sync::Mutex;

use proptest::prelude::*;
use rayon::prelude::*;
use serde::{Deserialize, Serialize};
use serde_json::{json, Value};

use crate::engine::{guard, replay_as, Ctx, Fail, Local, PropDef};
use crate::oracle::int::{ref_isprime64, ref_sieve_segment, U1024};
use crate::oracle::primes::{check_blocks, ref_primes, BlockReport};
use yamaquasi::{ecm, fbase, pollard_pm1, Uint, Verbosity};

pub const DEF: PropDef = PropDef {
    id: "C17",
    level: "exploration",
    chk_child: true,
    run,
    replay,
};

/// Largest k of `primes(k)` that is generated: 2^20 + 1 (the property quantifies up to 10^6;
/// the powers of two up to 2^20 are the size-estimate breakpoints of the implementation).
const K_MAX: u32 = (1 << 20) + 1;
/// The reference table must hold K_MAX primes: p_(2^20+1) = 16_290_073 < 16.5e6.
const REF_LIMIT: u64 = 16_500_000;
const ORACLE_BUDGET: u64 = 40_000_000;

// ---------------------------------------------------------------------------
// primes(k)

#[derive(Clone, Debug, Serialize, Deserialize)]
pub struct PrimesCase {
    pub k: u32,
}

pub fn check_primes(c: &PrimesCase, l: &mut Local) -> Result<(), Fail> {
    if c.k > K_MAX {
        return Err(Fail::new("HARNESS|out-of-domain", "k above the generated range"));
    }
    let reference = ref_primes(REF_LIMIT);
    if reference.len() < K_MAX as usize {
        return Err(Fail::new("HARNESS|ref-table", "reference prime table too short"));
    }
    let k = c.k;
    l.case();
    let near = |t: u32| k.abs_diff(t) <= 300;
    if k > 100_000 || (0..=20).any(|j| near(1u32 << j)) {
        l.nontrivial_of(&("primes", k));
        l.label("primes:nontrivial");
    }
    if k.is_power_of_two() {
        l.label("primes:k=2^j");
    }
    let got = guard("fbase::primes", || fbase::primes(k))?;
    if got.len() != k as usize {
        return Err(Fail::new(
            "fbase::primes|wrong-length",
            format!(
                "primes({}) returned {} values (first {:?} … last {:?}) instead of the first {} primes",
                k,
                got.len(),
                &got[..got.len().min(4)],
                got.last(),
                k
            ),
        ));
    }
    if let Some(i) = (0..k as usize).find(|&i| got[i] != reference[i]) {
        return Err(Fail::new(
            "fbase::primes|wrong-prime",
            format!("primes({})[{}] = {} but the {}-th prime is {}", k, i, got[i], i + 1, reference[i]),
        ));
    }
    Ok(())
}

// ---------------------------------------------------------------------------
// PrimeSieve

#[derive(Clone, Debug, Serialize, Deserialize)]
pub struct SieveCase {
    /// compare blocks 0..=block (the iterator is sequential)
    pub block: u32,
    /// also require that `next()` stays empty after the last block (only when block == 65535)
    pub end: bool,
}

fn ref_block(i: u32, base: &[u32]) -> Vec<u32> {
    let lo = (i as u64) << 16;
    ref_sieve_segment(lo, lo + 65536, base).into_iter().map(|p| p as u32).collect()
}

/// Run the library sieve over blocks 0..=upto in chunks, comparing every block with the
/// reference segment sieve (reference side in parallel).  Returns the first mismatch.
fn sieve_sweep(upto: u32, end: bool, l: &mut Local) -> Result<(), Fail> {
    let base = ref_primes(70_000);
    let mut s = guard("PrimeSieve::new", fbase::PrimeSieve::new)?;
    let mut next_block: u32 = 0;
    let mut last_prime: u64 = 0;
    let mut total: u64 = 0;
    while next_block <= upto {
        let n = (upto - next_block + 1).min(512);
        let mut got: Vec<Vec<u32>> = Vec::with_capacity(n as usize);
        for _ in 0..n {
            let b = guard("PrimeSieve::next", || s.next().to_vec())?;
            got.push(b);
        }
        let first = next_block;
        let bad = got
            .par_iter()
            .enumerate()
            .map(|(j, g)| {
                let i = first + j as u32;
                let want = ref_block(i, &base);
                if *g != want {
                    let pos = (0..g.len().max(want.len())).find(|&t| g.get(t) != want.get(t)).unwrap_or(0);
                    Some((i, pos, g.get(pos).copied(), want.get(pos).copied(), g.len(), want.len()))
                } else {
                    None
                }
            })
            .find_first(|x| x.is_some())
            .flatten();
        if let Some((i, pos, g, w, gl, wl)) = bad {
            return Err(Fail::new(
                "PrimeSieve::next|block-mismatch",
                format!(
                    "block {} (primes of [{}, {})): entry {} is {:?}, reference {:?}; {} values, reference {}",
                    i,
                    (i as u64) << 16,
                    ((i as u64) + 1) << 16,
                    pos,
                    g,
                    w,
                    gl,
                    wl
                ),
            )
            .with_detail(format!("block={}", i)));
        }
        // increasing across blocks, each prime once (follows from equality with the
        // reference, checked explicitly on the concatenation)
        for g in &got {
            for &p in g {
                if (p as u64) <= last_prime && total > 0 {
                    return Err(Fail::new(
                        "PrimeSieve::next|not-increasing",
                        format!("{} follows {}", p, last_prime),
                    ));
                }
                last_prime = p as u64;
                total += 1;
            }
        }
        l.cases(n as u64);
        l.label_n("sieve:blocks", n as u64);
        next_block += n;
    }
    l.nontrivial_bulk(upto as u64 + 1);
    if end && upto == 65535 {
        if total != 203_280_221 {
            return Err(Fail::new(
                "PrimeSieve::next|count",
                format!("{} primes below 2^32 instead of 203280221", total),
            ));
        }
        for r in 0..3 {
            let b = guard("PrimeSieve::next", || s.next().to_vec())?;
            if !b.is_empty() {
                return Err(Fail::new(
                    "PrimeSieve::next|end-not-empty",
                    format!("call {} after the last block returned {} values (first {})", r + 1, b.len(), b[0]),
                ));
            }
        }
        l.label("sieve:end-marker");
    }
    Ok(())
}

pub fn check_sieve(c: &SieveCase, l: &mut Local) -> Result<(), Fail> {
    if c.block > 65535 {
        return Err(Fail::new("HARNESS|out-of-domain", "block index above 65535"));
    }
    sieve_sweep(c.block, c.end, l)
}

// ---------------------------------------------------------------------------
// SmoothBase

#[derive(Clone, Debug, Serialize, Deserialize)]
pub struct SmoothCase {
    pub b1: u32,
    pub large: bool,
}

fn near_threshold(b1: u64) -> bool {
    b1.abs_diff(4096) <= 300 || b1.abs_diff(65536) <= 300
}

fn report_missing(entry: &str, class: &str, b1: u64, rep: &BlockReport, extra: &str) -> Result<(), Fail> {
    if let Some(&(q, need, have)) = rep.missing.first() {
        let more: Vec<String> = rep.missing.iter().skip(1).take(5).map(|m| m.0.to_string()).collect();
        return Err(Fail::new(
            class,
            format!(
                "{}: the product of the {} exponent blocks is divisible by {}^{} only, but {}^{} < B1 = {} \
                 (at least {} primes affected{}{}; {} blocks are not products of primes below B1){}",
                entry,
                rep.blocks,
                q,
                have,
                q,
                need,
                b1,
                rep.missing.len() + rep.undecided,
                if more.is_empty() { "" } else { ", next: " },
                more.join(","),
                rep.foreign,
                extra
            ),
        ));
    }
    if rep.undecided > 0 {
        return Err(Fail::new(
            "HARNESS|oracle-budget",
            format!("{}: block oracle ran out of budget with {} undecided primes (B1={})", entry, rep.undecided, b1),
        ));
    }
    Ok(())
}

pub fn check_smooth(c: &SmoothCase, l: &mut Local) -> Result<(), Fail> {
    if c.b1 < 4 || c.b1 > 1_000_000 {
        return Err(Fail::new("HARNESS|out-of-domain", "b1 outside [4, 10^6]"));
    }
    let b1 = c.b1 as u64;
    let primes = ref_primes(REF_LIMIT);
    l.case();
    l.label(if c.large { "smooth:large" } else { "smooth:u64-only" });
    l.label(if b1 < 4096 {
        "smooth:b1<4096"
    } else if b1 < 65536 {
        "smooth:4096<=b1<65536"
    } else {
        "smooth:b1>=65536"
    });
    if near_threshold(b1) || b1 > 100_000 {
        l.nontrivial_of(&("smooth", c.b1, c.large));
        l.label("smooth:nontrivial");
    }
    let sb = guard("SmoothBase::new", || ecm::SmoothBase::new(c.b1 as usize, c.large))?;
    let (small, larges): (Vec<u64>, Vec<Uint>) = sb.verif_blocks();
    if !larges.is_empty() {
        l.label("smooth:has-1024-bit-blocks");
    }
    // one sequence: u64 blocks first (primes < 4096 when large blocks are used), then the big ones
    let mut all: Vec<U1024> = small.iter().map(|&x| U1024::from(x)).collect();
    all.extend(larges.iter().copied());
    let rep = check_blocks(&all, b1, &primes, ORACLE_BUDGET);
    if rep.foreign > 0 || rep.zero_blocks > 0 {
        l.label("smooth:foreign-or-zero-block");
    }
    // The code documents "Curve order has extra 2 and 3 factors" (2^4 and 3): counted, not
    // required — the property only states divisibility by the prime powers below B1.
    if rep.extra2 >= 4 && rep.extra3 >= 1 {
        l.label("smooth:documented-extras-present");
    }
    l.sample(if c.large { "smooth:large" } else { "smooth:u64-only" }, || {
        json!({"b1": c.b1, "large": c.large, "u64_blocks": small.len(), "big_blocks": larges.len(), "primes": rep.primes_checked})
    });
    report_missing(
        &format!("SmoothBase::new({}, {})", c.b1, c.large),
        "SmoothBase::new|missing-prime-power",
        b1,
        &rep,
        "",
    )
}

// ---------------------------------------------------------------------------
// PM1Base

#[derive(Clone, Debug, Serialize, Deserialize)]
pub struct Pm1BaseCase {}

pub fn check_pm1base(_c: &Pm1BaseCase, l: &mut Local) -> Result<(), Fail> {
    let primes = ref_primes(REF_LIMIT);
    l.case();
    l.nontrivial_of(&"pm1base");
    let pb = guard("PM1Base::new", pollard_pm1::PM1Base::new)?;
    let (factors, larges) = pb.verif_blocks();
    let blocks: Vec<u64> = factors.iter().map(|&f| f as u64).collect();
    // documented bound: "Compact blocks of factors, up to bound 500 (95 primes)"
    let rep = check_blocks(&blocks, 500, &primes, ORACLE_BUDGET);
    report_missing("PM1Base::new()", "PM1Base::new|missing-prime-power", 500, &rep, "")?;
    // the implementation raises small primes to powers below 1024: informational
    let rep2 = check_blocks(&blocks, 1024, &primes[..95], ORACLE_BUDGET);
    let short: Vec<u64> = rep2.missing.iter().filter(|m| m.0 < 500).map(|m| m.0).collect();
    if short.is_empty() {
        l.label("pm1base:powers-below-1024-present");
    }
    if rep.foreign == 0 {
        l.label("pm1base:all-blocks-500-smooth");
    }
    l.sample("pm1base", || json!({"blocks": factors.len(), "stage2_primes": larges.len(), "first_stage2": larges.first()}));
    Ok(())
}

// ---------------------------------------------------------------------------
// pm1_impl stage-1 blocks (recorder hook)

#[derive(Clone, Debug, Serialize, Deserialize)]
pub struct Pm1Case {
    #[serde(with = "crate::ser::u64s")]
    pub b1: u64,
}

/// The recorder is one global: sessions are serialised.
static RECORDER_SESSION: Mutex<()> = Mutex::new(());

/// A 61-bit safe prime p = 2q + 1: the order of 2 is q or 2q, so stage 1 neither reaches 1
/// nor finds a factor, and every exponent block for B1 is used.  Found by search with the
/// kit's Miller-Rabin (deterministic).
fn safe_prime() -> u64 {
    let mut p: u64 = (1u64 << 61) - 1;
    loop {
        if p % 4 == 3 && ref_isprime64(p) && ref_isprime64(p / 2) {
            return p;
        }
        p -= 2;
    }
}

pub const PM1_B1_MAX: u64 = 170_000_000;

pub fn check_pm1(c: &Pm1Case, l: &mut Local) -> Result<(), Fail> {
    // pm1_impl asserts b1 > 3
    if c.b1 < 4 || c.b1 > PM1_B1_MAX {
        return Err(Fail::new("HARNESS|out-of-domain", "B1 outside [4, 1.7e8]"));
    }
    let b1 = c.b1;
    let primes = ref_primes((b1 + 4096).max(REF_LIMIT));
    let n = Uint::from(safe_prime());
    l.case();
    let path = if b1 >= 65536 { "large-blocks" } else { "small-blocks" };
    l.label(&format!("pm1:{}", path));
    if near_threshold(b1) || b1 > 100_000 {
        l.nontrivial_of(&("pm1", b1));
        l.label("pm1:nontrivial");
    }
    let (res, blocks) = {
        let _session = RECORDER_SESSION.lock().unwrap_or_else(|e| e.into_inner());
        *pollard_pm1::VERIF_PM1_BLOCKS.lock().unwrap_or_else(|e| e.into_inner()) = Some(vec![]);
        // b2 = 1: the plain stage 2 stops after one prime; only stage 1 matters here
        let r = guard(&format!("pm1_impl|stage1|{}", path), || {
            pollard_pm1::pm1_impl(&n, b1, 1.0, Verbosity::Silent)
        });
        let blocks = pollard_pm1::VERIF_PM1_BLOCKS
            .lock()
            .unwrap_or_else(|e| e.into_inner())
            .take()
            .unwrap_or_default();
        (r, blocks)
    };
    let res = res?;
    if res.is_some() {
        return Err(Fail::new(
            "HARNESS|pm1-fixture",
            "pm1_impl found a factor of the prime fixture modulus",
        ));
    }
    if blocks.is_empty() {
        return Err(Fail::new("HARNESS|recorder", "the stage-1 recorder hook recorded nothing"));
    }
    let rep = check_blocks(&blocks, b1, &primes, ORACLE_BUDGET);
    if rep.foreign > 0 {
        l.label("pm1:foreign-block");
    }
    let wide = blocks.iter().filter(|b| b.bits() > 960).count();
    l.sample(&format!("pm1:{}", path), || {
        json!({"b1": b1.to_string(), "recorded_blocks": blocks.len(), "blocks_above_960_bits": wide, "primes": rep.primes_checked})
    });
    report_missing(
        &format!("pm1_impl(B1={})", b1),
        &format!("pm1_impl|stage1|{}|missing-prime-power", path),
        b1,
        &rep,
        &format!("; {} recorded blocks, {} of them above 960 bits", blocks.len(), wide),
    )
}

// ---------------------------------------------------------------------------

/// B1 of every hard-wired P-1 strategy row (pm1_quick, pm1_only), for the recorder check.
const PM1_HARDWIRED: &[u64] = &[
    600,
    10_000,
    50_000,
    500_000,
    1_000_000,
    2_000_000,
    7_000_000,
    16 << 20,
    45_000_000,
    160_000_000,
    16 << 10,
    64 << 10,
    256 << 10,
    1 << 20,
    4 << 20,
    32 << 20,
    64 << 20,
    128 << 20,
];

fn prime_power_neighbours(limit: u64) -> Vec<u64> {
    let mut v = vec![];
    for p in [2u64, 3, 5, 7, 11, 13, 31, 61, 97, 251, 257, 499, 503, 997] {
        let mut q = p;
        let mut e = 1;
        while q <= limit {
            if e >= 2 || p <= 3 {
                for d in [-1i64, 0, 1, 2] {
                    let x = q as i64 + d;
                    if x >= 4 && (x as u64) <= limit {
                        v.push(x as u64);
                    }
                }
            }
            q *= p;
            e += 1;
        }
    }
    v.sort();
    v.dedup();
    v
}

fn run(ctx: &Ctx) {
    ctx.set_rule(
        "primes(k): every k in [0,4000], 2^j+{-1,0,1} up to 2^20, generated k <= 10^6; PrimeSieve: blocks 0..N \
         sequentially (N = 600 quick, all 65536 + end marker thorough) against an independent segmented sieve; \
         SmoothBase::new(b1, large): every b1 in [4,5000], 4096±200, 65536±200, prime powers ±1, generated b1 <= 10^6, \
         both flags; PM1Base; pm1_impl stage-1 blocks via the recorder hook for B1 around 65536, every hard-wired B1 \
         (<= 2e6 quick, <= 1.6e8 thorough) and generated B1 <= 10^6. Oracle: v_q(product of blocks) >= e for every \
         prime power q^e < B1, valuations by dividing the actual blocks. Non-trivial = k or B1 within 300 of an \
         implementation threshold (2^j, 4096, 65536) or > 10^5, and every sieve block; distinct by (check, input).",
    );
    ctx.assume("the reference sieve (odd-only Eratosthenes, self-tested against pi(10^6)) and u128 arithmetic are correct");
    ctx.assume("bnum 0.8 comparison/shift on BUint are correct");
    ctx.assume(
        "pm1_impl's exponent blocks do not depend on the modulus: they are recorded on a 61-bit safe prime where stage 1 \
         neither stops early nor finds a factor",
    );
    let thorough = !ctx.quick();
    let chk = ctx.is_chk();

    // ---- primes(k): fixed part
    {
        let mut ks: Vec<u32> = (0..=4000).collect();
        for j in 12..=20u32 {
            for d in [-1i64, 0, 1] {
                ks.push(((1i64 << j) + d) as u32);
            }
        }
        ks.extend([6542u32, 50_000, 100_000, 140_040, 999_999, 1_000_000]);
        ks.sort();
        ks.dedup();
        let results: Vec<(Local, Vec<(PrimesCase, Fail)>)> = ks
            .par_chunks(64)
            .map(|chunk| {
                let mut l = Local::new();
                let mut fails = vec![];
                for &k in chunk {
                    let c = PrimesCase { k };
                    match crate::engine::catch(|| check_primes(&c, &mut l)) {
                        Ok(Ok(())) => {}
                        Ok(Err(f)) => fails.push((c, f)),
                        Err(p) => fails.push((c, Fail::new("HARNESS|panic", format!("{} at {}", p.msg, p.loc)))),
                    }
                }
                (l, fails)
            })
            .collect();
        for (l, fails) in results {
            ctx.merge(l);
            for (c, f) in fails {
                if f.class.starts_with("HARNESS|") {
                    ctx.selfcheck_failed(&format!("primes: {}", f.what));
                } else {
                    ctx.violation("primes", &f, serde_json::to_value(&c).unwrap());
                }
            }
        }
    }
    // ---- primes(k): generated
    ctx.par_prop(
        "primes",
        16,
        ctx.n(300, 100_000),
        || {
            prop_oneof![
                3 => (1u32..=1_000_000).prop_map(|k| PrimesCase { k }),
                1 => (0u32..=20, -300i64..=300).prop_map(|(j, d)| PrimesCase { k: ((1i64 << j) + d).clamp(0, K_MAX as i64) as u32 }),
                1 => (0u32..=70_000).prop_map(|k| PrimesCase { k }),
            ]
        },
        check_primes,
    );

    // ---- PrimeSieve
    {
        let mut l = Local::new();
        let upto: u32 = if thorough {
            if chk {
                16383
            } else {
                65535
            }
        } else if chk {
            299
        } else {
            599
        };
        let c = SieveCase { block: upto, end: upto == 65535 };
        match crate::engine::catch(|| check_sieve(&c, &mut l)) {
            Ok(Ok(())) => {}
            Ok(Err(f)) if f.class.starts_with("HARNESS|") => ctx.selfcheck_failed(&format!("sieve: {}", f.what)),
            Ok(Err(f)) => {
                // replay only up to the failing block
                let blk = f.detail.strip_prefix("block=").and_then(|s| s.parse::<u32>().ok()).unwrap_or(upto);
                let mut f = f;
                f.detail.clear();
                ctx.violation("sieve", &f, serde_json::to_value(SieveCase { block: blk, end: c.end && blk == 65535 }).unwrap());
            }
            Err(p) => ctx.selfcheck_failed(&format!("sieve: panic {} at {}", p.msg, p.loc)),
        }
        ctx.merge(l);
    }

    // ---- SmoothBase: fixed part
    {
        let mut b1s: Vec<u32> = (4..=5000).collect();
        b1s.extend(4096 - 200..=4096 + 200);
        b1s.extend(65536 - 200..=65536 + 200);
        b1s.extend(prime_power_neighbours(1_000_000).into_iter().map(|x| x as u32));
        b1s.extend([99_991u32, 100_000, 131_071, 131_072, 131_073, 262_144, 524_288, 999_983, 1_000_000]);
        b1s.sort();
        b1s.dedup();
        let cases: Vec<SmoothCase> = b1s
            .iter()
            .flat_map(|&b1| [SmoothCase { b1, large: false }, SmoothCase { b1, large: true }])
            .collect();
        let results: Vec<(Local, Vec<(SmoothCase, Fail)>)> = cases
            .par_chunks(64)
            .map(|chunk| {
                let mut l = Local::new();
                let mut fails = vec![];
                for c in chunk {
                    match crate::engine::catch(|| check_smooth(c, &mut l)) {
                        Ok(Ok(())) => {}
                        Ok(Err(f)) => fails.push((c.clone(), f)),
                        Err(p) => fails.push((c.clone(), Fail::new("HARNESS|panic", format!("{} at {}", p.msg, p.loc)))),
                    }
                }
                (l, fails)
            })
            .collect();
        for (l, fails) in results {
            ctx.merge(l);
            for (c, f) in fails {
                if f.class.starts_with("HARNESS|") {
                    ctx.selfcheck_failed(&format!("smooth: {}", f.what));
                } else {
                    ctx.violation("smooth", &f, serde_json::to_value(&c).unwrap());
                }
            }
        }
    }
    // ---- SmoothBase: generated
    ctx.par_prop(
        "smooth",
        16,
        ctx.n(200, 80_000),
        || {
            (
                prop_oneof![
                    4 => 4u32..=1_000_000,
                    1 => 4u32..=70_000,
                    1 => (0u32..=1, -300i64..=300).prop_map(|(t, d)| ((if t == 0 { 4096i64 } else { 65536 }) + d) as u32),
                ],
                any::<bool>(),
            )
                .prop_map(|(b1, large)| SmoothCase { b1, large })
        },
        check_smooth,
    );

    // ---- PM1Base
    {
        let mut l = Local::new();
        ctx.fixed_case("pm1base", &Pm1BaseCase {}, &mut l, check_pm1base);
        ctx.merge(l);
    }

    // ---- pm1_impl recorded blocks: fixed part (serial: one global recorder)
    {
        let mut l = Local::new();
        let mut b1s: Vec<u64> = vec![4, 5, 6, 7, 8, 9, 10, 16, 17, 100, 127, 128, 129, 600, 1023, 1024, 1025];
        b1s.extend(4096 - 8..=4096 + 8);
        let w: u64 = if chk { 12 } else { 40 };
        b1s.extend(65536 - w..=65536 + w);
        for d in (48..=200).step_by(if chk { 40 } else { 8 }) {
            b1s.push(65536 - d);
            b1s.push(65536 + d);
        }
        let hard_cap: u64 = if thorough {
            if chk {
                17_000_000
            } else {
                160_000_000
            }
        } else if chk {
            1_100_000
        } else {
            2_000_000
        };
        b1s.extend(PM1_HARDWIRED.iter().copied().filter(|&b| b <= hard_cap));
        b1s.sort();
        b1s.dedup();
        for b1 in b1s {
            if PM1_HARDWIRED.contains(&b1) {
                l.label("pm1:hard-wired-B1");
            }
            ctx.fixed_case("pm1_blocks", &Pm1Case { b1 }, &mut l, check_pm1);
        }
        ctx.merge(l);
    }
    // ---- pm1_impl recorded blocks: generated (single shard: the recorder is global)
    {
        let mut l = Local::new();
        let strat = prop_oneof![
            2 => (4u64..=300_000).prop_map(|b1| Pm1Case { b1 }),
            1 => (65_536u64..=1_000_000).prop_map(|b1| Pm1Case { b1 }),
            1 => (-300i64..=300).prop_map(|d| Pm1Case { b1: (65536 + d) as u64 }),
        ];
        ctx.run_prop("pm1_blocks", 0, ctx.n(40, 4000), &strat, &mut l, check_pm1);
        ctx.merge(l);
    }

    for (lab, min) in [
        ("primes:nontrivial", 50),
        ("primes:k=2^j", 5),
        ("sieve:blocks", 100),
        ("smooth:large", 100),
        ("smooth:u64-only", 100),
        ("smooth:b1>=65536", 20),
        ("smooth:4096<=b1<65536", 20),
        ("smooth:has-1024-bit-blocks", 20),
        ("smooth:nontrivial", 50),
        ("pm1:large-blocks", 10),
        ("pm1:small-blocks", 10),
        ("pm1:hard-wired-B1", 5),
    ] {
        ctx.essential(lab, min);
    }
    if thorough && !chk {
        ctx.essential("sieve:end-marker", 1);
    }
}

fn replay(_ctx: &Ctx, check_name: &str, case: &Value) -> Result<(), Fail> {
    match check_name {
        "primes" => replay_as::<PrimesCase>(case, check_primes),
        "sieve" => replay_as::<SieveCase>(case, check_sieve),
        "smooth" => replay_as::<SmoothCase>(case, check_smooth),
        "pm1base" => replay_as::<Pm1BaseCase>(case, check_pm1base),
        "pm1_blocks" => replay_as::<Pm1Case>(case, check_pm1),
        _ => Err(Fail::new("HARNESS|unknown-check", check_name.to_string())),
    }
}
