//! C02 — automatic mode returns the complete prime factorisation (DESIGN.md C02).
//!
//! Oracle: the returned multiset equals the prime factorisation known by construction
//! (or by the reference factorisation for the exhaustive range).  The oracle never calls the
//! library's primality test.  Err(FactoringFailure) and composite entries are violations in
//! Auto mode and for the QS/ECM selectors inside their working range.

use serde_json::Value;

use crate::engine::{Ctx, Fail, Local, PropDef};
use crate::props::factoring::*;

pub const DEF: PropDef = PropDef {
    id: "C02",
    level: "exploration",
    chk_child: false,
    run,
    replay,
};

/// working ranges (bits of n) of the forced selectors for the completeness claim
fn working_range(algo: &str) -> (u32, u32) {
    match algo {
        "qs" => (40, 100),
        "mpqs" => (40, 110),
        "siqs" => (40, 140),
        "ecm128" => (20, 90),
        "ecm" => (20, 128),
        _ => (0, 512),
    }
}

fn run(ctx: &Ctx) {
    ctx.set_rule(
        "Auto mode on every n < 2^20 exhaustively (quick; 2^24 thorough) against an independent reference factorisation; \
         proptest-generated composites with factorisation known by construction (14 shapes weighted to the README's weak spots: \
         p^k up to k = 40, (pq)^2, p^2 q, 3..12 primes, consecutive primes, factors just above 199 and inside the factor base, \
         Carmichael, p(2p-1)) in Auto mode up to 150 bits (quick) / 200 bits (thorough) with threads in {None,2,8}, and on the \
         Qs/Mpqs/Siqs/Ecm/Ecm128 selectors inside their working range; the published strong pseudoprimes psi_1..psi_13, spsp(2,3,5[,7]) \
         and Carmichael numbers alone, squared and times small primes in Auto mode. Non-trivial = at least two prime factors above 199; \
         distinct by (selector, n, threads).",
    );
    ctx.assume("ground truth is the constructed prime factorisation (certified primes: deterministic Miller-Rabin <= 64 bits, Pocklington above)");
    ctx.assume("forced selectors are judged only inside their working range: Qs 40..100, Mpqs 40..110, Siqs 40..140, Ecm128 20..90, Ecm 20..128 bits");
    let quick = ctx.quick();
    let timeout = ctx.pick(120.0, 900.0);
    let mut l = Local::new();
    let check = "factor@opt";
    run_ranges(ctx, check, "opt", "auto", 0, ctx.pick(1 << 20, 1 << 24), 1, "c02", &mut l);

    for (i, a) in ["auto", "qs", "mpqs", "siqs", "ecm", "ecm128"].iter().enumerate() {
        let per = ctx.n(if *a == "auto" { 8000 } else { 1500 }, if *a == "auto" { 200_000 } else { 40_000 }) as usize;
        let strat = case_strategy(a, quick, false);
        let mut cases = ctx.sample_strategy(check, i as u64, &strat, per);
        let (lo, hi) = working_range(a);
        cases.retain(|c| c.n.bits() >= lo && c.n.bits() <= hi && !c.factors.is_empty());
        // a perfect power m^k reaches the selector as m: m must lie in the working range too
        cases.retain(|c| {
            let mut mult: Vec<u32> = vec![];
            let mut i = 0;
            while i < c.factors.len() {
                let j = c.factors[i..].iter().take_while(|f| **f == c.factors[i]).count();
                mult.push(j as u32);
                i += j;
            }
            let g = mult.iter().fold(0u32, |a, &b| num_integer::Integer::gcd(&a, &b));
            g < 2 || c.n.bits() / g >= lo
        });
        for (j, c) in cases.iter_mut().enumerate() {
            if matches!(*a, "auto" | "siqs" | "mpqs" | "qs" | "ecm") {
                c.prefs.threads = match j % 6 {
                    4 => Some(2),
                    5 => Some(8),
                    _ => None,
                };
            }
        }
        // completeness under a thread pool is C04's clause ("complete whenever the single-threaded run is complete"):
        // an incomplete answer of a threaded case is a C02 violation only if the same call without a pool is incomplete too
        let judge = |c: &FCase, o: &Outcome| -> Result<(), Fail> {
            match judge_c02(c, o) {
                Err(f) if c.prefs.threads.unwrap_or(1) > 1 && (f.class.ends_with("|incomplete") || f.class.ends_with("|failure")) => {
                    let mut b = c.clone();
                    b.prefs.threads = None;
                    match crate::worker::run_jobs("opt", &[b.job()], 1, &|_| timeout) {
                        Ok(r) if !r.is_empty() => judge_c02(&b, &Outcome::from_job(&r[0])).map_err(|_| f),
                        _ => Err(f),
                    }
                }
                r => r,
            }
        };
        run_batch(ctx, check, "opt", &cases, timeout, &judge, &mut l);
    }
    // published composites that fool small base sets (psi_k = smallest strong pseudoprime to the first k prime bases,
    // further spsp(2,3,5[,7]) and Carmichael numbers), alone, squared and times small / factor-base primes: the
    // automatic mode ends on a primality decision for each cofactor, and these are the cofactors that decision is
    // known to be delicate on.  Ground truth: the published factorisations (verified by the kit self-test) or trial division.
    {
        use crate::oracle::int::{factor_u64, U1024};
        use crate::oracle::prim::{EXTRA_SPSP, PSI, PSI_FACTORS};
        let mut cases = vec![];
        let mut bases: Vec<Vec<U1024>> = vec![];
        for (k, _) in PSI.iter().enumerate() {
            bases.push(PSI_FACTORS[k].iter().map(|&f| U1024::from(f)).collect());
        }
        for &m in EXTRA_SPSP.iter() {
            let mut fs = vec![];
            for (q, e) in factor_u64(m) {
                for _ in 0..e {
                    fs.push(U1024::from(q));
                }
            }
            bases.push(fs);
        }
        for fs in &bases {
            for extra in [vec![], vec![3u64], vec![199], vec![211], vec![2, 2, 5, 193], vec![65537], vec![1000003, 1000003]] {
                let mut all = fs.clone();
                all.extend(extra.iter().map(|&q| U1024::from(q)));
                for th in [None, Some(2usize)] {
                    let mut c = mk_case("published-pseudoprime", all.clone(), "auto", PrefSpec::default());
                    c.prefs.threads = th;
                    cases.push(c);
                }
            }
            let mut sq = fs.clone();
            sq.extend(fs.iter().cloned());
            cases.push(mk_case("published-pseudoprime", sq, "auto", PrefSpec::default()));
        }
        run_batch(ctx, check, "opt", &cases, timeout, &judge_c02, &mut l);
    }
    ctx.merge(l);
    ctx.essential("shape:published-pseudoprime", 100);
    ctx.essential("outcome:opt:ok", 1000);
    ctx.essential("shape:prime-power", 20);
    ctx.essential("shape:square-of-composite", 20);
    ctx.essential("shape:many-primes", 20);
    ctx.essential("shape:carmichael", 20);
    ctx.essential("prefs:threads>1", 50);
}

fn replay(_ctx: &Ctx, check: &str, case: &Value) -> Result<(), Fail> {
    replay_case(check, case, &judge_c02)
}
