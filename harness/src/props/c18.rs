//! C18 — a reported class group is the true class group (DESIGN.md section 2, C18; oracle 1.6).
//!
//! Domain: negative FUNDAMENTAL discriminants, fundamental by construction: D = -m (m = 3 mod 4),
//! D = -4m (m = 1 mod 4) or D = -8m with m a product of distinct odd primes (each prime checked
//! with the kit's Miller-Rabin / Pocklington certificate).  `threads` in {None, Some(4)}, `outdir`
//! always set so that the relation file is written.
//!
//! Oracles (src/oracle/forms.rs, no yamaquasi code):
//!  * exact, |D| < 2^40: h == number of reduced forms; the invariants multiply to h and
//!    Z/d1 x Z/d2 x .. has the isomorphism type of the class group computed by the kit from the
//!    complete list of classes (elements killed by each prime power); every `(p, coords)` in
//!    `gens` has the order of the prime form [p];
//!  * all sizes: every line of `relations.sieve` — product of prime forms [p] (token p) and
//!    [p]^-1 (token -p), PARI normalisation of the prime form — is the principal class; the
//!    `classnumber` file equals the returned h; invariants multiply to h;
//!  * above the enumerable range (one-sided): h.[f] = 1 and exponent.[f] = 1 for 50 prime forms
//!    (inside and outside the factor base), ord(coords).[p] = 1 for `gens`, and h within
//!    [0.7, 1.4] x the kit's own Euler product.
//!
//! `None`, panic "failed to determine lattice index" and panic "not enough polynomials" mean that
//! NO RESULT WAS RETURNED: the property does not speak about them; they are counted (labels) and
//! the tier fails its self-check when fewer than 50 % of the calls return a result.

use std::path::{Path, PathBuf};
use std::str::FromStr;
use std::sync::atomic::{AtomicBool, AtomicU64, Ordering};
use std::sync::{mpsc, Arc, Mutex, OnceLock};
use std::time::Duration;

use bnum::BUint;
use proptest::prelude::*;
use serde::{Deserialize, Serialize};
use serde_json::{json, Value};

use crate::engine::{catch, hash64, replay_as, truncate, Ctx, Fail, Local, PanicInfo, PropDef};
use crate::oracle::forms::{
    self, class_group_type, euler_estimate, gcd_u128, order_of_coords, reduced_forms, reduced_forms_sieved, type_of_invariants, Disc, Form, Wide, Z,
};
use crate::oracle::int::{certified_prime, factor_u64, prime64, ref_isprime64, ref_sieve, SplitMix};
use yamaquasi::{classgroup, Int, Preferences, Verbosity};

pub const DEF: PropDef = PropDef {
    id: "C18",
    level: "exploration",
    chk_child: true,
    run,
    replay,
};

/// Per-call watchdog (a hang is inconclusive, never a violation).
const WATCHDOG_S: u64 = 120;
/// Exact oracle (reduced-form enumeration) below this |D|.
const EXACT_BELOW: u128 = 1 << 40;
/// The class-group type is computed from the full list of classes up to this class number.
const STRUCTURE_MAX_H: u64 = 300_000;

type U256 = BUint<4>;

// ---------------------------------------------------------------------------
// Case

#[derive(Clone, Debug, Serialize, Deserialize)]
pub struct ClsCase {
    pub shape: String,
    /// distinct odd prime factors of |D| below 2^64
    pub primes: Vec<u64>,
    /// further prime factors: Pocklington-certified primes `certified_prime(bits, idx)`
    pub cert: Vec<(u32, u32)>,
    /// m = product of all primes.  false: D = -m when m = 3 mod 4, D = -4m when m = 1 mod 4;
    /// true: D = -8m.
    pub eight: bool,
    /// None or Some(4): size of the rayon pool handed to `classgroup`
    pub threads: Option<usize>,
    /// the documented double-large-prime switch (`ymcls --use-double`): None = the library's default
    /// (on above ~180 adjusted bits), Some(true) forces it (relations with two large primes and squared
    /// large primes then occur at every size)
    #[serde(default)]
    pub use_double: Option<bool>,
    /// history: the output directory already holds the files of an earlier computation for D = -prior
    /// (same process, default preferences) when this one starts
    #[serde(default, skip_serializing_if = "Option::is_none")]
    pub prior: Option<u64>,
}

impl ClsCase {
    /// |D|, or None when the parts do not describe a fundamental discriminant below 2^128.
    pub fn dabs(&self) -> Option<u128> {
        let mut all: Vec<U256> = vec![];
        for &p in &self.primes {
            if p < 3 || p % 2 == 0 || !ref_isprime64(p) {
                return None;
            }
            all.push(U256::from(p));
        }
        for &(bits, idx) in &self.cert {
            if !(3..=127).contains(&bits) || idx > 1000 {
                return None;
            }
            let p = certified_prime(bits, idx);
            if p.bits() > 127 || !p.bit(0) {
                return None;
            }
            all.push(crate::oracle::int::resize(&p));
        }
        let mut sorted = all.clone();
        sorted.sort();
        if sorted.windows(2).any(|w| w[0] == w[1]) {
            return None;
        }
        let mut m = U256::ONE;
        for p in &all {
            if m.bits() + p.bits() > 130 {
                return None;
            }
            m *= *p;
        }
        let d = if self.eight {
            m << 3u32
        } else if m.digits()[0] & 3 == 3 {
            m
        } else {
            m << 2u32
        };
        if d.bits() > 128 {
            return None;
        }
        let w = d.digits();
        Some(w[0] as u128 | ((w[1] as u128) << 64))
    }
}

/// Case for an explicit small |D| (exhaustive sweeps, golden cases): factor by trial division.
pub fn case_of_dabs(dabs: u64, shape: &str, threads: Option<usize>) -> Option<ClsCase> {
    if !forms::is_fundamental_abs(dabs) {
        return None;
    }
    let mut m = dabs;
    let mut twos = 0;
    while m % 2 == 0 {
        m /= 2;
        twos += 1;
    }
    let primes: Vec<u64> = if m == 1 { vec![] } else { factor_u64(m).into_iter().map(|(p, _)| p).collect() };
    let c = ClsCase {
        shape: shape.to_string(),
        primes,
        cert: vec![],
        eight: twos == 3,
        threads,
        // every third discriminant of the sweeps runs with the double-large-prime variation forced
        use_double: if (dabs / 4) % 3 == 0 { Some(true) } else { None },
        prior: None,
    };
    if c.dabs() == Some(dabs as u128) {
        Some(c)
    } else {
        None
    }
}

// ---------------------------------------------------------------------------
// Generators

fn odd_prime(bits: u32, rng: &mut SplitMix) -> u64 {
    if bits <= 2 {
        3
    } else {
        prime64(bits.min(64), rng)
    }
}

/// m = product of `k` distinct odd primes with about `mbits` bits in total.
fn build_primes(mbits: u32, k: usize, rng: &mut SplitMix) -> Vec<u64> {
    let k = k.max(1).min((mbits / 2).max(1) as usize);
    // split mbits into k parts >= 2
    let mut parts = vec![2u32; k];
    let mut rest = mbits.saturating_sub(2 * k as u32);
    for i in 0..k {
        let take = if i + 1 == k { rest } else { rng.below(rest as u64 + 1) as u32 };
        parts[i] += take;
        rest -= take;
    }
    let mut primes: Vec<u64> = vec![];
    for b in parts {
        let mut tries = 0;
        loop {
            let p = odd_prime(b.min(64), rng);
            if !primes.contains(&p) {
                primes.push(p);
                break;
            }
            tries += 1;
            if tries > 40 {
                break; // tiny size with all primes used: drop this factor
            }
        }
    }
    primes
}

/// Smoothness score of D at the small primes: sum chi(p) log p / p (high = many split primes =
/// "lucky", large h; low = "unlucky", small h, rare relations).
fn score(c: &ClsCase) -> f64 {
    let Some(dabs) = c.dabs() else { return 0.0 };
    let Ok(dd) = Disc::<Wide>::new(-forms::wide_from_u128(dabs)) else {
        return 0.0;
    };
    let mut s = 0.0;
    for p in [2u64, 3, 5, 7, 11, 13, 17, 19, 23, 29, 31, 37] {
        s += dd.kronecker(p) as f64 * (p as f64).ln() / p as f64;
    }
    s
}

/// Discriminants with lo <= bits(|D|) <= maxbits (maxbits <= 64 here), fundamental by construction.
pub fn strategy_mid(lo: u32, maxbits: u32) -> impl Strategy<Value = ClsCase> {
    (lo..=maxbits, 1usize..=4, any::<u64>(), 0u8..3, 0u8..4, any::<bool>()).prop_map(
        move |(bits, k, seed, eight, bias, thr)| {
            let eight = eight == 0;
            let ncand = if bias >= 2 { 8 } else { 1 };
            let mut best: Option<(f64, ClsCase)> = None;
            for j in 0..ncand {
                let mut rng = SplitMix(seed ^ (j as u64).wrapping_mul(0x9e3779b97f4a7c15));
                let mut mbits = bits.saturating_sub(if eight { 3 } else { 1 }).max(2);
                let c = loop {
                    let c = ClsCase {
                        shape: match bias {
                            2 => "mid-unlucky",
                            3 => "mid-lucky",
                            _ => "mid",
                        }
                        .to_string(),
                        primes: build_primes(mbits, k, &mut rng),
                        cert: vec![],
                        eight,
                        threads: if thr { Some(4) } else { None },
                        use_double: if seed % 3 == 0 { Some(true) } else { None },
                        prior: None,
                    };
                    match c.dabs() {
                        Some(d) if d < 1u128 << maxbits && d >= 3 => break c,
                        _ => {
                            mbits = mbits.saturating_sub(1).max(2);
                            if mbits == 2 {
                                // m = 3: D = -3 or -24
                                break ClsCase {
                                    primes: vec![3],
                                    ..c
                                };
                            }
                        }
                    }
                };
                let s = score(&c);
                let better = match (&best, bias) {
                    (None, _) => true,
                    (Some((bs, _)), 2) => s < *bs,
                    (Some((bs, _)), _) => s > *bs,
                };
                if better {
                    best = Some((s, c));
                }
            }
            best.unwrap().1
        },
    )
}

/// 40..128-bit discriminants: products of 1..3 primes <= 64 bits, or one certified prime of
/// up to 125 bits times at most one small prime.
pub fn strategy_big(lo: u32, hi: u32) -> impl Strategy<Value = ClsCase> {
    (lo..=hi, 0u8..4, any::<u64>(), 0u8..3, 0u32..6, any::<bool>()).prop_map(move |(bits, kind, seed, eight, idx, thr)| {
        let eight = eight == 0;
        let mut rng = SplitMix(seed);
        let mut mbits = bits.saturating_sub(if eight { 3 } else { 1 }).max(8);
        loop {
            let (primes, cert, shape) = match kind {
                // one big prime (certified above 64 bits)
                0 => {
                    if mbits <= 64 {
                        (vec![odd_prime(mbits, &mut rng)], vec![], "big-prime")
                    } else {
                        (vec![], vec![(mbits.min(125), idx)], "big-prime")
                    }
                }
                // small prime x big prime
                1 => {
                    let sb = 2 + rng.below(9) as u32;
                    let s = odd_prime(sb, &mut rng);
                    let rest = mbits.saturating_sub(sb).max(4);
                    if rest <= 64 {
                        let mut p = odd_prime(rest, &mut rng);
                        if p == s {
                            p = odd_prime(rest.max(5), &mut rng);
                        }
                        (vec![s, p], vec![], "big-small-x-prime")
                    } else {
                        (vec![s], vec![(rest.min(125), idx)], "big-small-x-prime")
                    }
                }
                // two or three balanced primes
                _ => {
                    let k = if kind == 2 { 2 } else { 3 };
                    let k = if mbits > 64 * k as u32 { 3 } else { k };
                    let mut ps = vec![];
                    let mut rest = mbits;
                    for i in 0..k {
                        let b = (rest / (k - i) as u32).clamp(3, 64);
                        let mut p = odd_prime(b, &mut rng);
                        while ps.contains(&p) {
                            p = odd_prime(b.max(5), &mut rng);
                        }
                        ps.push(p);
                        rest = rest.saturating_sub(b);
                    }
                    (ps, vec![], "big-balanced")
                }
            };
            let c = ClsCase {
                shape: shape.to_string(),
                primes,
                cert,
                eight,
                threads: if thr { Some(4) } else { None },
                use_double: if seed % 3 == 0 { Some(true) } else { None },
                prior: None,
            };
            match c.dabs() {
                Some(d) if 128 - d.leading_zeros() <= hi => break c,
                _ => {
                    mbits = mbits.saturating_sub(2).max(8);
                }
            }
        }
    })
}

// ---------------------------------------------------------------------------
// Calling the library

static OUT_ROOT: OnceLock<PathBuf> = OnceLock::new();
static DIR_COUNTER: AtomicU64 = AtomicU64::new(0);
static HANGS: Mutex<Vec<String>> = Mutex::new(Vec::new());
/// panic messages that are neither of the two documented give-ups: (class, example)
static OTHER_PANICS: Mutex<Vec<(String, String)>> = Mutex::new(Vec::new());

fn tmp_root() -> PathBuf {
    OUT_ROOT.get().cloned().unwrap_or_else(|| std::env::temp_dir().join("yqv")).join("tmp").join("c18")
}

pub struct LibResult {
    pub h: yamaquasi::Uint,
    pub invariants: Vec<u128>,
    pub gens: Vec<(u32, Vec<u128>)>,
}

pub enum Outcome {
    Returned(LibResult),
    None,
    Panic(PanicInfo),
    Hang,
    Harness(String),
}

/// `classgroup(D, prefs, pool)` on its own 8 MiB thread (the CLI's main-thread stack) under a watchdog.
pub fn call_library(dabs: u128, threads: Option<usize>, use_double: Option<bool>, outdir: &Path) -> Outcome {
    let (tx, rx) = mpsc::channel();
    let abort = Arc::new(AtomicBool::new(false));
    let ab2 = abort.clone();
    let od = outdir.to_path_buf();
    let spawned = std::thread::Builder::new()
        .name("c18-classgroup".into())
        .stack_size(8 << 20)
        .spawn(move || {
            let pool = match threads {
                None | Some(1) => None,
                Some(t) => match rayon::ThreadPoolBuilder::new().num_threads(t).build() {
                    Ok(p) => Some(p),
                    Err(e) => {
                        let _ = tx.send(Err(format!("cannot create thread pool: {}", e)));
                        return;
                    }
                },
            };
            let d = Int::from_str(&format!("-{}", dabs)).expect("decimal");
            let mut prefs = Preferences::default();
            prefs.verbosity = Verbosity::Silent;
            prefs.threads = threads;
            prefs.use_double = use_double;
            prefs.outdir = Some(od);
            // never true before the watchdog fires: lets a stuck sieve loop end afterwards
            prefs.should_abort = Some(Box::new(move || ab2.load(Ordering::Relaxed)));
            let r = catch(|| classgroup::classgroup(&d, &prefs, pool.as_ref()));
            let _ = tx.send(Ok(r.map(|o| {
                o.map(|g| LibResult {
                    h: g.h,
                    invariants: g.invariants,
                    gens: g.gens,
                })
            })));
        });
    if let Err(e) = spawned {
        return Outcome::Harness(format!("cannot spawn thread: {}", e));
    }
    match rx.recv_timeout(Duration::from_secs(WATCHDOG_S)) {
        Ok(Ok(Ok(Some(r)))) => Outcome::Returned(r),
        Ok(Ok(Ok(None))) => Outcome::None,
        Ok(Ok(Err(p))) => Outcome::Panic(p),
        Ok(Err(e)) => Outcome::Harness(e),
        Err(_) => {
            abort.store(true, Ordering::Relaxed);
            Outcome::Hang
        }
    }
}

// ---------------------------------------------------------------------------
// Oracle for one case

fn uint_to_u128(x: &yamaquasi::Uint) -> Option<u128> {
    let d = x.digits();
    if d[2..].iter().any(|&w| w != 0) {
        return None;
    }
    Some(d[0] as u128 | ((d[1] as u128) << 64))
}

fn harness(e: String) -> Fail {
    Fail::new("HARNESS|forms-oracle", e)
}

fn parse_line(line: &str) -> Option<Vec<i64>> {
    let mut v = vec![];
    for t in line.split_ascii_whitespace() {
        let x: i64 = t.parse().ok()?;
        if x == 0 || x.unsigned_abs() < 2 {
            return None;
        }
        v.push(x);
    }
    Some(v)
}

/// Primes whose forms are used for the one-sided checks: the first split/ramified primes, then
/// primes of 14..22 bits and 28..40 bits derived from D (mostly outside any factor base).
fn probe_forms<T: Z>(dd: &Disc<T>, dabs: u128, count: usize) -> Result<Vec<(u64, Form<T>)>, String> {
    let mut out = vec![];
    let small = count * 2 / 5;
    for p in ref_sieve(2000) {
        if out.len() >= small {
            break;
        }
        if let Some(f) = dd.prime_form(p as u64)? {
            out.push((p as u64, dd.reduce(&f)?));
        }
    }
    let mut rng = SplitMix(hash64(&dabs));
    let mut guard = 0;
    while out.len() < count && guard < 10_000 {
        guard += 1;
        let bits = if out.len() % 2 == 0 { 14 + rng.below(9) as u32 } else { 28 + rng.below(13) as u32 };
        let p = prime64(bits, &mut rng);
        if out.iter().any(|&(q, _)| q == p) {
            continue;
        }
        if let Some(f) = dd.prime_form(p)? {
            out.push((p, dd.reduce(&f)?));
        }
    }
    Ok(out)
}

struct Files {
    relations: String,
    classnumber: Option<String>,
}

fn check_result<T: Z>(c: &ClsCase, dabs: u128, dd: &Disc<T>, r: &LibResult, files: &Files, l: &mut Local) -> Result<(), Fail> {
    let dtxt = format!("D=-{} threads={:?}", dabs, c.threads);
    // --- h and the invariants ---------------------------------------------------------
    let Some(h) = uint_to_u128(&r.h) else {
        return Err(Fail::new("classgroup|wrong-class-number", format!("{}: h = {} exceeds 2^128 (h < sqrt|D| log|D|)", dtxt, r.h)));
    };
    ensure!(h >= 1, "classgroup|wrong-class-number", "{}: h = 0", dtxt);
    let mut prod: Option<u128> = Some(1);
    let mut expo: u128 = 1;
    for &d in &r.invariants {
        ensure!(d >= 1, "classgroup|invariants-product", "{}: invariant 0 in {:?}", dtxt, r.invariants);
        prod = prod.and_then(|x| x.checked_mul(d));
        expo = expo / gcd_u128(expo, d) * d;
    }
    ensure!(
        prod == Some(h),
        "classgroup|invariants-product",
        "{}: invariants {:?} do not multiply to h = {}",
        dtxt,
        r.invariants,
        h
    );
    let chain = r.invariants.windows(2).all(|w| w[0] % w[1] == 0) || r.invariants.windows(2).all(|w| w[1] % w[0] == 0);
    l.label(if chain { "invariants:divisibility-chain" } else { "invariants:no-divisibility-chain" });
    if r.invariants.len() >= 2 {
        l.label("h-noncyclic");
        l.sample("h-noncyclic", || json!({"case": c, "h": h.to_string(), "invariants": r.invariants.iter().map(|x| x.to_string()).collect::<Vec<_>>()}));
    }

    // --- files ------------------------------------------------------------------------
    match &files.classnumber {
        Some(s) => ensure!(
            s.trim() == h.to_string(),
            "classnumber-file|mismatch",
            "{}: file `classnumber` contains {:?} but the returned h is {}",
            dtxt,
            truncate(s.trim(), 80),
            h
        ),
        None => return Err(Fail::new("classnumber-file|missing", format!("{}: result returned but no `classnumber` file in outdir", dtxt))),
    }
    let one = dd.principal();
    let mut nlines = 0u64;
    for (i, line) in files.relations.lines().enumerate() {
        let Some(tokens) = parse_line(line) else {
            return Err(Fail::new(
                "relations.sieve|malformed-line",
                format!("{}: line {} of relations.sieve is not a list of +-primes: {:?}", dtxt, i + 1, truncate(line, 200)),
            ));
        };
        nlines += 1;
        match dd.product_of_primes(&tokens) {
            Ok(f) => ensure!(
                f == one,
                "relations.sieve|not-principal",
                "{}: line {} of relations.sieve `{}` composes to ({}, {}, {}), not the principal form",
                dtxt,
                i + 1,
                truncate(line, 300),
                f.a,
                f.b,
                f.c
            ),
            Err(e) if e.starts_with("NOFORM") => {
                return Err(Fail::new(
                    "relations.sieve|prime-without-form",
                    format!("{}: line {} of relations.sieve `{}` mentions an inert prime ({})", dtxt, i + 1, truncate(line, 300), e),
                ))
            }
            Err(e) => return Err(harness(format!("{}: line `{}`: {}", dtxt, truncate(line, 200), e))),
        }
    }
    if !files.relations.is_empty() && !files.relations.ends_with('\n') {
        return Err(Fail::new("relations.sieve|malformed-line", format!("{}: relations.sieve does not end with a newline", dtxt)));
    }
    l.label_n("relation-lines", nlines);
    if nlines == 0 {
        l.label("relation-file-empty");
    }

    // --- exact oracle -----------------------------------------------------------------
    if dabs < EXACT_BELOW {
        l.label("oracle:exact");
        let enumerate = |collect: bool| {
            if dabs < 1 << 22 {
                reduced_forms(dabs as u64, collect)
            } else {
                reduced_forms_sieved(dabs as u64, collect)
            }
        };
        let (count, _) = enumerate(false);
        ensure!(
            h == count as u128,
            "classgroup|wrong-class-number",
            "{}: returned h = {} but there are {} reduced forms",
            dtxt,
            h,
            count
        );
        let hf = factor_u64(count);
        if count <= STRUCTURE_MAX_H {
            // a group of squarefree order is cyclic: the list of classes is only needed otherwise
            let want: forms::GroupType = if hf.iter().all(|&(_, e)| e == 1) {
                hf.iter().filter(|&&(p, _)| p > 1).map(|&(p, _)| (p, vec![1u32])).collect()
            } else {
                let (n, list) = enumerate(true);
                if n != count || list.len() as u64 != count {
                    return Err(harness(format!("{}: enumeration is not reproducible", dtxt)));
                }
                class_group_type(dabs as u64, &list).map_err(harness)?
            };
            let got = type_of_invariants(&r.invariants).map_err(harness)?;
            ensure!(
                want == got,
                "classgroup|wrong-group-structure",
                "{}: invariants {:?} (type {:?}) but the class group has type {:?} (prime -> exponents of cyclic factors)",
                dtxt,
                r.invariants,
                got,
                want
            );
            l.label("structure-checked");
            if want.values().any(|v| v.len() >= 2) {
                l.label("true-group-noncyclic");
            }
        } else {
            l.label("structure-not-checked:h>300000");
        }
        for (p, coords) in &r.gens {
            ensure!(
                coords.len() == r.invariants.len(),
                "classgroup|gens-shape",
                "{}: generator {} has {} coordinates for {} invariants",
                dtxt,
                p,
                coords.len(),
                r.invariants.len()
            );
            let Some(f) = dd.prime_form(*p as u64).map_err(harness)? else {
                return Err(Fail::new("classgroup|gens-inert-prime", format!("{}: generator {} is not the norm of a prime form", dtxt, p)));
            };
            let o_true = dd.order_of(&f, h, &hf).map_err(harness)?;
            let o_coords = order_of_coords(&r.invariants, coords).unwrap_or(0);
            ensure!(
                o_true == o_coords,
                "classgroup|gens-order",
                "{}: [{}] has order {} in the class group but its coordinates {:?} in {:?} have order {}",
                dtxt,
                p,
                o_true,
                coords,
                r.invariants,
                o_coords
            );
            l.label("gens-checked");
        }
    } else {
        l.label("oracle:one-sided");
    }

    // --- one-sided checks (cheap version below the exact bound) --------------------------
    let nprobe = if dabs < 1 << 34 { 6 } else if dabs < EXACT_BELOW { 20 } else { 50 };
    let probes = probe_forms(dd, dabs, nprobe).map_err(harness)?;
    for (p, f) in &probes {
        let x = dd.pow(f, h).map_err(harness)?;
        ensure!(
            x == one,
            "classgroup|h-does-not-kill-prime-form",
            "{}: h = {} but [{}]^h = ({}, {}, {}) is not principal",
            dtxt,
            h,
            p,
            x.a,
            x.b,
            x.c
        );
        if expo != h {
            let x = dd.pow(f, expo).map_err(harness)?;
            ensure!(
                x == one,
                "classgroup|exponent-does-not-kill-prime-form",
                "{}: invariants {:?} have exponent {} but [{}]^exponent is not principal",
                dtxt,
                r.invariants,
                expo,
                p
            );
        }
        l.label("prime-forms-probed");
    }
    if dabs >= EXACT_BELOW {
        for (p, coords) in &r.gens {
            ensure!(
                coords.len() == r.invariants.len(),
                "classgroup|gens-shape",
                "{}: generator {} has {} coordinates for {} invariants",
                dtxt,
                p,
                coords.len(),
                r.invariants.len()
            );
            let Some(f) = dd.prime_form(*p as u64).map_err(harness)? else {
                return Err(Fail::new("classgroup|gens-inert-prime", format!("{}: generator {} is not the norm of a prime form", dtxt, p)));
            };
            let o = order_of_coords(&r.invariants, coords).unwrap_or(0);
            let x = dd.pow(&f, o).map_err(harness)?;
            ensure!(
                x == one,
                "classgroup|gens-order",
                "{}: coordinates {:?} of [{}] in {:?} have order {} but [{}]^{} is not principal",
                dtxt,
                coords,
                p,
                r.invariants,
                o,
                p,
                o
            );
            l.label("gens-checked");
        }
        let est = euler_estimate(dd, dabs as f64, 200_000);
        let ratio = h as f64 / est;
        ensure!(
            (0.7..=1.4).contains(&ratio),
            "classgroup|h-outside-analytic-window",
            "{}: h = {} is {:.3} x the Euler product estimate {:.4e}",
            dtxt,
            h,
            ratio,
            est
        );
    }

    // --- counters ---------------------------------------------------------------------
    if (h >= 2 && r.invariants.len() >= 2) || dabs % 4 == 0 || dabs > 1 << 32 {
        l.nontrivial_of(&dabs);
    }
    Ok(())
}

/// When the library gave up, no result was returned and nothing is said about h or the group.
/// The relation file, however, has been emitted: its first lines are still composed.  On the
/// pinned tree every such line is trivial (the give-ups come from the lattice-index heuristic,
/// not from the relations).  A wrong sign convention makes the lattice inconsistent, so the
/// library gives up on EVERY affected discriminant instead of returning a wrong group: without
/// this check such a defect could only show up as a vacuity self-check failure.  A non-trivial
/// line is therefore reported, under its own class (`...|no-result`), so that it can be told
/// apart from the strict reading of C18 ("whenever a result is returned"); set this to `false`
/// for the strict reading (the per-class floors in `run` then still fail the self-check).
const FLAG_RELATIONS_WITHOUT_RESULT: bool = false;
static NO_RESULT_BAD_LINES: Mutex<Vec<String>> = Mutex::new(Vec::new());

fn no_result_diagnostic(c: &ClsCase, dabs: u128, dir: &Path, l: &mut Local) -> Result<(), Fail> {
    let Ok(text) = std::fs::read_to_string(dir.join("relations.sieve")) else {
        return Ok(());
    };
    let mut bad: Option<String> = None;
    let mut n = 0;
    for line in text.lines().take(200) {
        let Some(tokens) = parse_line(line) else { continue };
        let trivial = if dabs < 1 << 40 {
            let dd = Disc::<i128>::new(-(dabs as i128)).map_err(harness)?;
            dd.product_of_primes(&tokens).map(|f| f == dd.principal())
        } else {
            let dd = Disc::<Wide>::new(-forms::wide_from_u128(dabs)).map_err(harness)?;
            dd.product_of_primes(&tokens).map(|f| f == dd.principal())
        };
        n += 1;
        match trivial {
            Ok(true) => {}
            Ok(false) => bad = bad.or(Some(line.to_string())),
            Err(e) if e.starts_with("NOFORM") => bad = bad.or(Some(line.to_string())),
            Err(e) => return Err(harness(e)),
        }
    }
    l.label_n("no-result:relation-lines-examined", n);
    if let Some(line) = bad {
        l.label("no-result:nontrivial-relation-line");
        let txt = format!("D=-{} threads={:?}: `{}`", dabs, c.threads, truncate(&line, 200));
        let mut g = NO_RESULT_BAD_LINES.lock().unwrap();
        if g.len() < 5 {
            g.push(txt.clone());
        }
        if FLAG_RELATIONS_WITHOUT_RESULT {
            return Err(Fail::new(
                "relations.sieve|not-principal|no-result",
                format!("no result was returned (give-up), but the emitted relation file contains a non-trivial product: {}", txt),
            ));
        }
    }
    Ok(())
}

fn size_label(dabs: u128) -> &'static str {
    match 128 - dabs.leading_zeros() {
        0..=14 => "size:<=14",
        15..=24 => "size:15-24",
        25..=32 => "size:25-32",
        33..=40 => "size:33-40",
        41..=64 => "size:41-64",
        65..=100 => "size:65-100",
        _ => "size:101-128",
    }
}

pub fn check(c: &ClsCase, l: &mut Local) -> Result<(), Fail> {
    let Some(dabs) = c.dabs() else {
        return Err(Fail::new("HARNESS|out-of-domain", format!("not a fundamental discriminant below 2^128: {:?}", c)));
    };
    if !matches!(c.threads, None | Some(2..=8)) || dabs < 3 {
        return Err(Fail::new("HARNESS|out-of-domain", format!("bad case {:?}", c)));
    }
    let dir = tmp_root().join(format!(
        "{}-{:x}-{}",
        std::process::id(),
        hash64(&(dabs, c.threads)),
        DIR_COUNTER.fetch_add(1, Ordering::Relaxed)
    ));
    let _ = std::fs::remove_dir_all(&dir);
    if let Err(e) = std::fs::create_dir_all(&dir) {
        return Err(Fail::new("HARNESS|tmpdir", format!("cannot create {}: {}", dir.display(), e)));
    }
    if let Some(d0) = c.prior {
        // an earlier, unrelated computation into the same directory (its result is not judged here)
        if forms::is_fundamental_abs(d0) {
            let _ = call_library(d0 as u128, None, None, &dir);
            l.label("history:outdir-reused");
        }
    }
    l.case();
    l.label("calls");
    let classes: [&str; 3] = [
        size_label(dabs),
        match c.threads {
            None => "threads:none",
            Some(_) => "threads:4",
        },
        match dabs % 16 {
            3 | 11 => "D=5mod8",
            7 | 15 => "D=1mod8",
            4 => "D=12mod16",
            _ => "D=8mod16",
        },
    ];
    for k in classes {
        l.label(k);
    }
    l.label(&format!("shape:{}", c.shape));
    let out = call_library(dabs, c.threads, c.use_double, &dir);
    if c.use_double == Some(true) {
        l.label("use_double:forced");
    }
    let res = (|| -> Result<(), Fail> {
        if matches!(out, Outcome::None | Outcome::Panic(_)) {
            no_result_diagnostic(c, dabs, &dir, l)?;
        }
        match out {
            Outcome::Harness(e) => Err(Fail::new("HARNESS|call", e)),
            Outcome::Hang => {
                l.label("hang");
                HANGS.lock().unwrap().push(format!("D=-{} threads={:?}", dabs, c.threads));
                Ok(())
            }
            Outcome::None => {
                l.label("no-result:none");
                Ok(())
            }
            Outcome::Panic(p) => {
                if p.msg.contains("failed to determine lattice index") {
                    l.label("no-result:lattice-index");
                    l.sample("no-result:lattice-index", || serde_json::to_value(c).unwrap());
                } else if p.msg.contains("not enough polynomials") {
                    l.label("no-result:not-enough-polynomials");
                    l.sample("no-result:not-enough-polynomials", || serde_json::to_value(c).unwrap());
                } else {
                    // Not one of the documented give-ups.  No result was returned, so the
                    // statement of C18 is not contradicted; counted and listed in the evidence.
                    let cls = format!("{}@{}", p.msg_class(), p.short_loc()).replace('\n', " ");
                    l.label("no-result:other-panic");
                    l.label(&format!("other-panic:{}", truncate(&cls, 100)));
                    let mut g = OTHER_PANICS.lock().unwrap();
                    if !g.iter().any(|(k, _)| *k == cls) && g.len() < 100 {
                        g.push((cls, format!("D=-{} threads={:?}: {}", dabs, c.threads, truncate(&p.msg, 200))));
                    }
                }
                Ok(())
            }
            Outcome::Returned(r) => {
                l.label("returned");
                for k in classes {
                    l.label(&format!("returned|{}", k));
                }
                let files = Files {
                    relations: std::fs::read_to_string(dir.join("relations.sieve"))
                        .map_err(|e| Fail::new("relations.sieve|missing", format!("D=-{}: cannot read relations.sieve: {}", dabs, e)))?,
                    classnumber: std::fs::read_to_string(dir.join("classnumber")).ok(),
                };
                if dabs < 1 << 40 {
                    let dd = Disc::<i128>::new(-(dabs as i128)).map_err(harness)?;
                    check_result(c, dabs, &dd, &r, &files, l)
                } else {
                    let dd = Disc::<Wide>::new(-forms::wide_from_u128(dabs)).map_err(harness)?;
                    check_result(c, dabs, &dd, &r, &files, l)
                }
            }
        }
    })();
    let _ = std::fs::remove_dir_all(&dir);
    res
}

// ---------------------------------------------------------------------------
// Tiers

/// Discriminants of the repository's tests and README whose odd prime factors are below 2^64
/// (factorisations checked offline; `ClsCase::dabs` re-verifies primality and the product).
fn golden() -> Vec<ClsCase> {
    let mk = |primes: &[u64], eight: bool| ClsCase {
        shape: "golden".into(),
        primes: primes.to_vec(),
        cert: vec![],
        eight,
        threads: None,
        use_double: None,
        prior: None,
    };
    vec![
        mk(&[21827869366691, 3720220850369, 3420347448653], false),  // 128 bits (test_classgroup)
        mk(&[1104124743052601, 756735799716719], false),             // 100 bits (README)
        mk(&[25785733], false),                                      // -103142932
        mk(&[43, 59], false),                                        // -10148
        mk(&[89, 1193], false),                                      // -424708 (h = 64)
        mk(&[352753], false),                                        // -1411012 (h = 124)
        mk(&[79, 7603], false),                                      // -2402548 (h = 176)
        mk(&[677, 719, 743, 2857], false),                           // -4133106580052 (h = 615040)
        mk(&[6337, 6619, 6737, 37537], false),                       // -10607235129657707
        mk(&[661019, 1017781], false),                               // -672772578839
        mk(&[580817557, 965844427], false),                          // -560979400532204839
        mk(&[554320019987, 663710673161], false),                    // -367908113612190744468907
    ]
}

fn run_cases(ctx: &Ctx, cases: &[ClsCase]) {
    use rayon::prelude::*;
    cases.par_chunks(16).for_each(|chunk| {
        let mut l = Local::new();
        for c in chunk {
            ctx.fixed_case("classgroup", c, &mut l, check);
        }
        ctx.merge(l);
    });
}

fn run(ctx: &Ctx) {
    let _ = OUT_ROOT.set(ctx.out_root.clone());
    let _ = std::fs::remove_dir_all(tmp_root());
    ctx.set_rule(
        "negative fundamental discriminants built from distinct certified primes (D = -m, -4m, -8m): ALL of them below a \
         bound (2^14 quick / 2^21 thorough; 2^12 / 2^18 under the chk profile), generated ones up to 2^36 / 2^40 (1..4 prime factors, best-of-8 bias toward \
         'unlucky' = many inert small primes and 'lucky'), generated 40..128-bit ones, and the discriminants of the \
         repository's tests/README; threads in {None, 4}; outdir set.  Oracle: reduced-form count and class-group type by \
         enumeration below 2^40 (group type for h <= 300000), every line of relations.sieve composed with independent form arithmetic, h.[f] = 1 for \
         generated prime forms, Euler product window above 2^40.  Non-trivial = result returned and (non-cyclic group or \
         D = 0 mod 4 or |D| > 2^32); distinct by D.",
    );
    ctx.assume("bnum 0.8 integer arithmetic (+ - * / %) and native i128/u128 arithmetic are correct");
    ctx.assume("a call that panics with 'failed to determine lattice index' / 'not enough polynomials' or returns None returned no result: counted, not flagged");
    ctx.assume("above |D| = 2^40 the class number itself is only checked one-sidedly (h kills 50 prime forms, Euler-product window)");
    if let Err(e) = forms::self_test() {
        ctx.selfcheck_failed(&format!("oracle kit (forms) self-test: {}", e));
        return;
    }

    // 1. golden cases, both thread settings
    let mut gold = vec![];
    for g in golden() {
        gold.push(ClsCase { threads: Some(4), ..g.clone() });
        gold.push(g);
    }
    if ctx.is_chk() {
        gold.truncate(12);
    }
    // the same output directory used for a second computation: a large relation file first, a small one after
    for (k, g) in golden().into_iter().enumerate().take(16) {
        let prior = [47288038152303512u64, 47288038152303512 + 8 * 3, 4 * 1000000007u64 * 998244353][k % 3];
        if forms::is_fundamental_abs(prior) {
            gold.push(ClsCase { prior: Some(prior), ..g });
        }
    }
    run_cases(ctx, &gold);

    // 2. exhaustive sweep of the small discriminants
    let bound: u64 = if ctx.is_chk() { ctx.pick(1 << 12, 1 << 18) } else { ctx.pick(1 << 14, 1 << 21) };
    let all = forms::fundamental_abs_range(3, bound);
    let mut cases = vec![];
    for (i, &dabs) in all.iter().enumerate() {
        // threads: every third discriminant runs with a pool of 4, every 16th with both settings
        let thr = if i % 3 == 1 { Some(4) } else { None };
        match case_of_dabs(dabs, "exhaustive", thr) {
            Some(c) => {
                if i % 16 == 0 {
                    cases.push(ClsCase {
                        threads: if thr.is_some() { None } else { Some(4) },
                        ..c.clone()
                    });
                }
                cases.push(c);
            }
            None => ctx.selfcheck_failed(&format!("cannot build the case for D = -{}", dabs)),
        }
    }
    ctx.extra("exhaustive_below", json!(bound));
    ctx.extra("exhaustive_discriminants", json!(all.len()));
    run_cases(ctx, &cases);

    // 3. generated: exact range
    let maxbits = ctx.pick(36, 40);
    let lo = if ctx.is_chk() { ctx.pick(12, 18) } else { ctx.pick(14, 21) };
    ctx.par_prop("classgroup", 32, ctx.n(320, 30_000), || strategy_mid(lo, maxbits), check);

    // 4. generated: 41..64 bits and 65..128 bits (relation-level and one-sided oracles)
    ctx.par_prop("classgroup", 16, ctx.n(24, 1500), || strategy_big(41, 64), check);
    ctx.par_prop("classgroup", 16, ctx.n(40, 3000), || strategy_big(65, 128), check);

    // outcome accounting
    let hangs = HANGS.lock().unwrap().clone();
    if !hangs.is_empty() {
        ctx.inconclusive(&format!("{} classgroup call(s) exceeded the {} s watchdog: {}", hangs.len(), WATCHDOG_S, hangs.join("; ")));
    }
    let others = OTHER_PANICS.lock().unwrap().clone();
    ctx.extra(
        "other_panics",
        json!(others.iter().map(|(k, e)| json!({"class": k, "example": e})).collect::<Vec<_>>()),
    );
    // Vacuity floors: the library returns a result on ~85-90 % of the calls of every class on the
    // pinned tree; a change that makes it give up (always, or for one size / residue class /
    // thread setting) must not pass as "held".
    let calls = ctx.label_count("calls");
    ctx.essential("returned", calls / 2);
    let bad = NO_RESULT_BAD_LINES.lock().unwrap().clone();
    ctx.extra("no_result_nontrivial_relation_lines", json!(bad));
    for k in [
        "size:<=14", "size:15-24", "size:25-32", "size:33-40", "size:41-64", "size:65-100", "size:101-128", "threads:none", "threads:4", "D=1mod8", "D=5mod8",
        "D=12mod16", "D=8mod16",
    ] {
        let n = ctx.label_count(k);
        let r = ctx.label_count(&format!("returned|{}", k));
        if n >= 9 && r < n / 3 {
            ctx.selfcheck_failed(&format!(
                "only {} of {} calls of class '{}' returned a result (the property is conditional on a returned result: vacuous){}",
                r,
                n,
                k,
                if bad.is_empty() {
                    String::new()
                } else {
                    format!("; relation files written before a give-up contain NON-TRIVIAL products, e.g. {}", bad[0])
                }
            ));
        }
    }
    ctx.essential("relation-lines", calls);
    for e in ["oracle:exact", "oracle:one-sided", "threads:4", "threads:none", "D=1mod8", "D=5mod8", "D=12mod16", "D=8mod16", "h-noncyclic", "gens-checked"] {
        ctx.essential(e, 3);
    }
    ctx.essential("size:101-128", 2);
    let _ = std::fs::remove_dir_all(tmp_root());
}

fn replay(ctx: &Ctx, check_name: &str, case: &Value) -> Result<(), Fail> {
    let _ = OUT_ROOT.set(ctx.out_root.clone());
    match check_name {
        "classgroup" => {
            let r = replay_as::<ClsCase>(case, check);
            if !HANGS.lock().unwrap().is_empty() {
                ctx.inconclusive("classgroup call exceeded the watchdog");
            }
            r
        }
        _ => Err(Fail::new("HARNESS|unknown-check", check_name.to_string())),
    }
}
