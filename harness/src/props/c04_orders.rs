//! C04 part 3: exact exploration of relation-store insertion orders.  Filled in once the
//! relation-store hooks (C11) are merged.
use crate::engine::{Ctx, Fail, Local};
use serde_json::Value;

pub fn run(_ctx: &Ctx, _l: &mut Local) {}

pub fn replay(_ctx: &Ctx, check: &str, _case: &Value) -> Result<(), Fail> {
    Err(Fail::new("HARNESS|unknown-check", check.to_string()))
}
