//! C04 part 3: exact exploration of what the relation-store lock serialises.
//!
//! Every mutation of `RelationSet` happens under its write lock, so any interleaving of
//! sieving threads is equivalent to SOME ORDER of `add` calls.  The `relation_added` hook
//! records the adds of real single-threaded sieves; they are replayed into a fresh store in
//! generated orders (proptest: reversal, rotations, block swaps, round-robin interleavings of
//! k virtual threads that each own a contiguous chunk, random transpositions).  After every
//! step the published cycles are re-verified with independent arithmetic, internal panics
//! (the store's consistency assertions) are violations, and at the end the final
//! combination step must return proper divisors only.  This part is a pure function of the
//! seed and shrinks to a minimal reordering.

use std::sync::Mutex;

use proptest::prelude::*;
use serde::{Deserialize, Serialize};
use serde_json::Value;

use crate::engine::{guard, replay_as, Ctx, Fail, Local};
use crate::oracle::int::{certified_prime, powmod, widen, Ref, SplitMix, U1024};
use yamaquasi::relations::{Relation, RelationSet};
use yamaquasi::{Algo, Preferences, Uint, Verbosity};

#[derive(Clone, Debug, Serialize, Deserialize)]
pub struct RelSer {
    #[serde(with = "crate::ser::dec")]
    pub x: U1024,
    pub cofactor: u64,
    pub cyclelen: u64,
    pub factors: Vec<(i64, u64)>,
    pub pq: Option<(u64, u64)>,
}

impl RelSer {
    fn rel(&self) -> Relation {
        Relation { x: self.x, cofactor: self.cofactor, cyclelen: self.cyclelen, factors: self.factors.clone() }
    }
}

#[derive(Clone, Debug)]
pub struct History {
    /// the integer being factored (the sieves hand this one, without multiplier, to final_step)
    pub n_orig: U1024,
    pub n: U1024,
    pub fbsize: usize,
    pub maxlarge: u64,
    pub adds: Vec<RelSer>,
    pub source: String,
}

struct Rec {
    n: Uint,
    fbsize: usize,
    maxlarge: u64,
    r: RelSer,
}

static RECORDER: Mutex<Vec<Rec>> = Mutex::new(Vec::new());

fn add_sink(n: &Uint, fbsize: usize, maxlarge: u64, r: &Relation, pq: &Option<(u64, u64)>) {
    RECORDER.lock().unwrap().push(Rec {
        n: *n,
        fbsize,
        maxlarge,
        r: RelSer { x: r.x, cofactor: r.cofactor, cyclelen: r.cyclelen, factors: r.factors.clone(), pq: *pq },
    });
}

/// Record the add calls of one real single-threaded factorisation, grouped by relation store.
pub fn record(n: &U1024, algo: Algo, use_double: Option<bool>, source: &str) -> Result<Vec<History>, Fail> {
    RECORDER.lock().unwrap().clear();
    yamaquasi::verif_sched::set_add_sink(Some(add_sink));
    let mut prefs = Preferences::default();
    prefs.verbosity = Verbosity::Silent;
    prefs.use_double = use_double;
    let r = guard("factor(recording)", || yamaquasi::factor(*n, algo, &prefs));
    yamaquasi::verif_sched::set_add_sink(None);
    r?.ok();
    let recs = std::mem::take(&mut *RECORDER.lock().unwrap());
    let mut out: Vec<History> = vec![];
    for rec in recs {
        match out.iter_mut().find(|h| h.n == rec.n && h.fbsize == rec.fbsize && h.maxlarge == rec.maxlarge) {
            Some(h) => h.adds.push(rec.r),
            None => out.push(History { n_orig: *n, n: rec.n, fbsize: rec.fbsize, maxlarge: rec.maxlarge, adds: vec![rec.r], source: source.to_string() }),
        }
    }
    Ok(out)
}

/// Independent check of a congruence: x^2 == cofactor * prod f^k (mod n), with -1 for the sign.
pub fn congruence_holds(n: &U1024, r: &Relation) -> bool {
    let nr: Ref = widen(n);
    let mut rhs = Ref::from(r.cofactor) % nr;
    for &(f, k) in &r.factors {
        if f == -1 {
            if k % 2 == 1 {
                rhs = (nr - rhs) % nr;
            }
        } else if f > 0 {
            rhs = (rhs * powmod(&Ref::from(f as u64), &Ref::from(k), &nr)) % nr;
        } else {
            return false;
        }
    }
    let x: Ref = widen(&r.x);
    (x * x) % nr == rhs
}

#[derive(Clone, Debug, Serialize, Deserialize)]
pub struct OrderCase {
    #[serde(with = "crate::ser::dec")]
    pub n_orig: U1024,
    /// modulus of the relation store (multiplier included)
    #[serde(with = "crate::ser::dec")]
    pub n: U1024,
    pub fbsize: usize,
    pub maxlarge: u64,
    pub source: String,
    /// the adds in the order in which they are replayed
    pub adds: Vec<RelSer>,
    /// positions of the adds in the recorded (single-threaded) order
    pub perm: Vec<u32>,
    pub kind: String,
}

/// Build a permutation of 0..len from generated ingredients (kind, a, b, c, swaps).
pub fn make_perm(len: usize, kind: u8, a: u16, b: u16, c: u16, swaps: &[(u16, u16)]) -> (String, Vec<u32>) {
    let idx = |v: u16| crate::gen::pick_idx(v, len.max(1));
    let mut p: Vec<u32> = (0..len as u32).collect();
    if len < 2 {
        return ("identity".into(), p);
    }
    let name = match kind % 7 {
        0 => "identity",
        1 => {
            p.reverse();
            "reversal"
        }
        2 => {
            p.rotate_left(idx(a));
            "rotation"
        }
        3 => {
            // swap two blocks [i, i+l) and [j, j+l)
            let (mut i, mut j) = (idx(a), idx(b));
            if i > j {
                std::mem::swap(&mut i, &mut j);
            }
            let l = (1 + idx(c) % 32).min(j - i).min(len - j);
            for t in 0..l {
                p.swap(i + t, j + t);
            }
            "block-swap"
        }
        4 | 5 => {
            // k virtual threads own contiguous chunks and insert round-robin (bursts of `burst`)
            let k = 2 + (a as usize % 15);
            let burst = 1 + (b as usize % 8);
            let chunk = (len + k - 1) / k;
            let mut cursors: Vec<usize> = (0..k).map(|t| t * chunk).collect();
            let ends: Vec<usize> = (0..k).map(|t| ((t + 1) * chunk).min(len)).collect();
            let mut out = Vec::with_capacity(len);
            while out.len() < len {
                for t in 0..k {
                    for _ in 0..burst {
                        if cursors[t] < ends[t] {
                            out.push(cursors[t] as u32);
                            cursors[t] += 1;
                        }
                    }
                }
            }
            p = out;
            "round-robin-threads"
        }
        _ => "transpositions",
    };
    // a few extra transpositions on top (shrinks to none)
    if kind % 7 == 6 || !swaps.is_empty() {
        for &(i, j) in swaps {
            p.swap(idx(i), idx(j));
        }
    }
    (name.to_string(), p)
}

pub fn check(c: &OrderCase, l: &mut Local) -> Result<(), Fail> {
    l.case();
    l.label(&format!("orders:{}", c.kind));
    l.label(&format!("orders:source:{}", c.source.split(':').next().unwrap_or("")));
    let moved = c.perm.iter().enumerate().filter(|(i, &v)| *i as u32 != v).count();
    let has_double = c.adds.iter().any(|a| a.pq.is_some());
    if moved > 0 {
        l.label("orders:genuine-reordering");
        l.nontrivial_of(&(c.n.digits(), &c.perm));
        if has_double {
            l.label("orders:with-double-large-prime-relations");
        }
        l.sample(&format!("orders:{}", c.kind), || {
            serde_json::json!({"n": c.n.to_string(), "source": c.source, "kind": c.kind, "adds": c.adds.len(), "moved": moved, "perm_head": c.perm.iter().take(24).collect::<Vec<_>>()})
        });
    }
    let mut rs = RelationSet::new(c.n, c.fbsize, c.maxlarge);
    let mut verified = 0usize;
    for (step, a) in c.adds.iter().enumerate() {
        let r = a.rel();
        if !congruence_holds(&c.n, &r) {
            return Err(Fail::new("HARNESS|recorded-relation-invalid", format!("recorded add #{} is not a congruence", step)));
        }
        guard("RelationSet::add", || rs.add(r, a.pq))?;
        // every newly published cycle must be a complete, true congruence
        while verified < rs.cycles.len() {
            let cy = &rs.cycles[verified];
            ensure!(
                cy.cofactor == 1,
                "RelationSet::add|published-with-cofactor",
                "after add #{} the store published a relation with cofactor {} (n={})",
                step,
                cy.cofactor,
                c.n
            );
            ensure!(
                congruence_holds(&c.n, cy),
                "RelationSet::add|published-false-congruence",
                "after add #{} (order {}) the store published x={} which is not a congruence mod {}: factors {:?}",
                step,
                c.kind,
                cy.x,
                c.n,
                cy.factors
            );
            verified += 1;
        }
    }
    l.label_n("orders:cycles-verified", verified as u64);
    // the multiset of inputs is the same, so the number of complete (cofactor 1) inputs is a floor
    let complete_inputs = c.adds.iter().filter(|a| a.cofactor == 1).count();
    ensure!(
        rs.cycles.len() >= complete_inputs,
        "RelationSet::add|lost-complete-relation",
        "{} complete relations were added but only {} are published",
        complete_inputs,
        rs.cycles.len()
    );
    // final combination step on what was published
    if !rs.cycles.is_empty() && c.fbsize >= 2 {
        let fb = guard("FBase::new", || yamaquasi::fbase::FBase::new(yamaquasi::Int::from_bits(c.n), c.fbsize as u32))?;
        if fb.len() == c.fbsize {
            let cycles = rs.cycles.clone();
            // like the sieves: the factor base belongs to k*n, the combination is done modulo n
            let n = c.n_orig;
            if !(c.n % n).is_zero() || !n.bit(0) {
                return Err(Fail::new("HARNESS|bad-case", "store modulus is not a multiple of the odd input"));
            }
            let divs = guard("final_step", || yamaquasi::relations::final_step(&n, &fb, &cycles, Verbosity::Silent))?;
            for d in &divs {
                ensure!(
                    *d > U1024::ONE && *d < n && (n % *d).is_zero(),
                    "final_step|improper-divisor",
                    "final_step returned {} for n = {}",
                    d,
                    n
                );
            }
            if !divs.is_empty() {
                l.label("orders:final_step-found-divisors");
            }
        }
    }
    Ok(())
}

fn histories(ctx: &Ctx) -> Vec<History> {
    let mut out = vec![];
    let mut rng = SplitMix(crate::engine::hash64(&(ctx.seed, "c04-orders")));
    let count = ctx.pick(3u32, 12);
    let mut specs: Vec<(Algo, &str, u32, Option<bool>)> = vec![];
    for i in 0..count {
        specs.push((Algo::Qs, "qs", 60 + (rng.below(30) as u32), None));
        specs.push((Algo::Mpqs, "mpqs", 70 + (rng.below(40) as u32), if i % 2 == 0 { Some(true) } else { None }));
        specs.push((Algo::Siqs, "siqs", 80 + (rng.below(50) as u32), if i % 2 == 0 { Some(true) } else { None }));
        specs.push((Algo::Siqs, "siqs", 100 + (rng.below(30) as u32), None));
    }
    for (algo, name, bits, dbl) in specs {
        let a = bits / 2;
        let p = certified_prime(a, (rng.below(3)) as u32);
        let q = certified_prime(bits - a, (rng.below(3)) as u32);
        if p == q {
            continue;
        }
        let n = p * q;
        if let Ok(hs) = record(&n, algo, dbl, &format!("{}:{}:{:?}", name, n, dbl)) {
            for h in hs {
                if h.adds.len() >= 8 {
                    out.push(h);
                }
            }
        }
    }
    out
}

pub fn run(ctx: &Ctx, l: &mut Local) {
    let hs = histories(ctx);
    l.label_n("orders:recorded-histories", hs.len() as u64);
    l.label_n("orders:recorded-adds", hs.iter().map(|h| h.adds.len() as u64).sum());
    let per = ctx.n(40, 2000);
    for (hi, h) in hs.iter().enumerate() {
        // long histories are cut into windows so that a replay stays cheap; prefixes keep the
        // single-large-prime partials that later doubles attach to
        let cap = ctx.pick(1500usize, 6000);
        let adds: Vec<RelSer> = h.adds.iter().take(cap).cloned().collect();
        let len = adds.len();
        let strat = (0u8..7, any::<u16>(), any::<u16>(), any::<u16>(), proptest::collection::vec((any::<u16>(), any::<u16>()), 0..6)).prop_map({
            let adds = adds.clone();
            let h = h.clone();
            move |(kind, a, b, c, swaps)| {
                let (name, perm) = make_perm(len, kind, a, b, c, &swaps);
                OrderCase {
                    n_orig: h.n_orig,
                    n: h.n,
                    fbsize: h.fbsize,
                    maxlarge: h.maxlarge,
                    source: h.source.clone(),
                    adds: perm.iter().map(|&i| adds[i as usize].clone()).collect(),
                    perm,
                    kind: name,
                }
            }
        });
        ctx.run_prop("orders", hi as u64, per, &strat, l, check);
    }
    ctx.essential("orders:genuine-reordering", 50);
    ctx.essential("orders:with-double-large-prime-relations", 5);
    ctx.essential("orders:cycles-verified", 1000);
}

pub fn replay(_ctx: &Ctx, check_name: &str, case: &Value) -> Result<(), Fail> {
    match check_name {
        "orders" => replay_as::<OrderCase>(case, check),
        _ => Err(Fail::new("HARNESS|unknown-check", check_name.to_string())),
    }
}

// ---------------------------------------------------------------------------
// Diagnostic for thread-count dependence that is not a schedule matter.
//
// A sieve that hands out its polynomials through a thread pool sieves a different subset of them
// than the sequential loop.  For a few inputs (first seen: 30243404408989 = 30829 * 31321^2 on
// Algo::Siqs) the congruences a sieve can produce are arithmetically degenerate: hardly any
// combination x^2 = y^2 splits n, whichever polynomials are used, and the sequential run is
// complete by luck.  To tell this apart from a relation set damaged by a race (lost, duplicated
// or corrupted relations, a sieve stopped early), the failing threaded call is repeated with the
// `relation_added` observer installed and the recorded relations go through an independent final
// step: every congruence re-verified, duplicates removed, GF(2) elimination over base primes and
// large primes, each kernel vector evaluated.  "Degenerate" = all congruences valid, at least 20
// independent kernel vectors, at most one in ten of them splits n (a sound relation set splits n
// with about every second vector).

/// Independent final step over recorded relations: (distinct, all_valid, kernel_dim, splitting).
pub fn independent_final_step(n_orig: &U1024, modulus: &U1024, adds: &[RelSer]) -> (usize, bool, usize, usize) {
    use std::collections::{BTreeMap, HashSet};
    let nr: Ref = widen(n_orig);
    let mut seen = HashSet::new();
    let mut rels: Vec<&RelSer> = vec![];
    let mut all_valid = true;
    for r in adds {
        if !congruence_holds(modulus, &r.rel()) {
            all_valid = false;
        }
        if seen.insert(r.x) {
            rels.push(r);
        }
    }
    // columns: -1, base primes, large primes (a cofactor without a recorded pair is one column)
    let cols_of = |r: &RelSer| -> Vec<(i64, u64)> {
        let mut v = r.factors.clone();
        if r.cofactor != 1 {
            match r.pq {
                Some((p, q)) if p > 1 && q > 1 && (p as u128) * (q as u128) == r.cofactor as u128 => {
                    v.push((p as i64, 1));
                    v.push((q as i64, 1));
                }
                _ => v.push((r.cofactor as i64, 1)),
            }
        }
        v
    };
    let mut colidx: BTreeMap<i64, usize> = BTreeMap::new();
    for r in &rels {
        for (f, _) in cols_of(r) {
            let k = colidx.len();
            colidx.entry(f).or_insert(k);
        }
    }
    let ncols = colidx.len();
    let nrel = rels.len();
    let cw = ncols.div_ceil(64).max(1);
    let rw = nrel.div_ceil(64).max(1);
    // pivots[c] = (row bits, combination bits)
    let mut pivots: Vec<Option<(Vec<u64>, Vec<u64>)>> = vec![None; ncols];
    let mut kernel: Vec<Vec<u64>> = vec![];
    for (i, r) in rels.iter().enumerate() {
        let mut row = vec![0u64; cw];
        for (f, k) in cols_of(r) {
            if k % 2 == 1 {
                let c = colidx[&f];
                row[c / 64] ^= 1 << (c % 64);
            }
        }
        let mut comb = vec![0u64; rw];
        comb[i / 64] |= 1 << (i % 64);
        loop {
            let lead = row.iter().enumerate().rev().find(|(_, w)| **w != 0).map(|(j, w)| j * 64 + 63 - w.leading_zeros() as usize);
            let Some(c) = lead else {
                kernel.push(comb);
                break;
            };
            match &pivots[c] {
                Some((prow, pcomb)) => {
                    for (a, b) in row.iter_mut().zip(prow) {
                        *a ^= *b;
                    }
                    for (a, b) in comb.iter_mut().zip(pcomb) {
                        *a ^= *b;
                    }
                }
                None => {
                    pivots[c] = Some((row, comb));
                    break;
                }
            }
        }
    }
    let mut splitting = 0;
    for comb in kernel.iter().take(256) {
        let mut x = Ref::ONE;
        let mut exps: BTreeMap<i64, u64> = BTreeMap::new();
        for (i, r) in rels.iter().enumerate() {
            if comb[i / 64] >> (i % 64) & 1 == 1 {
                x = (x * (widen(&r.x) % nr)) % nr;
                for (f, k) in cols_of(r) {
                    *exps.entry(f).or_insert(0) += k;
                }
            }
        }
        let mut y = Ref::ONE;
        for (f, e) in exps {
            if f > 0 {
                y = (y * powmod(&(Ref::from(f as u64) % nr), &Ref::from(e / 2), &nr)) % nr;
            }
        }
        let d = if x >= y { x - y } else { x + nr - y };
        let g = crate::oracle::int::ref_gcd(&d, &nr);
        if g > Ref::ONE && g < nr {
            splitting += 1;
        }
    }
    (nrel, all_valid, kernel.len(), splitting)
}

/// Worker side of the diagnostic: run the call with the observer installed.
pub fn diagnose(n: &U1024, algo: Algo, prefs: &Preferences) -> Value {
    RECORDER.lock().unwrap().clear();
    yamaquasi::verif_sched::set_add_sink(Some(add_sink));
    let r = crate::engine::catch(|| yamaquasi::factor(*n, algo, prefs));
    yamaquasi::verif_sched::set_add_sink(None);
    let recs = std::mem::take(&mut *RECORDER.lock().unwrap());
    let outcome = match &r {
        Ok(Ok(fs)) => serde_json::json!({"r": "ok", "f": fs.iter().map(|f| f.to_string()).collect::<Vec<_>>()}),
        Ok(Err(_)) => serde_json::json!({"r": "err"}),
        Err(p) => serde_json::json!({"r": "panic", "msg": p.msg, "loc": p.short_loc()}),
    };
    // relation stores whose modulus is a multiple of n (the top-level sieve, not recursive calls on cofactors)
    let mut groups: Vec<(Uint, usize, u64, Vec<RelSer>)> = vec![];
    for rec in recs {
        match groups.iter_mut().find(|g| g.0 == rec.n && g.1 == rec.fbsize && g.2 == rec.maxlarge) {
            Some(g) => g.3.push(rec.r),
            None => groups.push((rec.n, rec.fbsize, rec.maxlarge, vec![rec.r])),
        }
    }
    let mut out = vec![];
    for (m, fbsize, _, adds) in &groups {
        if n.is_zero() || !(*m % *n).is_zero() || adds.len() > 6000 {
            continue;
        }
        let (distinct, valid, kdim, split) = independent_final_step(n, m, adds);
        out.push(serde_json::json!({"modulus": m.to_string(), "fbsize": fbsize, "adds": adds.len(), "distinct": distinct,
            "all_valid": valid, "kernel_dim": kdim, "splitting": split}));
    }
    serde_json::json!({"r": "diag", "outcome": outcome, "stores": out})
}
