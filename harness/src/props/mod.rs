//! One module per property.
use crate::engine::PropDef;

pub mod c13;
pub mod c20;
pub mod c17;
pub mod c08;
pub mod c06;
pub mod c10;
pub mod c12;
pub mod c19;
pub mod c14;
pub mod c15;
pub mod c16;
pub mod c11;
pub mod c18;
pub mod c01;
pub mod c02;
pub mod c03;
pub mod c04;
pub mod c04_orders;
pub mod c04_sched;
pub mod c05;
pub mod c07;
pub mod c07_m128;
pub mod c09;
pub mod factoring;

pub fn all() -> Vec<PropDef> {
    vec![c13::DEF, c20::DEF, c17::DEF, c08::DEF, c06::DEF, c10::DEF, c12::DEF, c19::DEF, c14::DEF, c15::DEF, c16::DEF, c11::DEF, c18::DEF, c01::DEF, c02::DEF, c03::DEF, c04::DEF, c05::DEF, c07::DEF, c09::DEF]
}

pub fn find(id: &str) -> Option<PropDef> {
    all().into_iter().find(|d| d.id == id)
}
