//! One module per property.
use crate::engine::PropDef;

pub mod c09;

pub fn all() -> Vec<PropDef> {
    vec![c09::DEF]
}

pub fn find(id: &str) -> Option<PropDef> {
    all().into_iter().find(|d| d.id == id)
}
