//! Shared machinery of the factoring properties C01..C05: cases with a factorisation known
//! by construction, preference specs, the worker-side job handler, result judges.

use std::sync::atomic::{AtomicU64, Ordering};
use std::sync::{Arc, Mutex};
use std::time::Instant;

use proptest::prelude::*;
use serde::{Deserialize, Serialize};
use serde_json::{json, Value};

use crate::engine::{catch, Fail};
use crate::oracle::int::{certified_prime, prime64, ref_factor64, ref_isprime64, widen, Ref, SplitMix, U1024};
use yamaquasi::{Algo, Preferences, Uint, Verbosity};

pub const ALGOS: [&str; 10] = ["auto", "rho", "squfof", "qs64", "pm1", "ecm", "ecm128", "qs", "mpqs", "siqs"];

pub fn parse_algo(s: &str) -> Option<Algo> {
    Some(match s {
        "auto" => Algo::Auto,
        "rho" => Algo::Rho,
        "squfof" => Algo::Squfof,
        "qs64" => Algo::Qs64,
        "pm1" => Algo::Pm1,
        "ecm" => Algo::Ecm,
        "ecm128" => Algo::Ecm128,
        "qs" => Algo::Qs,
        "mpqs" => Algo::Mpqs,
        "siqs" => Algo::Siqs,
        _ => return None,
    })
}

/// documented size precondition of a selector (bits of the input)
pub fn max_bits(algo: &str) -> u32 {
    match algo {
        "rho" | "squfof" | "qs64" => 64,
        _ => 512,
    }
}

#[derive(Clone, Debug, Default, Serialize, Deserialize, PartialEq, Eq, Hash)]
pub struct PrefSpec {
    pub threads: Option<usize>,
    pub fb_size: Option<u32>,
    pub interval_size: Option<u32>,
    pub large_factor: Option<u64>,
    pub use_double: Option<bool>,
    /// counter fault: `should_abort` returns true from its k-th poll (0-based) onward
    #[serde(default)]
    pub abort_after: Option<u64>,
    /// install a never-true abort predicate that counts polls (calibration)
    #[serde(default)]
    pub count_polls: bool,
    /// schedule perturbation through the yield hook: Some(seed) injects seeded yields / spins /
    /// sleeps at every relation-store lock acquisition and completion check; Some(0) only counts
    #[serde(default)]
    pub perturb: Option<u64>,
    /// verbosity level 1..3 (Info, Verbose, Debug) — the statement says "any preferences"; the progress and
    /// diagnostic code behind a raised verbosity computes rates, formats relation sets and cycle statistics
    /// and runs in every thread.  None = Silent.  (Worker processes have stderr closed.)
    #[serde(default, skip_serializing_if = "Option::is_none")]
    pub verbosity: Option<u8>,
}

impl PrefSpec {
    pub fn is_default(&self) -> bool {
        *self == PrefSpec::default()
    }
}

#[derive(Clone, Debug, Serialize, Deserialize)]
pub struct FCase {
    #[serde(with = "crate::ser::dec")]
    pub n: U1024,
    /// prime factorisation with multiplicity, sorted; empty when not known by construction
    #[serde(with = "crate::ser::dec_vec")]
    pub factors: Vec<U1024>,
    pub shape: String,
    pub algo: String,
    #[serde(default)]
    pub prefs: PrefSpec,
}

impl FCase {
    pub fn key(&self) -> u64 {
        crate::engine::hash64(&(self.n.digits(), &self.algo, &self.prefs))
    }
    pub fn job(&self) -> Value {
        json!({"kind": "single", "n": self.n.to_string(), "algo": self.algo, "prefs": self.prefs})
    }
}

// ---------------------------------------------------------------------------
// Worker side

fn build_prefs(p: &PrefSpec, polls: &Arc<AtomicU64>, first_true: &Arc<Mutex<Option<Instant>>>) -> Preferences {
    let mut prefs = Preferences::default();
    prefs.verbosity = match p.verbosity {
        None | Some(0) => Verbosity::Silent,
        Some(1) => Verbosity::Info,
        Some(2) => Verbosity::Verbose,
        Some(_) => Verbosity::Debug,
    };
    prefs.threads = p.threads;
    prefs.fb_size = p.fb_size;
    prefs.interval_size = p.interval_size;
    prefs.large_factor = p.large_factor;
    prefs.use_double = p.use_double;
    if p.abort_after.is_some() || p.count_polls {
        let k = p.abort_after.unwrap_or(u64::MAX);
        let polls = polls.clone();
        let ft = first_true.clone();
        prefs.should_abort = Some(Box::new(move || {
            let i = polls.fetch_add(1, Ordering::SeqCst);
            if i >= k {
                let mut g = ft.lock().unwrap();
                if g.is_none() {
                    *g = Some(Instant::now());
                }
                true
            } else {
                false
            }
        }));
    }
    prefs
}

// ---- schedule perturbation (yield hook) ----
static PSEED: AtomicU64 = AtomicU64::new(0);
static PCOUNT: AtomicU64 = AtomicU64::new(0);
static PSLEEPS: AtomicU64 = AtomicU64::new(0);
const NSITES: usize = 24;
#[allow(clippy::declare_interior_mutable_const)]
const AZ: AtomicU64 = AtomicU64::new(0);
static SITE_HITS: [AtomicU64; NSITES] = [AZ; NSITES];
static WRITER_THREADS: Mutex<Vec<std::thread::ThreadId>> = Mutex::new(Vec::new());

static PT0: std::sync::OnceLock<Instant> = std::sync::OnceLock::new();
static HOLD_UNTIL: AtomicU64 = AtomicU64::new(0);
static DECISIONS: AtomicU64 = AtomicU64::new(0);
static WAITERS: AtomicU64 = AtomicU64::new(0);
static AMBUSHES: AtomicU64 = AtomicU64::new(0);
thread_local! {
    static LAST_SITE: std::cell::Cell<u32> = const { std::cell::Cell::new(u32::MAX) };
}

fn perturb_hook(site: u32) {
    let c = PCOUNT.fetch_add(1, Ordering::Relaxed);
    if (site as usize) < NSITES {
        SITE_HITS[site as usize].fetch_add(1, Ordering::Relaxed);
    }
    // sites 6, 11, 12, 20 are the relation-store write locks
    if matches!(site, 6 | 11 | 12 | 20) {
        let id = std::thread::current().id();
        let mut g = WRITER_THREADS.lock().unwrap();
        if !g.contains(&id) {
            g.push(id);
        }
    }
    let seed = PSEED.load(Ordering::Relaxed);
    if seed == 0 {
        return;
    }
    let mut r = SplitMix(seed ^ c.wrapping_mul(0x9E3779B97F4A7C15) ^ ((site as u64) << 56));
    let h = r.next();
    // "Window" mode (seed bit 1): the completion bookkeeping of the sieves (count, target, gap, done) is only
    // consulted when a worker finishes a polynomial (status read: sites 3, 9, 18) or picks up the next work item
    // (closure start: sites 1, 7, 13, 16).  A state that is wrong only between one insertion and the next status
    // read is visible to a worker that sits at a closure start just then, which in an undisturbed run lasts
    // microseconds.  Here every worker is held for 0..3 ms at each of these sites (and nowhere else), so that
    // almost all of the run is spent inside such windows, at the price of a run about ten times slower.
    // "Ambush" mode (seed bit 3): the adversarial schedule for decisions taken on the shared completion state.
    // Up to two workers that pick up a further work item (closure start, not their first) wait there until some
    // other worker reaches a decision site (5, 10: the relation count reached the target and the gap is about
    // to be computed; 14, 15: ECM found a factor and is about to publish it).  That worker is then held for
    // 2 ms while the waiting workers are released and act at full speed on the state as it is at that instant.
    // A waiting worker gives up after 0.15 s (nothing decided meanwhile); nobody waits once SIQS published gap = 0 (site 22).
    // "Stale" mode (seed bits 2 and 3): nothing but the publications are delayed (site 21), each by 1..16 ms.
    if seed & 12 == 12 {
        if site == 21 && PSLEEPS.fetch_add(1, Ordering::Relaxed) < 300 {
            std::thread::sleep(std::time::Duration::from_micros(1000 + (h >> 8) % 15000));
        }
        return;
    }
    if seed & 8 != 0 {
        let prev = LAST_SITE.with(|c| c.replace(site));
        if matches!(site, 1 | 7 | 13) && prev != u32::MAX && prev != site {
            let gen = DECISIONS.load(Ordering::SeqCst);
            if WAITERS.fetch_add(1, Ordering::SeqCst) < 2 {
                let mut spins = 0;
                while DECISIONS.load(Ordering::SeqCst) == gen && spins < 1500 {
                    std::thread::sleep(std::time::Duration::from_micros(100));
                    spins += 1;
                }
                if spins >= 1500 {
                    // stop ambushing in this run: do not pay the wait again
                    WAITERS.store(1 << 20, Ordering::SeqCst);
                } else {
                    AMBUSHES.fetch_add(1, Ordering::SeqCst);
                    WAITERS.fetch_sub(1, Ordering::SeqCst);
                }
            } else {
                WAITERS.fetch_sub(1, Ordering::SeqCst);
            }
        } else if site == 22 {
            DECISIONS.fetch_add(1, Ordering::SeqCst);
            WAITERS.store(1 << 20, Ordering::SeqCst);
        } else if site == 21 {
            // half of the gap publications are delayed by 8 ms (stale by the time they are stored)
            if h & 1 == 0 && PSLEEPS.fetch_add(1, Ordering::Relaxed) < 200 {
                std::thread::sleep(std::time::Duration::from_millis(8));
            }
        } else if matches!(site, 5 | 10 | 14 | 15) {
            let w = WAITERS.load(Ordering::SeqCst);
            DECISIONS.fetch_add(1, Ordering::SeqCst);
            if w > 0 && w < (1 << 19) && PSLEEPS.fetch_add(1, Ordering::Relaxed) < 200 {
                std::thread::sleep(std::time::Duration::from_millis(2));
            }
        }
        return;
    }
    // "Freeze" mode (seed bit 2): a worker that picks up a further work item (closure start, not its first) is
    // held for about 2 ms, and for that time plus a margin no other worker may pass a status read: they finish
    // the polynomial they are sieving (insertions included) and then wait.  The held worker thus acts on
    // bookkeeping that is several polynomials stale, the widest staleness the code allows by construction.
    if seed & 4 != 0 {
        let start = matches!(site, 1 | 7 | 13 | 16);
        let prev = LAST_SITE.with(|c| c.replace(site));
        let now = PT0.get_or_init(Instant::now).elapsed().as_micros() as u64;
        if start && prev != u32::MAX && prev != site && PSLEEPS.fetch_add(1, Ordering::Relaxed) < 400 {
            let d = 500 + (h >> 8) % 2500;
            HOLD_UNTIL.fetch_max(now + d + 300, Ordering::SeqCst);
            std::thread::sleep(std::time::Duration::from_micros(d));
        } else if matches!(site, 3 | 9 | 18) {
            let mut spins = 0;
            while (PT0.get().unwrap().elapsed().as_micros() as u64) < HOLD_UNTIL.load(Ordering::SeqCst) && spins < 100_000 {
                std::thread::sleep(std::time::Duration::from_micros(50));
                spins += 1;
            }
        }
        return;
    }
    // A worker whose previous work item returned without reaching any other yield point is not held again at
    // the closure start: a worker that skips items does so at full speed, as it would undisturbed.
    if seed & 2 != 0 {
        let start = matches!(site, 1 | 7 | 13 | 16);
        let skipping = LAST_SITE.with(|c| c.replace(site)) == site && start;
        if (start || matches!(site, 3 | 9 | 18)) && !skipping && PSLEEPS.fetch_add(1, Ordering::Relaxed) < 6000 {
            let us = (h >> 8) % 3000;
            std::thread::sleep(std::time::Duration::from_micros(us));
        }
        return;
    }
    // Site 21 (SIQS) sits between the computation of the gap and its publication: a worker held there publishes
    // a value that is stale by the time it is stored.
    // Sites 5 (SIQS) and 10 (MPQS) sit between "the relation count reached the target" and "the gap was
    // computed and the target raised / done set": they are visited a handful of times per run, exactly when
    // the completion bookkeeping shared by the workers is in flux.  Holding a worker there for several
    // milliseconds (half of the visits) lets every other worker run through that window.
    if matches!(site, 5 | 10 | 21) && h & 1 == 0 && PSLEEPS.fetch_add(1, Ordering::Relaxed) < 400 {
        std::thread::sleep(std::time::Duration::from_millis(4 + (h >> 8) % 16));
        return;
    }
    // PCT-flavoured: most points pass untouched, a few yield, fewer spin, rare sleeps
    match h % 64 {
        0..=51 => {}
        52..=58 => std::thread::yield_now(),
        59..=62 => {
            // spin 1..200 microseconds
            let us = 1 + (h >> 8) % 200;
            let t0 = Instant::now();
            while t0.elapsed().as_micros() < us as u128 {
                std::hint::spin_loop();
            }
        }
        _ => {
            // occasional 1 ms sleep (bounded in number so that runs stay short)
            if PSLEEPS.fetch_add(1, Ordering::Relaxed) < 200 {
                std::thread::sleep(std::time::Duration::from_millis(1));
            } else {
                std::thread::yield_now();
            }
        }
    }
}

fn perturb_install(seed: Option<u64>) {
    PCOUNT.store(0, Ordering::SeqCst);
    PSLEEPS.store(0, Ordering::SeqCst);
    WAITERS.store(0, Ordering::SeqCst);
    AMBUSHES.store(0, Ordering::SeqCst);
    for s in SITE_HITS.iter() {
        s.store(0, Ordering::SeqCst);
    }
    WRITER_THREADS.lock().unwrap().clear();
    match seed {
        Some(s) => {
            PSEED.store(s, Ordering::SeqCst);
            yamaquasi::verif_sched::set_yield_fn(Some(perturb_hook));
        }
        None => yamaquasi::verif_sched::set_yield_fn(None),
    }
}

/// Run one factorisation in this process; panics are caught.
pub fn run_factor(n: &U1024, algo: &str, p: &PrefSpec) -> Value {
    perturb_install(p.perturb);
    let mut v = run_factor_inner(n, algo, p);
    if p.perturb.is_some() {
        yamaquasi::verif_sched::set_yield_fn(None);
        let hits: Vec<u64> = SITE_HITS.iter().map(|s| s.load(Ordering::SeqCst)).collect();
        v["yield_points"] = json!(PCOUNT.load(Ordering::SeqCst));
        v["site_hits"] = json!(hits);
        v["writer_threads"] = json!(WRITER_THREADS.lock().unwrap().len());
        v["ambushes"] = json!(AMBUSHES.load(Ordering::SeqCst));
    }
    v
}

fn run_factor_inner(n: &U1024, algo: &str, p: &PrefSpec) -> Value {
    let Some(alg) = parse_algo(algo) else {
        return json!({"r": "bad-job", "msg": "algo"});
    };
    let polls = Arc::new(AtomicU64::new(0));
    let first_true = Arc::new(Mutex::new(None));
    let prefs = build_prefs(p, &polls, &first_true);
    let n: Uint = *n;
    let t0 = Instant::now();
    let r = catch(|| yamaquasi::factor(n, alg, &prefs));
    let done = Instant::now();
    let ms = (done - t0).as_secs_f64() * 1e3;
    let lat = first_true.lock().unwrap().map(|t| (done - t).as_secs_f64() * 1e3);
    let polls = polls.load(Ordering::SeqCst);
    match r {
        Ok(Ok(fs)) => json!({"r": "ok", "f": fs.iter().map(|f| f.to_string()).collect::<Vec<_>>(), "polls": polls, "ms": ms, "lat_ms": lat}),
        Ok(Err(_)) => json!({"r": "err", "polls": polls, "ms": ms, "lat_ms": lat}),
        Err(pi) => json!({"r": "panic", "msg": crate::engine::truncate(&pi.msg, 300), "loc": pi.short_loc(), "msg_class": pi.msg_class(), "polls": polls, "ms": ms, "lat_ms": lat}),
    }
}

/// Worker job handler.
pub fn handle_job(job: &Value) -> Value {
    match job["kind"].as_str() {
        Some("single") => {
            let Some(n) = job["n"].as_str().and_then(crate::ser::from_dec::<16>) else {
                return json!({"r": "bad-job", "msg": "n"});
            };
            let prefs: PrefSpec = serde_json::from_value(job["prefs"].clone()).unwrap_or_default();
            run_factor(&n, job["algo"].as_str().unwrap_or(""), &prefs)
        }
        Some("diagnose") => {
            let Some(n) = job["n"].as_str().and_then(crate::ser::from_dec::<16>) else {
                return json!({"r": "bad-job", "msg": "n"});
            };
            let spec: PrefSpec = serde_json::from_value(job["prefs"].clone()).unwrap_or_default();
            let Some(algo) = parse_algo(job["algo"].as_str().unwrap_or("")) else {
                return json!({"r": "bad-job", "msg": "algo"});
            };
            let polls = Arc::new(AtomicU64::new(0));
            let first_true = Arc::new(Mutex::new(None));
            let prefs = build_prefs(&spec, &polls, &first_true);
            crate::props::c04_orders::diagnose(&n, algo, &prefs)
        }
        Some("range") => {
            // exhaustive sweep of small n, judged in the worker with the reference factorisation
            let lo = job["lo"].as_u64().unwrap_or(0);
            let hi = job["hi"].as_u64().unwrap_or(0);
            let step = job["step"].as_u64().unwrap_or(1).max(1);
            let algo = job["algo"].as_str().unwrap_or("");
            let mode = job["mode"].as_str().unwrap_or("c01");
            let prefs = PrefSpec::default();
            let mut evals = 0u64;
            let mut nontrivial = 0u64;
            let mut complete = 0u64;
            let mut errs = 0u64;
            let mut panics = 0u64;
            let mut fails = vec![];
            let mut n = lo;
            while n < hi {
                let nn = U1024::from(n);
                let truth: Vec<U1024> = ref_factor64(n).into_iter().map(U1024::from).collect();
                let res = run_factor(&nn, algo, &prefs);
                evals += 1;
                // a real algorithm ran iff n has >= 2 prime factors that survive trial division by primes < 200
                let big: Vec<&U1024> = truth.iter().filter(|p| **p > U1024::from(199u64)).collect();
                if big.len() >= 2 {
                    nontrivial += 1;
                }
                let c = FCase { n: nn, factors: truth, shape: "exhaustive".into(), algo: algo.to_string(), prefs: prefs.clone() };
                let out = Outcome::from_resp(&res);
                match &out {
                    Outcome::Ok(fs) => {
                        if *fs == c.factors {
                            complete += 1;
                        }
                    }
                    Outcome::Err => errs += 1,
                    Outcome::Panic { .. } => panics += 1,
                    _ => {}
                }
                let verdict = match mode {
                    "c01" => judge_c01(&c, &out),
                    "c02" => judge_c02(&c, &out),
                    _ => judge_c03(&c, &out, "?"),
                };
                if let Err(f) = verdict {
                    if fails.len() < 50 {
                        fails.push(json!({"n": n.to_string(), "class": f.class, "detail": f.detail, "what": f.what}));
                    }
                }
                n += step;
            }
            json!({"r": "range", "evals": evals, "nontrivial": nontrivial, "complete": complete, "errs": errs, "panics": panics, "fails": fails})
        }
        _ => json!({"r": "bad-job", "msg": "kind"}),
    }
}

// ---------------------------------------------------------------------------
// Outcomes and judges

#[derive(Clone, Debug)]
pub enum Outcome {
    Ok(Vec<U1024>),
    Err,
    Panic { msg: String, loc: String, msg_class: String },
    Died(String),
    Timeout,
    Bad(String),
}

impl Outcome {
    pub fn from_resp(v: &Value) -> Outcome {
        match v["r"].as_str() {
            Some("ok") => {
                let mut fs = vec![];
                for f in v["f"].as_array().cloned().unwrap_or_default() {
                    match f.as_str().and_then(crate::ser::from_dec::<16>) {
                        Some(x) => fs.push(x),
                        None => return Outcome::Bad("unparsable factor".into()),
                    }
                }
                Outcome::Ok(fs)
            }
            Some("err") => Outcome::Err,
            Some("panic") => Outcome::Panic {
                msg: v["msg"].as_str().unwrap_or("").to_string(),
                loc: v["loc"].as_str().unwrap_or("?").to_string(),
                msg_class: v["msg_class"].as_str().unwrap_or("").to_string(),
            },
            other => Outcome::Bad(format!("{:?}", other)),
        }
    }
    pub fn from_job(r: &crate::worker::JobResult) -> Outcome {
        match r {
            crate::worker::JobResult::Resp(v) => Outcome::from_resp(v),
            crate::worker::JobResult::Died(s) => Outcome::Died(s.clone()),
            crate::worker::JobResult::Timeout => Outcome::Timeout,
        }
    }
    pub fn tag(&self) -> &'static str {
        match self {
            Outcome::Ok(_) => "ok",
            Outcome::Err => "err",
            Outcome::Panic { .. } => "panic",
            Outcome::Died(_) => "died",
            Outcome::Timeout => "timeout",
            Outcome::Bad(_) => "bad",
        }
    }
}

/// The C01 predicate on a returned list (also used by C04/C05): product, order, no 0/1, divisors.
pub fn product_predicate(n: &U1024, fs: &[U1024], entry: &str) -> Result<(), Fail> {
    let nr: Ref = widen(n);
    if n.is_zero() {
        ensure!(fs.len() == 1 && fs[0].is_zero(), format!("{}|zero-not-[0]", entry), "factor(0) returned {:?}", fs);
        return Ok(());
    }
    if n.is_one() {
        ensure!(fs.is_empty(), format!("{}|one-not-empty", entry), "factor(1) returned {:?}", fs);
        return Ok(());
    }
    let mut prod = Ref::ONE;
    for f in fs {
        ensure!(
            *f >= U1024::from(2u64),
            format!("{}|factor-0-or-1", entry),
            "factor({}) returned the element {}",
            n,
            f
        );
        let fr: Ref = widen(f);
        ensure!(
            (nr % fr).is_zero(),
            format!("{}|non-divisor", entry),
            "factor({}) returned {} which does not divide n",
            n,
            f
        );
        // 4096-bit product of values <= n <= 2^1024: cannot wrap before exceeding n detectably
        prod = prod * fr;
        ensure!(
            prod <= nr,
            format!("{}|product-too-large", entry),
            "factor({}) returned {:?}: partial product exceeds n",
            n,
            fs
        );
    }
    ensure!(prod == nr, format!("{}|wrong-product", entry), "factor({}) returned {:?} with product {}", n, fs, prod);
    ensure!(
        fs.windows(2).all(|w| w[0] <= w[1]),
        format!("{}|not-sorted", entry),
        "factor({}) returned an unsorted list {:?}",
        n,
        fs
    );
    Ok(())
}

pub fn judge_c01(c: &FCase, o: &Outcome) -> Result<(), Fail> {
    let entry = format!("factor[{}]", c.algo);
    match o {
        Outcome::Ok(fs) => product_predicate(&c.n, fs, &entry),
        // the library's own product assertion firing is a C01 violation by definition
        Outcome::Panic { loc, msg, .. } if loc.starts_with("src/lib.rs") && msg.contains("left") && msg.contains("right") => Err(Fail::new(
            format!("{}|check_factors-assert@{}", entry, loc),
            format!("factor({}) tripped its own product check: {}", c.n, msg),
        )),
        _ => Ok(()),
    }
}

pub fn judge_c02(c: &FCase, o: &Outcome) -> Result<(), Fail> {
    let entry = format!("factor[{}]", c.algo);
    match o {
        Outcome::Ok(fs) => {
            product_predicate(&c.n, fs, &entry)?;
            if c.n <= U1024::ONE || c.factors.is_empty() {
                return Ok(()); // 0 and 1 are settled by the product predicate; otherwise no ground truth
            }
            ensure!(
                *fs == c.factors,
                format!("{}|incomplete", entry),
                "factor({}) = {:?} but the prime factorisation is {:?} (shape {})",
                c.n,
                fs,
                c.factors,
                c.shape
            );
            Ok(())
        }
        Outcome::Err => Err(Fail::new(
            format!("{}|failure", entry),
            format!("factor({}) = Err(FactoringFailure); prime factorisation {:?} (shape {})", c.n, c.factors, c.shape),
        )),
        _ => Ok(()),
    }
}

pub fn judge_c03(c: &FCase, o: &Outcome, profile: &str) -> Result<(), Fail> {
    let entry = format!("factor[{}]", c.algo);
    match o {
        Outcome::Ok(_) | Outcome::Err => {
            if c.n.bits() > 512 {
                if let Outcome::Ok(_) = o {
                    return Err(Fail::new(
                        format!("{}|oversize-accepted", entry),
                        format!("factor accepted a {}-bit input instead of refusing it", c.n.bits()),
                    ));
                }
            }
            Ok(())
        }
        Outcome::Panic { msg, loc, .. } => {
            // The sieves' explicit give-up `panic!("Internal error: not enough smooth numbers ...")` is keyed by
            // file and message (not by line), and by whether the caller forced the double-large-prime variation:
            // forcing it on inputs far below the size it is meant for starves SIQS of polynomials (known finding),
            // the same panic under the default preferences is not covered by that entry.
            let site = if msg.starts_with("Internal error: not enough smooth numbers") {
                format!("{}|internal-error-not-enough-smooth-numbers", loc.split(':').next().unwrap_or(loc))
            } else {
                loc.clone()
            };
            let forced = if c.prefs.use_double == Some(true) { "|use_double=true" } else { "" };
            Err(Fail::new(
                format!("{}|panic@{}{}", entry, site, forced),
                format!("factor({}, {}, use_double={:?}) panicked at {} [{}]: {}", c.n, c.algo, c.prefs.use_double, loc, profile, msg),
            ))
        }
        Outcome::Died(s) => Err(Fail::new(
            format!("{}|process-died", entry),
            format!("factor({}, {}) killed the process [{}]: {}", c.n, c.algo, profile, s),
        )),
        Outcome::Timeout | Outcome::Bad(_) => Ok(()), // inconclusive, handled by the caller
    }
}

// ---------------------------------------------------------------------------
// Composite generator (DESIGN.md 1.3): every composite carries its prime factorisation.

/// A prime of exactly `bits` bits: <= 64 bits from the seed, above from the certified pool.
pub fn gen_prime(bits: u32, seed: u64) -> U1024 {
    if bits <= 64 {
        U1024::from(prime64(bits.max(2), &mut SplitMix(seed)))
    } else {
        certified_prime(bits, (seed % 3) as u32)
    }
}

fn next_prime64(mut p: u64) -> u64 {
    loop {
        p += 1;
        if ref_isprime64(p) {
            return p;
        }
    }
}

pub fn mk_case(shape: &str, mut primes: Vec<U1024>, algo: &str, prefs: PrefSpec) -> FCase {
    primes.sort();
    let mut n = U1024::ONE;
    for p in &primes {
        n = n * *p;
    }
    FCase { n, factors: primes, shape: shape.to_string(), algo: algo.to_string(), prefs }
}

/// Build the prime list of a composite of about `bits` bits of the given shape.
/// `minp`: smallest prime factor size in bits (>= 8 means: survives trial division when >= 211).
pub fn shape_primes(shape: u8, bits: u32, seed: u64) -> (&'static str, Vec<U1024>) {
    let mut r = SplitMix(seed);
    let bits = bits.max(16);
    match shape % 14 {
        0 => ("prime", vec![gen_prime(bits, r.next())]),
        1 | 2 => {
            let a = bits / 2;
            ("semiprime-balanced", vec![gen_prime(a, r.next()), gen_prime(bits - a, r.next())])
        }
        3 => {
            let a = (9 + r.below((bits / 3) as u64) as u32).min(bits - 8);
            ("semiprime-unbalanced", vec![gen_prime(a, r.next()), gen_prime(bits - a, r.next())])
        }
        4 => {
            // prime power p^k
            let k = 2 + r.below(((bits / 9).min(39)) as u64) as u32;
            let pb = (bits / k).max(8);
            let p = gen_prime(pb, r.next());
            ("prime-power", vec![p; k as usize])
        }
        5 => {
            // (pq)^2
            let a = (bits / 4).max(8);
            let (p, q) = (gen_prime(a, r.next()), gen_prime(a + 1, r.next()));
            ("square-of-composite", vec![p, p, q, q])
        }
        6 => {
            // p^2 q
            let a = (bits / 3).max(8);
            let (p, q) = (gen_prime(a, r.next()), gen_prime(bits.saturating_sub(2 * a).max(8), r.next()));
            ("p2q", vec![p, p, q])
        }
        7 => {
            // many primes
            let k = 3 + r.below(10) as u32;
            let pb = (bits / k).max(8);
            ("many-primes", (0..k).map(|_| gen_prime(pb + r.below(3) as u32, r.next())).collect())
        }
        8 => {
            // two close primes (consecutive primes), <= 64 bits each
            let a = (bits / 2).clamp(8, 63);
            let p = prime64(a, &mut r);
            let q = next_prime64(p);
            ("close-primes", vec![U1024::from(p), U1024::from(q)])
        }
        9 => {
            // p * (2p - 1), the classical strong-pseudoprime shape
            let a = (bits / 2).clamp(8, 62);
            loop {
                let p = prime64(a, &mut r);
                if ref_isprime64(2 * p - 1) {
                    return ("p(2p-1)", vec![U1024::from(p), U1024::from(2 * p - 1)]);
                }
            }
        }
        10 => {
            // Carmichael (6k+1)(12k+1)(18k+1)
            let kb = (bits / 3).clamp(6, 58).saturating_sub(4);
            loop {
                let k = (r.next() >> (64 - kb.max(2))) | 1;
                let (a, b, c) = (6 * k + 1, 12 * k + 1, 18 * k + 1);
                if ref_isprime64(a) && ref_isprime64(b) && ref_isprime64(c) {
                    return ("carmichael", vec![U1024::from(a), U1024::from(b), U1024::from(c)]);
                }
            }
        }
        11 => {
            // a factor inside the factor base range (211..5000) times a large prime (and sometimes squared)
            let small = loop {
                let c = 211 + r.below(4800);
                if ref_isprime64(c) {
                    break c;
                }
            };
            let rest = gen_prime(bits.saturating_sub(12).max(10), r.next());
            if r.below(3) == 0 {
                ("fb-factor-squared", vec![U1024::from(small), U1024::from(small), rest])
            } else {
                ("fb-factor", vec![U1024::from(small), rest])
            }
        }
        12 => {
            // three primes of different sizes
            let a = (bits / 5).max(8);
            let b = (bits / 3).max(8);
            ("three-primes", vec![gen_prime(a, r.next()), gen_prime(b, r.next()), gen_prime(bits.saturating_sub(a + b).max(8), r.next())])
        }
        _ => {
            // tiny factors (removed by trial division) times a semiprime
            let a = (bits.saturating_sub(20) / 2).max(8);
            let mut v = vec![gen_prime(a, r.next()), gen_prime(a + 1, r.next())];
            for p in [2u64, 3, 3, 7, 199] {
                if r.below(2) == 0 {
                    v.push(U1024::from(p));
                }
            }
            ("tiny-times-semiprime", v)
        }
    }
}

/// Size budget (bits) per selector and tier so that a case finishes in well under a second
/// (measured on this machine, release profile; see DESIGN.md C01).
pub fn bits_budget(algo: &str, quick: bool) -> (u32, u32) {
    match (algo, quick) {
        ("rho", _) | ("squfof", _) | ("qs64", _) => (18, 64),
        ("ecm128", true) => (18, 90),
        ("ecm128", false) => (18, 110),
        ("qs", true) => (30, 100),
        ("qs", false) => (30, 120),
        ("mpqs", true) => (30, 120),
        ("mpqs", false) => (30, 140),
        ("siqs", true) => (30, 140),
        ("siqs", false) => (30, 190),
        ("pm1", true) | ("ecm", true) => (18, 110),
        ("pm1", false) | ("ecm", false) => (18, 150),
        ("auto", true) => (18, 150),
        ("auto", false) => (18, 200),
        _ => (18, 64),
    }
}

/// Selectors whose run time is governed by the smallest prime factor (they grind on
/// balanced semiprimes): cap on the size of the second-largest prime factor.
pub fn second_factor_cap(algo: &str, quick: bool) -> Option<u32> {
    match algo {
        "pm1" => Some(200), // pm1_only gives up quickly
        "ecm" => Some(if quick { 36 } else { 44 }),
        "ecm128" => Some(if quick { 40 } else { 48 }),
        _ => None,
    }
}

pub fn prefs_strategy() -> impl Strategy<Value = PrefSpec> {
    (
        prop_oneof![4 => Just(None), 1 => Just(Some(1usize)), 2 => Just(Some(2usize)), 1 => Just(Some(4usize))],
        prop_oneof![4 => Just(None), 1 => (50u32..300).prop_map(Some)],
        prop_oneof![4 => Just(None), 1 => prop_oneof![Just(1u32), Just(2), Just(3), Just(8)].prop_map(|k| Some(k * 32768))],
        prop_oneof![4 => Just(None), 1 => prop_oneof![Just(1u64), Just(2), Just(5), Just(20), Just(100)].prop_map(Some)],
        prop_oneof![3 => Just(None), 1 => Just(Some(true)), 1 => Just(Some(false))],
        prop_oneof![6 => Just(None), 1 => Just(Some(1u8)), 1 => Just(Some(2u8)), 1 => Just(Some(3u8))],
    )
        .prop_map(|(threads, fbp, interval_size, large_factor, use_double, verbosity)| PrefSpec {
            threads,
            // fb_size is given as a percentage of the default here; resolved in `resolve_fb`
            fb_size: fbp,
            interval_size,
            large_factor,
            use_double,
            abort_after: None,
            count_polls: false,
            perturb: None,
            verbosity,
        })
}

/// `fb_size` generated as a percentage [50,300) of the default factor-base size for the
/// input size (>= 16): resolve it with the public parameter function.
pub fn resolve_fb(mut p: PrefSpec, n: &U1024) -> PrefSpec {
    if let Some(pct) = p.fb_size {
        let def = yamaquasi::params::factor_base_size(&Uint::from(*n)).max(8) as u64;
        // shrinking the base is only meaningful when it is large: a 16-prime base makes the classical sieve
        // of a 40-bit input run forever (observed: Algo::Qs, n = 4800803772911, fb_size = 16)
        let pct = if def < 100 { pct.max(100) } else { pct.max(80) } as u64;
        p.fb_size = Some(((def * pct / 100).max(16)) as u32);
    }
    p
}

/// Generated factoring case for a given selector: shape x size within the budget.
pub fn case_strategy(algo: &'static str, quick: bool, with_prefs: bool) -> impl Strategy<Value = FCase> {
    let (lo, hi) = bits_budget(algo, quick);
    (0u8..14, lo..=hi, any::<u64>(), prefs_strategy()).prop_map(move |(shape, bits, seed, prefs)| {
        let mut bits = bits;
        let (name, mut primes) = shape_primes(shape, bits, seed);
        // respect the selector's size precondition and the time budget
        let mb = max_bits(algo).min(hi);
        loop {
            let mut n = U1024::ONE;
            for p in &primes {
                n = n * *p;
            }
            let mut sorted = primes.clone();
            sorted.sort();
            let second = if sorted.len() >= 2 { sorted[sorted.len() - 2].bits() } else { 0 };
            let too_hard = second_factor_cap(algo, quick).map(|c| second > c).unwrap_or(false);
            if n.bits() <= mb && !too_hard {
                break;
            }
            bits = bits * 4 / 5;
            if bits < 16 {
                primes = vec![U1024::from(211u64), U1024::from(223u64)];
                break;
            }
            primes = shape_primes(shape, bits, seed).1;
        }
        let mut c = mk_case(name, primes, algo, PrefSpec::default());
        if with_prefs {
            c.prefs = resolve_fb(prefs, &c.n);
        }
        c
    })
}

// ---------------------------------------------------------------------------
// Parent side: batches through worker processes

use crate::engine::{Ctx, Local};
use crate::worker::{run_jobs, JobResult};

pub fn is_nontrivial(c: &FCase) -> bool {
    if c.factors.is_empty() {
        // factorisation unknown: count it when it cannot be resolved by trial division alone
        return c.n.bits() > 16;
    }
    c.factors.iter().filter(|p| **p > U1024::from(199u64)).count() >= 2
}

pub fn workers() -> usize {
    std::env::var("YQV_WORKERS").ok().and_then(|s| s.parse().ok()).unwrap_or(16)
}

/// C01 judges returned lists only: a run that hits the watchdog returned nothing (termination under the default
/// preferences is C03's clause, and overrides such as a 16-prime factor base can starve the classical sieve forever).
/// Its check name carries a marker so that watchdog hits are counted, not reported as inconclusive.
fn timeouts_are_inconclusive(check: &str) -> bool {
    !check.starts_with("lists@")
}

/// Evaluate `cases` on worker processes of `profile`, judge each outcome, record failures.
/// `check` is the replay check name (it encodes the profile: "factor@opt").
/// Returns the outcomes in case order.
pub fn run_batch(
    ctx: &Ctx,
    check: &str,
    profile: &str,
    cases: &[FCase],
    timeout_s: f64,
    judge: &(dyn Fn(&FCase, &Outcome) -> Result<(), Fail> + Sync),
    l: &mut Local,
) -> Vec<Outcome> {
    let jobs: Vec<Value> = cases.iter().map(|c| c.job()).collect();
    let res = match run_jobs(profile, &jobs, workers(), &|_| timeout_s) {
        Ok(r) => r,
        Err(e) => {
            ctx.selfcheck_failed(&e);
            return vec![];
        }
    };
    let mut outs = Vec::with_capacity(res.len());
    let mut timeouts = vec![];
    for (c, r) in cases.iter().zip(res.iter()) {
        let o = Outcome::from_job(r);
        l.case();
        l.label(&format!("algo:{}", c.algo));
        l.label(&format!("shape:{}", c.shape));
        l.label(&format!("outcome:{}:{}", profile, o.tag()));
        if !c.prefs.is_default() {
            l.label("prefs:non-default");
        }
        if c.prefs.threads.unwrap_or(1) > 1 {
            l.label("prefs:threads>1");
        }
        if c.prefs.verbosity.unwrap_or(0) > 0 {
            l.label("prefs:verbose");
        }
        if is_nontrivial(c) {
            l.nontrivial(crate::engine::hash64(&(profile, c.key())));
            l.sample(&format!("{}:{}", c.algo, c.shape), || serde_json::to_value(c).unwrap());
        }
        match &o {
            Outcome::Timeout => timeouts.push(format!("{} {}", c.algo, c.n)),
            Outcome::Bad(s) => ctx.selfcheck_failed(&format!("bad worker answer for {} {}: {}", c.algo, c.n, s)),
            _ => {}
        }
        if let Err(f) = judge(c, &o) {
            // simplify: same input with default preferences
            let mut rep = c.clone();
            let mut fail = f;
            if !c.prefs.is_default() {
                let mut d = c.clone();
                d.prefs = PrefSpec::default();
                if let Ok(r2) = run_jobs(profile, &[d.job()], 1, &|_| timeout_s) {
                    let o2 = Outcome::from_job(&r2[0]);
                    if let Err(f2) = judge(&d, &o2) {
                        if f2.class == fail.class {
                            rep = d;
                            fail = f2;
                        }
                    }
                }
            }
            ctx.violation(check, &fail, serde_json::to_value(&rep).unwrap());
        }
        outs.push(o);
    }
    if !timeouts.is_empty() && !timeouts_are_inconclusive(check) {
        l.label_n("watchdog-hit(not judged by this property)", timeouts.len() as u64);
    } else if !timeouts.is_empty() {
        ctx.inconclusive(&format!(
            "{} case(s) hit the {} s watchdog under profile {} (first: {})",
            timeouts.len(),
            timeout_s,
            profile,
            timeouts[0]
        ));
    }
    outs
}

/// Exhaustive sweep lo..hi (step) for one selector, judged inside the workers.
pub fn run_ranges(ctx: &Ctx, check: &str, profile: &str, algo: &str, lo: u64, hi: u64, step: u64, mode: &str, l: &mut Local) {
    let chunk = 4096 * step;
    let mut jobs = vec![];
    let mut a = lo;
    while a < hi {
        let b = (a + chunk).min(hi);
        jobs.push(json!({"kind": "range", "lo": a, "hi": b, "step": step, "algo": algo, "mode": mode}));
        a = b;
    }
    let res = match run_jobs(profile, &jobs, workers(), &|_| 600.0) {
        Ok(r) => r,
        Err(e) => {
            ctx.selfcheck_failed(&e);
            return;
        }
    };
    for (j, r) in jobs.iter().zip(res.iter()) {
        match r {
            JobResult::Resp(v) if v["r"] == "range" => {
                l.cases(v["evals"].as_u64().unwrap_or(0));
                // distinct by construction: (profile, selector, n) is visited once
                l.nontrivial_bulk(v["nontrivial"].as_u64().unwrap_or(0));
                l.label_n(&format!("exhaustive:{}:{}", profile, algo), v["evals"].as_u64().unwrap_or(0));
                l.label_n(&format!("exhaustive-complete:{}", algo), v["complete"].as_u64().unwrap_or(0));
                l.label_n(&format!("exhaustive-err:{}", algo), v["errs"].as_u64().unwrap_or(0));
                l.label_n(&format!("exhaustive-panic:{}:{}", profile, algo), v["panics"].as_u64().unwrap_or(0));
                for f in v["fails"].as_array().cloned().unwrap_or_default() {
                    let n = f["n"].as_str().and_then(crate::ser::from_dec::<16>).unwrap_or(U1024::ZERO);
                    let truth: Vec<U1024> = ref_factor64(n.digits()[0]).into_iter().map(U1024::from).collect();
                    let c = FCase { n, factors: truth, shape: "exhaustive".into(), algo: algo.to_string(), prefs: PrefSpec::default() };
                    let fail = Fail::new(f["class"].as_str().unwrap_or("?"), f["what"].as_str().unwrap_or("?")).with_detail(f["detail"].as_str().unwrap_or(""));
                    ctx.violation(check, &fail, serde_json::to_value(&c).unwrap());
                }
            }
            _ => {
                // the worker died or hung inside this range: redo it one by one to find the culprit
                let (a, b) = (j["lo"].as_u64().unwrap(), j["hi"].as_u64().unwrap());
                let cases: Vec<FCase> = (a..b)
                    .step_by(step as usize)
                    .map(|n| FCase {
                        n: U1024::from(n),
                        factors: ref_factor64(n).into_iter().map(U1024::from).collect(),
                        shape: "exhaustive".into(),
                        algo: algo.to_string(),
                        prefs: PrefSpec::default(),
                    })
                    .collect();
                let prof = profile.to_string();
                let mode = mode.to_string();
                run_batch(
                    ctx,
                    check,
                    profile,
                    &cases,
                    120.0,
                    &move |c, o| match mode.as_str() {
                        "c01" => judge_c01(c, o),
                        "c02" => judge_c02(c, o),
                        _ => judge_c03(c, o, &prof),
                    },
                    l,
                );
            }
        }
    }
}

/// Replay of one factoring case: `check` is "<name>@<profile>".
pub fn replay_case(check: &str, case: &Value, judge: &(dyn Fn(&FCase, &Outcome) -> Result<(), Fail> + Sync)) -> Result<(), Fail> {
    let c: FCase = serde_json::from_value(case.clone()).map_err(|e| Fail::new("HARNESS|bad-replay-file", e.to_string()))?;
    let profile = check.split('@').nth(1).unwrap_or("opt");
    let r = run_jobs(profile, &[c.job()], 1, &|_| 600.0).map_err(|e| Fail::new("HARNESS|worker", e))?;
    let o = Outcome::from_job(&r[0]);
    if let Outcome::Timeout = o {
        return Err(Fail::new("HARNESS|timeout", "replay hit the watchdog"));
    }
    judge(&c, &o)
}
