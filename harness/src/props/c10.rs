//! C10 — polynomial arithmetic over Z/nZ matches the schoolbook definitions
//! (DESIGN.md section 2, C10).
//!
//! Checks (each with its own case type / replay name):
//!   conv    convolve_modn (Schönhage–Strassen, every Kronecker packing class) and
//!           convolve_modn_ntt = cyclic convolution mod X^size-1 restricted to [offset, offset+len)
//!   mul     Poly::{mul_basic, mul_karatsuba, mul_fft} = product
//!   middle  Poly::middlemul = coefficients [m-1, 2m-1)
//!   series  Poly::div_mod_xn = quotient by the defining recurrence (inverse: p = 1)
//!   roots   Poly::from_roots = prod (x - r_i) expanded one factor at a time
//!   eval    Poly::roots_eval(a, b)[j] = prod_i (b_j - a_i);  Poly::multi_eval / eval = Horner
//!   fint    FInt<N> add/sub/mul/shl/shr/twiddle/butterfly vs integers mod 2^(64N)+1 (hooks)
//!   fconv   arith_fft::mulfft = cyclic convolution over Z/(2^(64N)+1)
//!   mzp     MultiZmodP: to_mint(from_mint(x)) = x, redc(sum of products) = sum / R mod n
//!
//! Inputs are converted to Montgomery form by the harness itself ((x << 64k) % n with bnum)
//! and results are compared in Montgomery form modulo n; the oracle (oracle/poly.rs) never
//! calls yamaquasi.

use bnum::BUint;
use proptest::prelude::*;
use serde::{Deserialize, Serialize};
use serde_json::{json, Value};

use crate::engine::{guard, hash64, replay_as, Ctx, Fail, Local, PropDef};
use crate::gen::{edgy, edgy_build, pick_idx};
use crate::oracle::int::{ref_gcd, resize, SplitMix};
use crate::oracle::poly::{self as rp, Mont, U512};
use yamaquasi::arith_fft::{self, FInt, MultiZmodP};
use yamaquasi::arith_montgomery::{MInt, ZmodN};
use yamaquasi::arith_poly::{Poly, PolyRing};
use yamaquasi::Uint;

pub const DEF: PropDef = PropDef {
    id: "C10",
    level: "exploration",
    chk_child: true,
    run,
    replay,
};

// ---------------------------------------------------------------------------
// Moduli

/// Breakpoints of the packing dispatch table of `convolve_modn` (both sides), word
/// boundaries and the ends of the supported range.
const BITS_GRID: &[u32] = &[
    2, 3, 8, 28, 29, 31, 32, 33, 58, 63, 64, 65, 100, 127, 128, 129, 149, 150, 151, 152, 191, 192, 193, 244, 245, 246, 247,
    255, 256, 257, 279, 280, 281, 282, 309, 310, 311, 312, 319, 320, 321, 383, 384, 385, 447, 448, 449, 498, 499, 500,
];

/// An odd modulus of exactly `bits` bits (2..=500): style 0 random, 1 = 2^bits - c, 2 = 2^(bits-1) + c.
pub fn mk_modulus(bits: u32, style: u8, limbs: &[u64], small: u64) -> U512 {
    let bits = bits.clamp(2, 500);
    let one = U512::ONE;
    let c = U512::from(small);
    let v = match style % 3 {
        0 => edgy_build::<8>(2, bits, limbs, small, 500),
        1 => ((one << bits) - one).saturating_sub(c),
        _ => (one << (bits - 1)) + c,
    };
    // force exactly `bits` bits and odd
    let mask = (one << bits) - one;
    let v = (v & mask) | (one << (bits - 1)) | one;
    debug_assert!(v.bits() == bits);
    v
}

/// Strategy: odd modulus of 2..=500 bits; half of the draws sit on the dispatch grid.
pub fn modulus() -> impl Strategy<Value = U512> {
    (
        0u8..8,
        any::<u16>(),
        2u32..=500,
        0u8..3,
        proptest::collection::vec(any::<u64>(), 1..=8),
        0u64..=40,
        edgy::<8>(500),
    )
        .prop_map(|(sel, gi, anybits, style, limbs, small, e)| match sel {
            0..=3 => mk_modulus(BITS_GRID[pick_idx(gi, BITS_GRID.len())], style, &limbs, small),
            4 | 5 => mk_modulus(anybits, style, &limbs, small),
            6 => {
                // tiny moduli
                U512::from(((gi as u64) << 1) | 1).max(U512::from(3u64))
            }
            _ => {
                let x = e | U512::ONE;
                if x.is_one() {
                    U512::from(3u64)
                } else {
                    x
                }
            }
        })
}

fn uint_of(x: &U512) -> Uint {
    resize(x)
}

fn mint_of(m: &Mont, x: &U512) -> MInt {
    MInt(*m.to_mont(x).digits())
}

fn mints(m: &Mont, xs: &[U512]) -> Vec<MInt> {
    xs.iter().map(|x| mint_of(m, x)).collect()
}

/// Compare a library result (Montgomery form, any representative) with a residue.
fn same(m: &Mont, got: &MInt, want: &U512) -> bool {
    let g = U512::from_digits(got.0) % m.n;
    g == m.to_mont(want)
}

fn show(m: &Mont, got: &MInt) -> String {
    m.from_mont(&U512::from_digits(got.0)).to_string()
}

// ---------------------------------------------------------------------------
// Coefficient vectors: a replayable *description* (kind + parameters), expanded by `build`.

#[derive(Clone, Debug, Serialize, Deserialize)]
pub struct Coefs {
    /// explicit | zero | one | nm1 | repmax | repone | const | geom | rand | mix | sparse
    /// (repmax / repone: every coefficient has the Montgomery representative n-1 / 1)
    pub kind: String,
    pub len: usize,
    #[serde(with = "crate::ser::u64s")]
    pub seed: u64,
    #[serde(with = "crate::ser::dec")]
    pub a: U512,
    #[serde(with = "crate::ser::dec")]
    pub r: U512,
    #[serde(with = "crate::ser::dec_vec")]
    pub xs: Vec<U512>,
}

const KINDS: &[&str] = &[
    "explicit", "explicit", "rand", "rand", "mix", "mix", "nm1", "repmax", "repone", "const", "geom", "sparse", "sparse", "one", "zero",
];
/// kinds whose cost does not grow with the product of the lengths
const CHEAP_KINDS: &[&str] = &["nm1", "repmax", "repone", "const", "geom", "sparse", "sparse", "sparse", "one"];

fn rand_below(r: &mut SplitMix, n: &U512) -> U512 {
    r.bits::<8>(n.bits() + 8) % *n
}

/// One "interesting" residue: 0, 1, n-1, n-2, around n/2, small, random.
fn mix_value(r: &mut SplitMix, n: &U512) -> U512 {
    let one = U512::ONE;
    let v = match r.below(10) {
        0 => U512::ZERO,
        1 => one,
        2 | 3 => *n - one,
        4 => n.saturating_sub(U512::from(2u64)),
        5 => *n >> 1u32,
        6 => (*n >> 1u32) + one,
        7 => U512::from(r.next() >> 40),
        _ => rand_below(r, n),
    };
    v % *n
}

impl Coefs {
    pub fn simple(kind: &str, len: usize, seed: u64) -> Coefs {
        Coefs { kind: kind.to_string(), len, seed, a: U512::from(seed | 1), r: U512::from((seed >> 7) | 2), xs: vec![] }
    }
    pub fn explicit(xs: Vec<U512>) -> Coefs {
        Coefs { kind: "explicit".into(), len: xs.len(), seed: 0, a: U512::ZERO, r: U512::ZERO, xs }
    }
    pub fn length(&self) -> usize {
        if self.kind == "explicit" {
            self.xs.len()
        } else {
            self.len
        }
    }
    /// (first term, ratio) when the vector is a geometric progression
    pub fn geo(&self, m: &Mont) -> Option<(U512, U512)> {
        let n = &m.n;
        let one = U512::ONE % *n;
        match self.kind.as_str() {
            "zero" => Some((U512::ZERO, one)),
            "one" => Some((one, one)),
            "nm1" => Some((*n - U512::ONE, one)),
            "repmax" => Some((m.from_mont(&(*n - U512::ONE)), one)),
            "repone" => Some((m.from_mont(&U512::ONE), one)),
            "const" => Some((self.a % *n, one)),
            "geom" => Some((self.a % *n, self.r % *n)),
            _ => None,
        }
    }
    pub fn build(&self, m: &Mont) -> Result<Vec<U512>, Fail> {
        let n = &m.n;
        let len = self.length();
        if let Some((a, r)) = self.geo(m) {
            return Ok(rp::geometric(n, &a, &r, len));
        }
        let mut rng = SplitMix(self.seed ^ 0xC10C_10C1);
        Ok(match self.kind.as_str() {
            "explicit" => self.xs.iter().map(|x| *x % *n).collect(),
            "rand" => (0..len).map(|_| rand_below(&mut rng, n)).collect(),
            "mix" => (0..len).map(|_| mix_value(&mut rng, n)).collect(),
            "sparse" => {
                let mut v = vec![U512::ZERO; len];
                if len > 0 {
                    let k = 1 + rng.below(8) as usize;
                    for t in 0..k {
                        let pos = match (t, rng.below(4)) {
                            (0, 0) => 0,
                            (1, 0) | (0, 1) => len - 1,
                            (_, 2) => {
                                // next to a power of two
                                let p = 1usize << rng.below(usize::BITS as u64 - len.leading_zeros() as u64);
                                (p + rng.below(3) as usize).saturating_sub(1).min(len - 1)
                            }
                            _ => rng.below(len as u64) as usize,
                        };
                        let mut x = mix_value(&mut rng, n);
                        if x.is_zero() {
                            x = U512::ONE % *n;
                        }
                        v[pos] = x;
                    }
                }
                v
            }
            k => return Err(Fail::new("HARNESS|bad-kind", format!("unknown coefficient kind {}", k))),
        })
    }
}

/// Raw ingredients of a coefficient vector drawn by proptest (the modulus is not known yet).
type RawCoefs = (u16, u64, U512, U512, Vec<(u8, U512)>);

fn raw_coefs() -> impl Strategy<Value = RawCoefs> {
    (
        any::<u16>(),
        any::<u64>(),
        edgy::<8>(500),
        edgy::<8>(500),
        proptest::collection::vec((0u8..8, edgy::<8>(500)), 0..=32),
    )
}

/// Build the description from raw ingredients: `len` is imposed by the caller, `cheap` forces
/// a family whose oracle cost is linear in the length.
fn mk_coefs(raw: &RawCoefs, n: &U512, len: usize, cheap: bool) -> Coefs {
    let (ki, seed, a, r, ex) = raw;
    let kind = if cheap {
        CHEAP_KINDS[pick_idx(*ki, CHEAP_KINDS.len())]
    } else {
        KINDS[pick_idx(*ki, KINDS.len())]
    };
    if kind == "explicit" {
        // explicit residues (shrinkable one by one); cycle the drawn list up to `len` <= 64,
        // longer vectors fall back to the seeded mixture
        if len <= 64 && !ex.is_empty() {
            let one = U512::ONE;
            let xs = (0..len)
                .map(|i| {
                    let (mode, x) = &ex[i % ex.len()];
                    let v = match mode {
                        0 => U512::ZERO,
                        1 => one,
                        2 | 3 => *n - one,
                        4 => (*n - one).saturating_sub(*x % U512::from(4u64)),
                        _ => *x,
                    };
                    v % *n
                })
                .collect();
            return Coefs::explicit(xs);
        }
        return Coefs { kind: "mix".into(), len, seed: *seed, a: U512::ZERO, r: U512::ZERO, xs: vec![] };
    }
    Coefs { kind: kind.to_string(), len, seed: *seed, a: *a % *n, r: *r % *n, xs: vec![] }
}

/// Interesting lengths in 1..=max: 1, 2, around the Karatsuba/FFT thresholds (19..29),
/// 2^k-1, 2^k, 2^k+1, max-1, max, max/2.., anything.
fn pick_len(mode: u8, raw: u16, max: usize) -> usize {
    let max = max.max(1);
    let v = match mode % 12 {
        0 => 1,
        1 => 2,
        2 | 3 => 19 + (raw as usize % 11),
        4 | 5 => {
            let lg = usize::BITS - max.leading_zeros(); // 2^(lg-1) <= max
            let p = 1usize << (raw as u32 % lg);
            (p + (raw as usize >> 8) % 3).saturating_sub(1)
        }
        6 => max,
        7 => max - 1,
        8 => max / 2 + (raw as usize % 3),
        _ => 1 + pick_idx(raw, max),
    };
    v.clamp(1, max)
}

fn nontrivial_key(l: &mut Local, tag: &str, n: &U512, p: &[U512], q: &[U512], extra: u64) {
    let half = *n >> 1u32;
    let big = p.iter().chain(q.iter()).any(|x| *x >= half && !x.is_zero());
    if p.len() >= 29 || q.len() >= 29 || extra >= 64 || big {
        let ph: Vec<&[u64; 8]> = p.iter().map(|x| x.digits()).collect();
        let qh: Vec<&[u64; 8]> = q.iter().map(|x| x.digits()).collect();
        l.nontrivial(hash64(&(tag, n.digits(), extra, ph, qh)));
        l.label("nontrivial");
    }
}

fn label_len(l: &mut Local, what: &str, len: usize) {
    if (19..=29).contains(&len) {
        l.label(&format!("{}:len19..29", what));
    }
    if len >= 3 && (len - 1).is_power_of_two() {
        l.label(&format!("{}:len2^k+1", what));
    } else if len.is_power_of_two() {
        l.label(&format!("{}:len2^k", what));
    } else if (len + 1).is_power_of_two() {
        l.label(&format!("{}:len2^k-1", what));
    } else {
        l.label(&format!("{}:len-other", what));
    }
}

fn label_bits(l: &mut Local, n: &U512) {
    l.label(&format!("words={}", (n.bits() + 63) / 64));
}

// ---------------------------------------------------------------------------
// conv: convolve_modn / convolve_modn_ntt

#[derive(Clone, Debug, Serialize, Deserialize)]
pub struct ConvCase {
    #[serde(with = "crate::ser::dec")]
    pub n: U512,
    /// "ss" (convolve_modn) or "ntt" (convolve_modn_ntt)
    pub variant: String,
    /// size = 2^logsize
    pub logsize: u32,
    /// ntt: the MultiZmodP is built for 2^(logsize + mzp_extra)
    pub mzp_extra: u32,
    pub p: Coefs,
    pub q: Coefs,
    pub offset: usize,
    pub reslen: usize,
    /// pre-fill the output buffer with 1 instead of 0 (the function must overwrite it)
    pub prefill: bool,
}

/// Packing class chosen by `convolve_modn` for (bits, size): label only
/// (recomputed from the documented table; not used by the oracle).
pub fn ss_class(bits: u32, size: usize) -> &'static str {
    match (bits, size) {
        (0..=150, 0..=8192) => "A2s5/F1024",
        (0..=500, 0..=4096) => "A1/F1024",
        (0..=310, 0..=16384) => "A2s10/F2048",
        (0..=280, 0..=65536) => "A4s9/F4096",
        (0..=512, 0..=32768) => "A2s17/F4096",
        (0..=245, 0..=262144) => "A8s8/F8192",
        (0..=512, 0..=131072) => "A4s17/F8192",
        (0..=512, 0..=524288) => "A8s17/F16384",
        _ => "none",
    }
}

/// Hard limit on schoolbook oracle work per case (multiplications).
const ORACLE_LIMIT: u64 = 80_000_000;

/// Linear product by the cheapest exact oracle available; Err = generator bug.
fn oracle_product(m: &Mont, pc: &Coefs, qc: &Coefs, p: &[U512], q: &[U512], l: &mut Local) -> Result<Vec<U512>, Fail> {
    let n = &m.n;
    let cost = rp::mul_cost(p, q);
    let closed = match (pc.geo(m), qc.geo(m)) {
        (Some((a, r)), Some((b, s))) if r == s => Some(rp::geometric_product(n, &a, &b, &r, p.len(), q.len())),
        _ => None,
    };
    if cost <= ORACLE_LIMIT && (closed.is_none() || cost <= 200_000) {
        let sb = rp::mul(n, p, q);
        if let Some(cf) = closed {
            if cf != sb {
                return Err(Fail::new("HARNESS|closed-form", "closed form and schoolbook product disagree"));
            }
            l.label("oracle:closed+schoolbook");
        } else {
            l.label("oracle:schoolbook");
        }
        Ok(sb)
    } else if let Some(cf) = closed {
        l.label("oracle:closed-form");
        Ok(cf)
    } else {
        Err(Fail::new("HARNESS|oracle-too-expensive", format!("no affordable oracle: cost {}", cost)))
    }
}

pub fn check_conv(c: &ConvCase, l: &mut Local) -> Result<(), Fail> {
    let size = 1usize << c.logsize;
    let (lp, lq) = (c.p.length(), c.q.length());
    if !c.n.bit(0)
        || c.n.bits() < 2
        || c.n.bits() > 500
        || c.logsize < 1
        || c.logsize > 19
        || lp == 0
        || lq == 0
        || lp > size
        || lq > size
        || c.reslen == 0
        || c.offset + c.reslen > size
    {
        return Err(Fail::new("HARNESS|out-of-domain", format!("conv case outside the documented domain: {:?}", c)));
    }
    let ntt = c.variant == "ntt";
    let m = Mont::new(&c.n);
    let p = c.p.build(&m)?;
    let q = c.q.build(&m)?;
    l.case();
    let class = if ntt { "ntt" } else { ss_class(c.n.bits(), size) };
    l.label(&format!("conv:{}", class));
    l.label(&format!("conv:logsize={}", c.logsize));
    l.label(&format!("coef:{}", c.p.kind));
    l.label(&format!("coef:{}", c.q.kind));
    label_bits(l, &c.n);
    label_len(l, "conv", lp);
    let wraps = lp + lq - 1 > size;
    if wraps {
        l.label("conv:wraps");
        if !ntt && class != "A1/F1024" {
            l.label("conv:packed+wraps");
        }
    }
    if c.offset > 0 {
        l.label("conv:offset>0");
    }
    if c.offset + c.reslen == size {
        l.label("conv:to-end");
    }
    nontrivial_key(l, &c.variant, &c.n, &p, &q, size as u64 | ((c.offset as u64) << 32));
    l.sample(&format!("conv:{}", class), || serde_json::to_value(c).unwrap());

    let lin = oracle_product(&m, &c.p, &c.q, &p, &q, l)?;
    let want = rp::fold(&c.n, &lin, size);

    let zn = guard("ZmodN::new", || ZmodN::new(uint_of(&c.n)))?;
    let (p1, p2) = (mints(&m, &p), mints(&m, &q));
    let fill = if c.prefill { mint_of(&m, &(U512::ONE % c.n)) } else { MInt::default() };
    let entry = if ntt { "convolve_modn_ntt".to_string() } else { format!("convolve_modn[{}]", class) };
    let res = guard(&entry, || {
        let mut res = vec![fill; c.reslen];
        if ntt {
            let mzp = MultiZmodP::new(&zn, c.logsize + c.mzp_extra);
            arith_fft::convolve_modn_ntt(&mzp, size, &p1, &p2, &mut res, c.offset);
        } else {
            arith_fft::convolve_modn(&zn, size, &p1, &p2, &mut res, c.offset);
        }
        res
    })?;
    for i in 0..c.reslen {
        if !same(&m, &res[i], &want[c.offset + i]) {
            let bad = (0..c.reslen).filter(|&j| !same(&m, &res[j], &want[c.offset + j])).count();
            return Err(Fail::new(
                format!("{}|wrong-coefficient", entry),
                format!(
                    "n={} ({} bits) size={} len(p)={} len(q)={} offset={} len(res)={}: coefficient {} of p*q mod X^{}-1 is {} but res[{}] = {} ({} of {} coefficients wrong)",
                    c.n, c.n.bits(), size, lp, lq, c.offset, c.reslen, c.offset + i, size, want[c.offset + i], i, show(&m, &res[i]), bad, c.reslen
                ),
            ));
        }
    }
    Ok(())
}

fn mk_conv(
    n: U512,
    ntt: bool,
    logsize: u32,
    lens: (u8, u16, u8, u16),
    rp_: &RawCoefs,
    rq_: &RawCoefs,
    off: (u8, u16, u8, u16),
    extra: u32,
    prefill: bool,
    dense_limit: usize,
) -> ConvCase {
    let size = 1usize << logsize;
    let lp = pick_len(lens.0, lens.1, size);
    let lq = pick_len(lens.2, lens.3, size);
    let cheap = lp * lq > dense_limit;
    // one operand sparse/closed-form is enough for the skip-zero oracle only if it is sparse:
    // force both into linear-cost families, p biased to sparse.
    let mut p = mk_coefs(rp_, &n, lp, cheap);
    let mut q = mk_coefs(rq_, &n, lq, cheap);
    if cheap && p.kind != "sparse" && q.kind != "sparse" {
        // both geometric: the closed form needs a common ratio
        let r = p.geo(&Mont::new(&n)).map(|x| x.1).unwrap_or(U512::ONE);
        if q.kind == "geom" {
            q.r = r;
        } else if p.kind == "geom" {
            p.r = U512::ONE;
            p.kind = "const".into();
        }
    }
    let offset = match off.0 % 6 {
        0 | 1 => 0,
        2 => 1.min(size - 1),
        3 => size - 1,
        _ => pick_idx(off.1, size),
    };
    let room = size - offset;
    let reslen = match off.2 % 5 {
        0 | 1 => room,
        2 => 1,
        3 => (lp + lq - 1).saturating_sub(offset).clamp(1, room),
        _ => 1 + pick_idx(off.3, room),
    };
    ConvCase {
        n,
        variant: if ntt { "ntt" } else { "ss" }.to_string(),
        logsize,
        mzp_extra: if ntt { extra } else { 0 },
        p,
        q,
        offset,
        reslen,
        prefill,
    }
}

pub fn conv_strategy() -> impl Strategy<Value = ConvCase> {
    let logsize = prop_oneof![8 => 1u32..=6, 5 => 7u32..=9, 2 => 10u32..=11, 1 => 12u32..=13];
    (
        modulus(),
        any::<bool>(),
        logsize,
        (0u8..12, any::<u16>(), 0u8..12, any::<u16>()),
        raw_coefs(),
        raw_coefs(),
        (0u8..6, any::<u16>(), 0u8..5, any::<u16>()),
        0u32..3,
        any::<bool>(),
    )
        .prop_map(|(n, ntt, logsize, lens, rp_, rq_, off, extra, prefill)| {
            mk_conv(n, ntt, logsize, lens, &rp_, &rq_, off, extra, prefill, 1 << 16)
        })
}

/// Fixed grid: every packing class x every transform size, closed-form and sparse inputs,
/// full wrap-around (both operands of length `size`), both variants.
fn conv_grid(max_log: u32, min_log: u32) -> Vec<ConvCase> {
    let mut out = vec![];
    let bits_list: &[u32] = &[2, 31, 64, 65, 100, 128, 150, 151, 192, 245, 246, 256, 280, 281, 310, 311, 384, 448, 499, 500];
    for logsize in min_log..=max_log {
        let size = 1usize << logsize;
        for (bi, &bits) in bits_list.iter().enumerate() {
            // thin the grid at the large sizes: only the classes' boundary moduli
            let big = logsize >= 14;
            if big && ![150, 151, 245, 246, 280, 281, 310, 311, 500].contains(&bits) {
                continue;
            }
            let seed = (logsize as u64) << 32 | bits as u64;
            let n = mk_modulus(bits, (bi % 3) as u8, &[0x9E3779B97F4A7C15 ^ seed, 0xD1B54A32D192ED03, seed], 1 + 2 * (bi as u64 % 5));
            for ntt in [false, true] {
                // the NTT variant has no packing classes: three moduli are enough at the large sizes
                if big && ntt && ![150, 281, 500].contains(&bits) {
                    continue;
                }
                // (p, q, lens): all n-1 full length; Montgomery representative n-1; geometric; sparse x mix
                let fams: Vec<(Coefs, Coefs)> = vec![
                    (Coefs::simple("nm1", size, seed), Coefs::simple("nm1", size, seed)),
                    (Coefs::simple("repmax", size, seed), Coefs::simple("repmax", size - size / 4, seed)),
                    (
                        Coefs { kind: "geom".into(), len: size / 2 + 1, seed, a: n - U512::from(2u64), r: n >> 1u32, xs: vec![] },
                        Coefs { kind: "geom".into(), len: size - 1, seed, a: n >> 2u32, r: n >> 1u32, xs: vec![] },
                    ),
                    (Coefs::simple("sparse", size, seed ^ 0x55), Coefs::simple(if size <= 4096 { "mix" } else { "sparse" }, size, seed ^ 0xAA)),
                ];
                for (fi, (p, q)) in fams.into_iter().enumerate() {
                    // large sizes: the maximal-magnitude family stays for the widest modulus of each
                    // packing class (it is the one that fills a packed slot), the others are thinned
                    let class_max = [150, 245, 280, 310, 500].contains(&bits);
                    if big && ((fi == 1 && !(class_max && !ntt)) || fi == 2) && (bi + logsize as usize) % 4 != 0 {
                        continue;
                    }
                    let (offset, reslen) = match fi {
                        0 => (0, size),
                        1 => (size / 2 - (size / 2).min(1), size - (size / 2 - (size / 2).min(1))),
                        2 => (1.min(size - 1), (size - 1).max(1).min(size - 1.min(size - 1))),
                        _ => (0, size),
                    };
                    out.push(ConvCase {
                        n,
                        variant: if ntt { "ntt" } else { "ss" }.to_string(),
                        logsize,
                        mzp_extra: (fi as u32) % 2,
                        p,
                        q,
                        offset,
                        reslen,
                        prefill: fi % 2 == 1,
                    });
                }
            }
        }
    }
    // Probes between the breakpoints: the capacity of a packed slot is monotone in the modulus size, so a
    // breakpoint of the dispatch table that has moved up is visible at the moduli just below its new place,
    // which the list above (the documented breakpoints) does not contain.  Every fourth size from 100 bits on,
    // at the transform sizes where the packing classes differ, with the maximal-magnitude family (all
    // coefficients n-1, both operands of full length: every slot receives `size` products of maximal size).
    for logsize in min_log.max(12)..=max_log {
        let size = 1usize << logsize;
        let step = if logsize >= 17 { 16 } else { 4 };
        for bits in (100..=500u32).step_by(step) {
            if bits_list.contains(&bits) {
                continue;
            }
            let seed = (logsize as u64) << 32 | bits as u64 | 1 << 48;
            let n = mk_modulus(bits, (bits % 3) as u8, &[0x9E3779B97F4A7C15 ^ seed, 0xD1B54A32D192ED03, seed], 1 + 2 * (bits as u64 % 5));
            out.push(ConvCase {
                n,
                variant: "ss".to_string(),
                logsize,
                mzp_extra: 0,
                p: Coefs::simple("nm1", size, seed),
                q: Coefs::simple("nm1", size, seed),
                offset: 0,
                reslen: size,
                prefill: false,
            });
        }
    }
    out
}

// ---------------------------------------------------------------------------
// Poly operations: mul (basic / karatsuba / fft), middle, series, roots, eval

#[derive(Clone, Debug, Serialize, Deserialize)]
pub struct PolyCase {
    #[serde(with = "crate::ser::dec")]
    pub n: U512,
    /// basic | karatsuba | fft | middle | div | inv | from_roots | roots_eval | multi_eval
    pub op: String,
    /// argument of PolyRing::new (>= 28 enables the NTT paths)
    pub ring: usize,
    pub p: Coefs,
    pub q: Coefs,
}

/// Lengths for which every recursive call of the Karatsuba routine receives two non-empty
/// operands of "similar degree" (its documented assumption; unbalanced inputs are a FIXME).
pub fn kara_ok(a: usize, b: usize) -> bool {
    if a == 0 || b == 0 {
        return false;
    }
    if a <= 20 && b <= 20 {
        return true;
    }
    let half = (a.max(b) + 1) / 2;
    if a <= half || b <= half {
        return false;
    }
    kara_ok(half, half) && kara_ok(a - half, b - half)
}

fn next_pow2(x: usize) -> usize {
    x.max(1).next_power_of_two()
}

/// Chunk lengths used by `multi_eval` (documented there: chunks of at most n = 2^ceil(log2 plen)).
fn multi_eval_chunks(plen: usize, alen: usize) -> Vec<usize> {
    let n = next_pow2(plen);
    let chunks = (alen - 1) / n + 1;
    let chunklen = (alen - 1) / chunks + 1;
    let mut out = vec![];
    let mut rest = alen;
    while rest > 0 {
        let c = rest.min(chunklen);
        out.push(c);
        rest -= c;
    }
    out
}

/// 2^k of the NTT tables a ring built with `PolyRing::new(zn, ring)` provides (0 = no NTT).
fn ring_cap(ring: usize) -> usize {
    if ring >= 28 {
        2 * next_pow2(ring)
    } else {
        0
    }
}

/// Is the case inside the documented / caller-respected domain of its operation?
pub fn poly_domain(c: &PolyCase) -> Result<(), String> {
    let (lp, lq) = (c.p.length(), c.q.length());
    let cap = ring_cap(c.ring);
    if !c.n.bit(0) || c.n.bits() < 2 || c.n.bits() > 500 || c.ring == 0 {
        return Err("modulus".into());
    }
    if lp == 0 || lq == 0 {
        return Err("empty operand".into());
    }
    let ok = match c.op.as_str() {
        "basic" => lq <= lp + 1,
        "karatsuba" => lq <= lp && kara_ok(lp, lq),
        // transform size 2^bits(deg p + deg q) must exist in the ring's tables and be >= 2
        "fft" => lp + lq >= 3 && cap >= next_pow2(lp + lq - 1),
        // NTT sub-products have size <= 2 * 2^floor(log2 m)
        "middle" => lp == 2 * lq - 1 && (cap == 0 || cap >= 2 * next_pow2(lq)),
        "div" | "inv" => lp == lq && (cap == 0 || cap >= 2 * next_pow2(lq)),
        "from_roots" => cap == 0 || cap >= next_pow2(lp),
        "roots_eval" => true,
        "multi_eval" => {
            let degp = lp - 1;
            multi_eval_chunks(lp, lq).iter().all(|&cl| degp <= next_pow2(cl)) && (cap == 0 || cap >= 2 * next_pow2(lp))
        }
        _ => false,
    };
    if ok {
        Ok(())
    } else {
        Err(format!("op {} with lengths {} {} ring {}", c.op, lp, lq, c.ring))
    }
}

fn first_diff(m: &Mont, got: &[MInt], want: &[U512]) -> Option<usize> {
    (0..want.len()).find(|&i| i >= got.len() || !same(m, &got[i], &want[i]))
}

pub fn check_poly(c: &PolyCase, l: &mut Local) -> Result<(), Fail> {
    if let Err(e) = poly_domain(c) {
        return Err(Fail::new("HARNESS|out-of-domain", format!("poly case outside the documented domain ({}): {:?}", e, c)));
    }
    let m = Mont::new(&c.n);
    let n = &c.n;
    let p = c.p.build(&m)?;
    let mut q = c.q.build(&m)?;
    let (lp, lq) = (p.len(), q.len());
    if c.op == "div" || c.op == "inv" {
        // q[0] invertible by construction: next unit at or above the drawn value
        let mut q0 = q[0];
        while !ref_gcd(&q0, n).is_one() {
            q0 = (q0 + U512::ONE) % *n;
        }
        q[0] = q0;
    }
    let p = if c.op == "inv" {
        let mut one = vec![U512::ZERO; lp];
        one[0] = U512::ONE % *n;
        one
    } else {
        p
    };
    l.case();
    l.label(&format!("op:{}", c.op));
    l.label(&format!("coef:{}", c.p.kind));
    l.label(&format!("coef:{}", c.q.kind));
    l.label(if c.ring >= 28 { "ring:ntt" } else { "ring:no-ntt" });
    label_bits(l, n);
    label_len(l, &c.op, if matches!(c.op.as_str(), "from_roots" | "multi_eval") { lp } else { lq });
    nontrivial_key(l, &c.op, n, &p, &q, c.ring as u64);
    l.sample(&format!("op:{}", c.op), || serde_json::to_value(c).unwrap());

    let zn = guard("ZmodN::new", || ZmodN::new(uint_of(n)))?;
    let (pm, qm) = (mints(&m, &p), mints(&m, &q));
    let ring = c.ring;
    let ctx = |i: usize, want: &U512, got: Option<&MInt>| -> String {
        format!(
            "n={} ({} bits) ring={} len(p)={} len(q)={}: index {} expected {} got {}",
            n,
            n.bits(),
            ring,
            lp,
            lq,
            i,
            want,
            got.map(|g| show(&m, g)).unwrap_or_else(|| "<missing>".into())
        )
    };
    match c.op.as_str() {
        "basic" | "karatsuba" | "fft" => {
            let entry = format!("Poly::mul_{}", c.op);
            let want = if c.op == "fft" {
                oracle_product(&m, &c.p, &c.q, &p, &q, l)?
            } else {
                rp::mul(n, &p, &q)
            };
            let got = guard(&entry, || {
                let zr = PolyRing::new(&zn, ring);
                let pp = Poly::new(&zr, pm.clone());
                let qq = Poly::new(&zr, qm.clone());
                match c.op.as_str() {
                    "basic" => Poly::mul_basic(&pp, &qq).c,
                    "karatsuba" => Poly::mul_karatsuba(&pp, &qq).c,
                    _ => Poly::mul_fft(&pp, &qq).c,
                }
            })?;
            if let Some(i) = first_diff(&m, &got, &want) {
                return Err(Fail::new(format!("{}|wrong-coefficient", entry), ctx(i, &want[i], got.get(i))));
            }
            // coefficients above the degree of the product must be zero (mul_basic fills them;
            // the repository's own test asserts it for mul_karatsuba on equal lengths)
            if c.op == "basic" || c.op == "fft" || lp == lq {
                if let Some(i) = (want.len()..got.len()).find(|&i| !same(&m, &got[i], &U512::ZERO)) {
                    return Err(Fail::new(format!("{}|nonzero-above-degree", entry), ctx(i, &U512::ZERO, got.get(i))));
                }
            }
        }
        "middle" => {
            let want = rp::middle(n, &p, &q);
            let got = guard("Poly::middlemul", || {
                let zr = PolyRing::new(&zn, ring);
                let pp = Poly::new(&zr, pm.clone());
                let qq = Poly::new(&zr, qm.clone());
                Poly::middlemul(&pp, &qq).c
            })?;
            ensure!(got.len() == want.len(), "Poly::middlemul|wrong-length", "{} coefficients instead of {}", got.len(), want.len());
            if let Some(i) = first_diff(&m, &got, &want) {
                return Err(Fail::new("Poly::middlemul|wrong-coefficient", ctx(i, &want[i], got.get(i))));
            }
        }
        "div" | "inv" => {
            let want = rp::series_div(n, &p, &q).ok_or_else(|| Fail::new("HARNESS|not-invertible", "q[0] not invertible"))?;
            let got = guard("Poly::div_mod_xn", || {
                let zr = PolyRing::new(&zn, ring);
                let pp = Poly::new(&zr, pm.clone());
                let qq = Poly::new(&zr, qm.clone());
                Poly::div_mod_xn(&pp, &qq).c
            })?;
            ensure!(got.len() == want.len(), "Poly::div_mod_xn|wrong-length", "{} coefficients instead of {}", got.len(), want.len());
            if let Some(i) = first_diff(&m, &got, &want) {
                return Err(Fail::new("Poly::div_mod_xn|wrong-coefficient", ctx(i, &want[i], got.get(i))));
            }
            if q[0] == U512::ONE % *n {
                l.label("series:q0=1");
            } else {
                l.label("series:q0!=1");
            }
        }
        "from_roots" => {
            let want = rp::from_roots(n, &p);
            let got = guard("Poly::from_roots", || {
                let zr = PolyRing::new(&zn, ring);
                Poly::from_roots(&zr, &pm).c
            })?;
            ensure!(got.len() == want.len(), "Poly::from_roots|wrong-length", "{} coefficients instead of {}", got.len(), want.len());
            if let Some(i) = first_diff(&m, &got, &want) {
                return Err(Fail::new("Poly::from_roots|wrong-coefficient", ctx(i, &want[i], got.get(i))));
            }
        }
        "roots_eval" => {
            // p = roots a_i, q = points b_j
            let want: Vec<U512> = q.iter().map(|b| rp::eval_roots_at(n, &p, b)).collect();
            let got = guard("Poly::roots_eval", || Poly::roots_eval(&zn, &pm, &qm))?;
            ensure!(got.len() == want.len(), "Poly::roots_eval|wrong-length", "{} values instead of {}", got.len(), want.len());
            if lp < next_pow2(lq) {
                l.label("roots_eval:direct");
            } else if lp > next_pow2(lq) {
                l.label("roots_eval:reduce-chunks");
            } else {
                l.label("roots_eval:reduce-one");
            }
            if let Some(i) = first_diff(&m, &got, &want) {
                return Err(Fail::new("Poly::roots_eval|wrong-value", ctx(i, &want[i], got.get(i))));
            }
        }
        "multi_eval" => {
            // p = coefficients, q = points
            let want: Vec<U512> = q.iter().map(|x| rp::horner(n, &p, x)).collect();
            let (got, single) = guard("Poly::multi_eval", || {
                let zr = PolyRing::new(&zn, ring);
                let pp = Poly::new(&zr, pm.clone());
                (pp.multi_eval(&qm), pp.eval(qm[0]))
            })?;
            ensure!(got.len() == want.len(), "Poly::multi_eval|wrong-length", "{} values instead of {}", got.len(), want.len());
            ensure!(same(&m, &single, &want[0]), "Poly::eval|wrong-value", "{}", ctx(0, &want[0], Some(&single)));
            if let Some(i) = first_diff(&m, &got, &want) {
                return Err(Fail::new("Poly::multi_eval|wrong-value", ctx(i, &want[i], got.get(i))));
            }
        }
        _ => return Err(Fail::new("HARNESS|bad-op", c.op.clone())),
    }
    Ok(())
}

/// Ring sizes for an operation whose largest NTT is `need` (a power of two, see poly_domain):
/// without NTT tables, exactly large enough, or larger.
fn pick_ring(sel: u8, need_cap: usize, natural: usize) -> usize {
    // smallest ring with ring_cap(ring) >= need_cap: next_pow2(ring) >= need_cap/2
    let min_ntt = (need_cap / 4 + 1).max(28);
    match sel % 8 {
        0 => 1,
        1 => 27,
        2 | 3 => min_ntt,
        4 => natural.max(min_ntt),
        5 => next_pow2(natural.max(min_ntt)),
        6 => 2 * natural.max(min_ntt),
        _ => natural.max(min_ntt) + 1,
    }
}

const POLY_OPS: &[&str] = &[
    "basic", "karatsuba", "karatsuba", "fft", "fft", "middle", "middle", "middle", "div", "div", "div", "inv", "from_roots",
    "from_roots", "roots_eval", "roots_eval", "roots_eval", "multi_eval",
];

fn mk_poly(n: U512, opi: u16, maxlen: usize, lens: (u8, u16, u8, u16), ra: &RawCoefs, rb: &RawCoefs, ringsel: u8, delta: u8) -> PolyCase {
    let op = POLY_OPS[pick_idx(opi, POLY_OPS.len())];
    let l1 = pick_len(lens.0, lens.1, maxlen);
    let l2 = pick_len(lens.2, lens.3, maxlen);
    let ntt_off = ringsel % 8 <= 1;
    let (lp, lq, ring) = match op {
        "basic" => {
            let lp = l1.min(96);
            (lp, l2.min(lp + 1), pick_ring(ringsel, 0, lp))
        }
        "karatsuba" => {
            let lp = l1.min(700);
            let d = match delta % 8 {
                0..=3 => 0,
                4 => 1,
                5 => 2,
                6 => 3,
                _ => (lens.3 as usize) % (lp / 2 + 1),
            };
            let lq = lp.saturating_sub(d).max(1);
            let lq = if kara_ok(lp, lq) { lq } else { lp };
            (lp, lq, pick_ring(ringsel, 0, lp))
        }
        "fft" => {
            let (lp, lq) = if l1 + l2 < 3 { (2, 1) } else { (l1, l2) };
            let need = next_pow2(lp + lq - 1);
            (lp, lq, pick_ring(ringsel.max(2), need, lp.max(lq)))
        }
        "middle" => {
            let m = if ntt_off { l1.min(300) } else { l1 };
            (2 * m - 1, m, pick_ring(ringsel, 2 * next_pow2(m), m))
        }
        "div" | "inv" => {
            let m = if ntt_off { l1.min(300) } else { l1 };
            (m, m, pick_ring(ringsel, 2 * next_pow2(m), m))
        }
        "from_roots" => {
            let m = if ntt_off { l1.min(300) } else { l1 };
            (m, 1, pick_ring(ringsel, next_pow2(m), m))
        }
        "roots_eval" => {
            // a = l1 roots, b = l2 points; keep the O(|a||b|) oracle affordable
            let lb = l2.min(1024);
            let la = match delta % 4 {
                0 => l1,
                1 => next_pow2(lb),
                2 => next_pow2(lb) + 1 + (lens.1 as usize % 5),
                _ => (l1 * 3).min(4 * maxlen),
            };
            let la = la.min((1usize << 17) / lb).max(1);
            (la, lb, 1)
        }
        _ => {
            // multi_eval: every chunk of points must be at least as long (padded) as deg p
            let lp = if ntt_off { l1.min(200) } else { l1.min(600) };
            let mut la = match delta % 4 {
                0 => next_pow2(lp),
                1 => next_pow2(lp) * (1 + (lens.3 as usize % 4)),
                2 => lp.max(2) - 1,
                _ => l2.max(lp),
            };
            la = la.min((1usize << 17) / lp).max(1);
            if !multi_eval_chunks(lp, la).iter().all(|&cl| lp - 1 <= next_pow2(cl)) {
                la = next_pow2(lp);
            }
            (lp, la, pick_ring(ringsel, 2 * next_pow2(lp), lp))
        }
    };
    let cheap = matches!(op, "fft") && lp * lq > (1 << 18);
    let mut p = mk_coefs(ra, &n, lp, cheap);
    let mut q = mk_coefs(rb, &n, lq, cheap);
    if cheap && p.kind != "sparse" && q.kind != "sparse" {
        if q.kind == "geom" {
            q.r = if p.kind == "geom" { p.r } else { U512::ONE };
        } else if p.kind == "geom" {
            p.kind = "const".into();
        }
    }
    PolyCase { n, op: op.to_string(), ring, p, q }
}

pub fn poly_strategy(maxlen: usize) -> impl Strategy<Value = PolyCase> {
    (
        modulus(),
        any::<u16>(),
        (0u8..12, any::<u16>(), 0u8..12, any::<u16>()),
        raw_coefs(),
        raw_coefs(),
        0u8..8,
        0u8..8,
    )
        .prop_map(move |(n, opi, lens, ra, rb, ringsel, delta)| mk_poly(n, opi, maxlen, lens, &ra, &rb, ringsel, delta))
}

// ---------------------------------------------------------------------------
// fint / fconv: arithmetic modulo the Fermat number 2^(64N)+1 (hooks in arith_fft.rs)

#[derive(Clone, Debug, Serialize, Deserialize)]
pub struct FVal {
    /// 0 zero, 1 one, 2 minus one (= 2^(64N), hi word set), 3 minus two (all ones), 4 random,
    /// 5 per-limb patterns, 6 single bit, 7 2^b - 1, 8 -(2^b), 9 low words only (packed coefficient)
    pub mode: u8,
    #[serde(with = "crate::ser::u64s")]
    pub seed: u64,
    pub bit: u32,
}

#[derive(Clone, Debug, Serialize, Deserialize)]
pub struct FintCase {
    /// N: 16, 32, 64, 128 or 256 words
    pub words: usize,
    /// add | sub | mul | shl | shr | twiddle | butterfly
    pub op: String,
    pub x: FVal,
    pub y: FVal,
    /// shift amount (shl: any; shr: <= 128 N)
    pub s: u32,
    /// twiddle: omega^i with omega of order 2^k, 1 <= k <= log2(256 N), 0 <= i <= 2^k
    pub i: u32,
    pub k: u32,
}

fn fermat<const W: usize>(nw: usize) -> BUint<W> {
    (BUint::<W>::ONE << (64 * nw as u32)) + BUint::<W>::ONE
}

fn fval_build<const N: usize, const W: usize>(v: &FVal) -> BUint<W> {
    let f = fermat::<W>(N);
    let one = BUint::<W>::ONE;
    let nbits = 64 * N as u32;
    let mut r = SplitMix(v.seed ^ 0xF1A7);
    let mut d = [0u64; W];
    let b = v.bit % nbits;
    let x = match v.mode % 10 {
        0 => BUint::<W>::ZERO,
        1 => one,
        2 => one << nbits,
        3 => (one << nbits) - one,
        4 => {
            for w in d.iter_mut().take(N) {
                *w = r.next();
            }
            BUint::from_digits(d)
        }
        5 => {
            for w in d.iter_mut().take(N) {
                *w = match r.below(8) {
                    0 | 1 => 0,
                    2 | 3 => u64::MAX,
                    4 => 1,
                    5 => 1 << 63,
                    6 => u64::MAX << r.below(64),
                    _ => r.next(),
                };
            }
            BUint::from_digits(d)
        }
        6 => one << b,
        7 => (one << b) - one,
        8 => f - (one << b),
        _ => {
            let k = 1 + (v.bit as usize % N.min(17));
            for w in d.iter_mut().take(k) {
                *w = r.next();
            }
            BUint::from_digits(d)
        }
    };
    x % f
}

fn to_fint<const N: usize, const W: usize>(x: &BUint<W>) -> FInt<N> {
    let mut w = [0u64; N];
    w.copy_from_slice(&x.digits()[..N]);
    FInt::<N>::verif_from(w, x.digits()[N])
}

/// Value of a library result and whether it is normalized (hi in {0,1}, hi = 1 => words = 0).
fn of_fint<const N: usize, const W: usize>(z: &FInt<N>) -> (BUint<W>, bool) {
    let (w, hi) = z.verif_parts();
    let mut d = [0u64; W];
    d[..N].copy_from_slice(&w);
    d[N] = hi;
    let v = BUint::<W>::from_digits(d);
    let norm = hi == 0 || (hi == 1 && w.iter().all(|&x| x == 0));
    (v, norm)
}

/// 2^e mod F for any e (2^(64N) = -1).
fn pow2_mod_f<const W: usize>(nw: usize, e: u64) -> BUint<W> {
    let nbits = 64 * nw as u64;
    let e = e % (2 * nbits);
    let f = fermat::<W>(nw);
    if e < nbits {
        BUint::<W>::ONE << (e as u32)
    } else {
        f - (BUint::<W>::ONE << ((e - nbits) as u32))
    }
}

fn fint_check_n<const N: usize, const W: usize>(c: &FintCase, l: &mut Local) -> Result<(), Fail> {
    let f = fermat::<W>(N);
    let x = fval_build::<N, W>(&c.x);
    let y = fval_build::<N, W>(&c.y);
    let (fx, fy) = (to_fint::<N, W>(&x), to_fint::<N, W>(&y));
    let nbits = 64 * N as u64;
    let maxk = (256 * N).trailing_zeros();
    l.case();
    l.label(&format!("fint:{}", c.op));
    l.label(&format!("fint:N={}", N));
    if x == f - BUint::<W>::ONE || y == f - BUint::<W>::ONE {
        l.label("fint:operand=-1(hi-set)");
    }
    l.nontrivial_of(&("fint", N, &c.op, x.digits().to_vec(), y.digits().to_vec(), c.s, c.i, c.k));
    let entry = format!("FInt<{}>::{}", N, c.op);
    let (got, want): (Vec<FInt<N>>, Vec<BUint<W>>) = match c.op.as_str() {
        "add" => (vec![guard(&entry, || fx.verif_add(&fy))?], vec![(x + y) % f]),
        "sub" => (vec![guard(&entry, || fx.verif_sub(&fy))?], vec![(x + f - y) % f]),
        "mul" => (vec![guard(&entry, || fx.verif_mul(&fy))?], vec![(x * y) % f]),
        "butterfly" => {
            let (a, b) = guard(&entry, || FInt::<N>::verif_butterfly(&fx, &fy))?;
            (vec![a, b], vec![(x + y) % f, (x + f - y) % f])
        }
        "shl" => {
            if c.s as u64 % 64 == 0 {
                l.label("fint:shift-word-boundary");
            }
            (vec![guard(&entry, || fx.verif_shl(c.s))?], vec![(x * pow2_mod_f::<W>(N, c.s as u64)) % f])
        }
        "shr" => {
            if c.s as u64 > 2 * nbits {
                return Err(Fail::new("HARNESS|out-of-domain", "shr amount above 128N"));
            }
            (vec![guard(&entry, || fx.verif_shr(c.s))?], vec![(x * pow2_mod_f::<W>(N, 2 * nbits - c.s as u64)) % f])
        }
        "twiddle" => {
            if c.k < 1 || c.k > maxk || c.i as u64 > (1u64 << c.k) {
                return Err(Fail::new("HARNESS|out-of-domain", "twiddle index outside 0..=2^k, k outside 1..=log2(256N)"));
            }
            // omega = 2^(128N / 2^k) for 2^k <= 128N; for 2^k = 256N omega = sqrt(2) = 2^(48N) - 2^(16N)
            let t = if c.k < maxk {
                pow2_mod_f::<W>(N, (2 * nbits >> c.k) * c.i as u64)
            } else {
                l.label("fint:twiddle-sqrt2");
                let sqrt2 = (pow2_mod_f::<W>(N, 3 * nbits / 4) + f - pow2_mod_f::<W>(N, nbits / 4)) % f;
                let even = pow2_mod_f::<W>(N, c.i as u64 / 2);
                if c.i % 2 == 1 {
                    (even * sqrt2) % f
                } else {
                    even
                }
            };
            (vec![guard(&entry, || fx.verif_twiddle(c.i, c.k))?], vec![(x * t) % f])
        }
        _ => return Err(Fail::new("HARNESS|bad-op", c.op.clone())),
    };
    for (g, w) in got.iter().zip(want.iter()) {
        let (v, norm) = of_fint::<N, W>(g);
        if v % f != *w {
            return Err(Fail::new(
                format!("{}|wrong-value", entry),
                format!("x={:#x} y={:#x} s={} i={} k={}: expected {:#x} got {:#x} (mod 2^{}+1)", x, y, c.s, c.i, c.k, w, v, nbits),
            ));
        }
        if !norm {
            return Err(Fail::new(
                format!("{}|not-normalized", entry),
                format!("x={:#x} y={:#x} s={} i={} k={}: result {:#x} is congruent but not normalized", x, y, c.s, c.i, c.k, v),
            ));
        }
    }
    Ok(())
}

pub fn check_fint(c: &FintCase, l: &mut Local) -> Result<(), Fail> {
    match c.words {
        16 => fint_check_n::<16, 34>(c, l),
        32 => fint_check_n::<32, 66>(c, l),
        64 => fint_check_n::<64, 130>(c, l),
        128 => fint_check_n::<128, 258>(c, l),
        256 => fint_check_n::<256, 514>(c, l),
        _ => Err(Fail::new("HARNESS|bad-words", "N must be 16, 32, 64, 128 or 256")),
    }
}

const FINT_OPS: &[&str] = &["add", "sub", "mul", "mul", "shl", "shl", "shr", "twiddle", "twiddle", "butterfly"];

fn fval() -> impl Strategy<Value = FVal> {
    (0u8..10, any::<u64>(), any::<u32>()).prop_map(|(mode, seed, bit)| FVal { mode, seed, bit })
}

pub fn fint_strategy() -> impl Strategy<Value = FintCase> {
    let words = prop_oneof![6 => Just(16usize), 4 => Just(32usize), 3 => Just(64usize), 1 => Just(128usize), 1 => Just(256usize)];
    (words, any::<u16>(), fval(), fval(), (0u8..6, any::<u32>()), (any::<u32>(), 0u8..4, any::<u32>()))
        .prop_map(|(words, opi, x, y, (smode, sraw), (iraw, kmode, kraw))| {
            let op = FINT_OPS[pick_idx(opi, FINT_OPS.len())].to_string();
            let period = 128 * words as u32;
            let mut s = match smode {
                0 => 64 * (sraw % (2 * words as u32 + 1)),
                1 => (64 * (sraw % (2 * words as u32 + 1))).saturating_sub(1),
                2 => 64 * (sraw % (2 * words as u32)) + 1,
                3 => sraw % 64,
                _ => sraw % (period + 1),
            };
            if op == "shl" && smode == 5 {
                s = sraw; // any u32: the shift is reduced modulo 128N
            }
            let maxk = (256 * words as u32).trailing_zeros();
            let k = match kmode {
                0 => maxk,
                1 => maxk - 1,
                _ => 1 + kraw % maxk,
            };
            let i = if iraw % 7 == 0 { 1u32 << k } else { iraw % ((1u32 << k) + 1) };
            FintCase { words, op, x, y, s, i, k }
        })
}

/// Exhaustive small part: every shift 0..=128N and every twiddle (i, k) for N = 16 on a few operands
/// is too much for the quick tier; the fixed part takes every word-boundary shift and its neighbours.
fn fint_fixed() -> Vec<FintCase> {
    let mut out = vec![];
    let vals = [
        FVal { mode: 4, seed: 1, bit: 0 },
        FVal { mode: 2, seed: 0, bit: 0 },
        FVal { mode: 3, seed: 0, bit: 0 },
        FVal { mode: 0, seed: 0, bit: 0 },
        FVal { mode: 5, seed: 7, bit: 0 },
        FVal { mode: 1, seed: 0, bit: 0 },
    ];
    for words in [16usize, 32, 64] {
        for (vi, x) in vals.iter().enumerate() {
            for w in 0..=2 * words as u32 {
                for d in [-1i64, 0, 1] {
                    let s = 64 * w as i64 + d;
                    if s < 0 || s > 128 * words as i64 {
                        continue;
                    }
                    if vi >= 3 && d != 0 {
                        continue;
                    }
                    for op in ["shl", "shr"] {
                        out.push(FintCase { words, op: op.into(), x: x.clone(), y: x.clone(), s: s as u32, i: 0, k: 1 });
                    }
                }
            }
            for y in vals.iter() {
                for op in ["add", "sub", "mul", "butterfly"] {
                    out.push(FintCase { words, op: op.into(), x: x.clone(), y: y.clone(), s: 0, i: 0, k: 1 });
                }
            }
            let maxk = (256 * words as u32).trailing_zeros();
            for k in 1..=maxk {
                for i in [0u32, 1, 2, 3, (1 << k) / 2, (1 << k) - 1, 1 << k] {
                    out.push(FintCase { words, op: "twiddle".into(), x: x.clone(), y: x.clone(), s: 0, i: i.min(1 << k), k });
                }
            }
        }
    }
    out
}

#[derive(Clone, Debug, Serialize, Deserialize)]
pub struct FconvCase {
    pub words: usize,
    pub loglen: u32,
    pub xs: Vec<FVal>,
    pub ys: Vec<FVal>,
}

fn fconv_check_n<const N: usize, const W: usize>(c: &FconvCase, l: &mut Local) -> Result<(), Fail> {
    let len = 1usize << c.loglen;
    if len > 256 * N || c.xs.is_empty() || c.ys.is_empty() {
        return Err(Fail::new("HARNESS|out-of-domain", "mulfft length above 256N"));
    }
    let f = fermat::<W>(N);
    // cycle the drawn values up to the transform length; the tail of y is zero in half of the cases
    let xs: Vec<BUint<W>> = (0..len).map(|i| fval_build::<N, W>(&c.xs[i % c.xs.len()])).collect();
    let ys: Vec<BUint<W>> = (0..len)
        .map(|i| if c.ys.len() % 2 == 0 && i >= len / 2 + 1 { BUint::ZERO } else { fval_build::<N, W>(&c.ys[i % c.ys.len()]) })
        .collect();
    l.case();
    l.label(&format!("fconv:N={}", N));
    l.label(&format!("fconv:loglen={}", c.loglen));
    l.nontrivial_of(&("fconv", N, len, xs.iter().map(|x| x.digits().to_vec()).collect::<Vec<_>>(), ys.iter().map(|x| x.digits().to_vec()).collect::<Vec<_>>()));
    let mut want = vec![BUint::<W>::ZERO; len];
    for i in 0..len {
        if xs[i].is_zero() {
            continue;
        }
        for j in 0..len {
            let k = (i + j) % len;
            want[k] = (want[k] + (xs[i] * ys[j]) % f) % f;
        }
    }
    let fx: Vec<FInt<N>> = xs.iter().map(to_fint::<N, W>).collect();
    let fy: Vec<FInt<N>> = ys.iter().map(to_fint::<N, W>).collect();
    let entry = format!("mulfft<{}>", N);
    let got = guard(&entry, || arith_fft::mulfft(&fx, &fy))?;
    ensure!(got.len() == len, format!("{}|wrong-length", entry), "{} outputs instead of {}", got.len(), len);
    for k in 0..len {
        let (v, _) = of_fint::<N, W>(&got[k]);
        if v % f != want[k] {
            return Err(Fail::new(
                format!("{}|wrong-coefficient", entry),
                format!("length {}: coefficient {} expected {:#x} got {:#x}", len, k, want[k], v),
            ));
        }
    }
    Ok(())
}

pub fn check_fconv(c: &FconvCase, l: &mut Local) -> Result<(), Fail> {
    match c.words {
        16 => fconv_check_n::<16, 34>(c, l),
        32 => fconv_check_n::<32, 66>(c, l),
        64 => fconv_check_n::<64, 130>(c, l),
        _ => Err(Fail::new("HARNESS|bad-words", "N must be 16, 32 or 64")),
    }
}

pub fn fconv_strategy() -> impl Strategy<Value = FconvCase> {
    let words = prop_oneof![6 => Just(16usize), 3 => Just(32usize), 1 => Just(64usize)];
    (words, 0u32..=6, proptest::collection::vec(fval(), 1..=8), proptest::collection::vec(fval(), 1..=8))
        .prop_map(|(words, loglen, xs, ys)| FconvCase { words, loglen: if words == 64 { loglen.min(4) } else { loglen }, xs, ys })
}

// ---------------------------------------------------------------------------
// mzp: residue number system MultiZmodP (conversion, CRT quotient estimate)

#[derive(Clone, Debug, Serialize, Deserialize)]
pub struct MzpCase {
    #[serde(with = "crate::ser::dec")]
    pub n: U512,
    /// MultiZmodP::new(zn, logsize): capacity 2 bits(n) + logsize bits
    pub logsize: u32,
    /// Montgomery representatives (integers below n after reduction)
    #[serde(with = "crate::ser::dec_vec")]
    pub xs: Vec<U512>,
    #[serde(with = "crate::ser::dec_vec")]
    pub ys: Vec<U512>,
    /// the sum of the products x_t*y_t is doubled this many times (terms * 2^doublings <= 2^logsize)
    pub doublings: u32,
}

pub fn check_mzp(c: &MzpCase, l: &mut Local) -> Result<(), Fail> {
    use crate::oracle::int::{widen, Ref};
    let terms = c.xs.len().min(c.ys.len());
    if !c.n.bit(0)
        || c.n.bits() < 2
        || c.n.bits() > 500
        || c.logsize < 1
        || c.logsize > 14
        || terms == 0
        || (terms as u64) << c.doublings > 1u64 << c.logsize
    {
        return Err(Fail::new("HARNESS|out-of-domain", format!("mzp case outside the domain: {:?}", c)));
    }
    let m = Mont::new(&c.n);
    let n = &c.n;
    let xs: Vec<U512> = c.xs.iter().take(terms).map(|x| *x % *n).collect();
    let ys: Vec<U512> = c.ys.iter().take(terms).map(|x| *x % *n).collect();
    let zn = guard("ZmodN::new", || ZmodN::new(uint_of(n)))?;
    let mzp = guard("MultiZmodP::new", || MultiZmodP::new(&zn, c.logsize))?;
    let w = mzp.verif_w();
    let primes = mzp.verif_primes();
    l.case();
    l.label(&format!("mzp:w={}", w));
    label_bits(l, n);
    l.nontrivial_of(&("mzp", n.digits(), c.logsize, c.doublings, xs.iter().map(|x| *x.digits()).collect::<Vec<_>>(), ys.iter().map(|x| *x.digits()).collect::<Vec<_>>()));
    l.sample(&format!("mzp:w={}", w), || serde_json::to_value(c).unwrap());
    ensure!(primes.len() == w, "HARNESS|mzp-hook", "verif_primes/verif_w disagree");
    // round trip
    for x in xs.iter().chain(ys.iter()) {
        let mx = MInt(*x.digits());
        let back = guard("MultiZmodP::to_mint(from_mint)", || {
            let mut z = vec![0u64; w];
            mzp.from_mint(&mut z, &mx);
            mzp.to_mint(&z)
        })?;
        ensure!(
            U512::from_digits(back.0) % *n == *x,
            "MultiZmodP::to_mint(from_mint)|round-trip",
            "n={} logsize={} w={}: x={} comes back as {}",
            n,
            c.logsize,
            w,
            x,
            U512::from_digits(back.0)
        );
    }
    // sum of products, doubled: the integer S = 2^d * sum x_t y_t < 2^(2 bits + logsize) must be
    // reconstructed exactly, i.e. redc(S) = S / R mod n
    let mut s = Ref::ZERO;
    for t in 0..terms {
        s += widen(&xs[t]) * widen(&ys[t]);
    }
    s <<= c.doublings;
    let want: U512 = crate::oracle::int::narrow(&((s % widen(n)) * widen(&m.rinv) % widen(n)));
    if c.doublings + (usize::BITS - (terms - 1).leading_zeros()) == c.logsize && xs.iter().all(|x| *x == *n - U512::ONE) {
        l.label("mzp:max-magnitude");
    }
    let got = guard("MultiZmodP::redc", || {
        let mut acc = vec![0u64; w];
        for t in 0..terms {
            let mut a = vec![0u64; w];
            let mut b = vec![0u64; w];
            mzp.from_mint(&mut a, &MInt(*xs[t].digits()));
            mzp.from_mint(&mut b, &MInt(*ys[t].digits()));
            mzp.verif_mul(&mut a, &b);
            for i in 0..w {
                acc[i] = ((acc[i] as u128 + a[i] as u128) % primes[i] as u128) as u64;
            }
        }
        for _ in 0..c.doublings {
            for i in 0..w {
                acc[i] = ((2 * acc[i] as u128) % primes[i] as u128) as u64;
            }
        }
        mzp.redc(&acc)
    })?;
    ensure!(
        U512::from_digits(got.0) % *n == want,
        "MultiZmodP::redc|wrong-value",
        "n={} ({} bits) logsize={} w={} terms={} doublings={}: redc(sum x*y) = {} expected {} (x0={} y0={})",
        n,
        n.bits(),
        c.logsize,
        w,
        terms,
        c.doublings,
        U512::from_digits(got.0),
        want,
        xs[0],
        ys[0]
    );
    Ok(())
}

pub fn mzp_strategy() -> impl Strategy<Value = MzpCase> {
    (
        modulus(),
        1u32..=12,
        proptest::collection::vec((0u8..8, edgy::<8>(500), edgy::<8>(500)), 1..=8),
        0u8..4,
        any::<u32>(),
    )
        .prop_map(|(n, logsize, raw, dmode, draw)| {
            let one = U512::ONE;
            let pick = |mode: u8, x: &U512| -> U512 {
                (match mode {
                    0 | 1 | 2 => n - one,
                    3 => (n - one).saturating_sub(*x % U512::from(3u64)),
                    4 => one,
                    5 => *x % U512::from(16u64),
                    _ => *x,
                }) % n
            };
            let maxterms = (1usize << logsize).min(raw.len());
            let xs: Vec<U512> = raw.iter().take(maxterms).map(|(m, x, _)| pick(*m, x)).collect();
            let ys: Vec<U512> = raw.iter().take(maxterms).map(|(m, _, y)| pick(m.rotate_left(1) % 8, y)).collect();
            let room = logsize - (usize::BITS - (xs.len() - 1).leading_zeros());
            let doublings = match dmode {
                0 | 1 => room,
                2 => 0,
                _ => draw % (room + 1),
            };
            MzpCase { n, logsize, xs, ys, doublings }
        })
}

/// Fixed part: for every modulus width 2..=500 and logsize in {1, 3, 12}: the maximal sum
/// 2^logsize * (n-1)^2 (covers every number of primes w the constructor can choose).
fn mzp_fixed() -> Vec<MzpCase> {
    let mut out = vec![];
    for bits in 2..=500u32 {
        for (j, logsize) in [1u32, 3, 12].into_iter().enumerate() {
            if logsize == 12 && bits % 4 != 0 {
                continue;
            }
            let n = mk_modulus(bits, ((bits as usize + j) % 3) as u8, &[0xA5A5_5A5A_1234_5678 ^ bits as u64, !(bits as u64)], 1 + (bits as u64 % 9));
            out.push(MzpCase { n, logsize, xs: vec![n - U512::ONE], ys: vec![n - U512::ONE], doublings: logsize });
            if logsize == 3 {
                // tiny integers: the CRT sum lies just above a multiple of the product of the primes,
                // where the quotient estimate must not round down
                let tiny: Vec<U512> = (1..=8u64).map(U512::from).collect();
                out.push(MzpCase { n, logsize, xs: vec![U512::ONE], ys: vec![U512::ONE], doublings: 0 });
                out.push(MzpCase { n, logsize, xs: tiny.clone(), ys: vec![U512::ONE; 8], doublings: 0 });
                out.push(MzpCase { n, logsize, xs: vec![U512::ONE, U512::ZERO], ys: vec![U512::from(2u64), U512::ZERO], doublings: 2 });
            }
        }
    }
    out
}

// ---------------------------------------------------------------------------
// Fixed cases for the Poly operations: every threshold length, both ring modes

fn poly_fixed() -> Vec<PolyCase> {
    let mut out = vec![];
    let moduli: Vec<U512> = vec![
        U512::from(3u64),
        mk_modulus(64, 1, &[1], 59),
        mk_modulus(150, 0, &[0x1234_5678_9abc_def1, 0xfeed_f00d_dead_beef, 77], 3),
        mk_modulus(256, 1, &[1], 189),
        mk_modulus(500, 0, &[0x0123_4567_89ab_cdef, 0x0f1e_2d3c_4b5a_6978, 0xdead_beef_cafe_f00d, 5], 7),
    ];
    let lens: Vec<usize> = vec![1, 2, 3, 4, 5, 7, 8, 9, 15, 16, 17, 19, 20, 21, 22, 23, 24, 25, 26, 27, 28, 29, 31, 32, 33, 40, 41, 42, 55, 56, 57, 63, 64, 65, 100, 127, 128, 129, 255, 256, 257];
    for (mi, n) in moduli.iter().enumerate() {
        for &len in &lens {
            if mi % 2 == 1 && len > 65 {
                continue;
            }
            let seed = (mi as u64) << 20 | len as u64;
            let kp = ["mix", "rand", "nm1"][(len + mi) % 3];
            let mkc = |kind: &str, l: usize, s: u64| Coefs::simple(kind, l, s);
            for ring_ntt in [false, true] {
                let ring = |need: usize, natural: usize| if ring_ntt { pick_ring(2 + (len % 3) as u8 * 2, need, natural) } else { 1 + 26 * (len % 2) };
                if !ring_ntt {
                    out.push(PolyCase { n: *n, op: "karatsuba".into(), ring: 1, p: mkc(kp, len, seed), q: mkc("mix", len, seed ^ 1) });
                    if len >= 2 && kara_ok(len, len - 1) {
                        out.push(PolyCase { n: *n, op: "karatsuba".into(), ring: 1, p: mkc(kp, len, seed), q: mkc("rand", len - 1, seed ^ 2) });
                    }
                    if len <= 64 {
                        out.push(PolyCase { n: *n, op: "basic".into(), ring: 1, p: mkc(kp, len, seed), q: mkc("mix", len + 1, seed ^ 3) });
                    }
                } else if len >= 2 {
                    out.push(PolyCase { n: *n, op: "fft".into(), ring: ring(next_pow2(2 * len - 1), len), p: mkc(kp, len, seed), q: mkc("mix", len, seed ^ 1) });
                    out.push(PolyCase { n: *n, op: "fft".into(), ring: ring(next_pow2(2 * len - 2), len), p: mkc("rand", len, seed), q: mkc(kp, len - 1, seed ^ 4) });
                }
                out.push(PolyCase { n: *n, op: "middle".into(), ring: ring(2 * next_pow2(len), len), p: mkc(kp, 2 * len - 1, seed), q: mkc("mix", len, seed ^ 5) });
                out.push(PolyCase { n: *n, op: "div".into(), ring: ring(2 * next_pow2(len), len), p: mkc("mix", len, seed), q: mkc("rand", len, seed ^ 6) });
                out.push(PolyCase { n: *n, op: "div".into(), ring: ring(2 * next_pow2(len), len), p: mkc("one", len, seed), q: mkc("one", len, seed ^ 6) });
                out.push(PolyCase { n: *n, op: "inv".into(), ring: ring(2 * next_pow2(len), len), p: mkc("one", len, seed), q: mkc(kp, len, seed ^ 7) });
                out.push(PolyCase { n: *n, op: "from_roots".into(), ring: ring(next_pow2(len), len), p: mkc(kp, len, seed), q: mkc("one", 1, 0) });
                out.push(PolyCase { n: *n, op: "multi_eval".into(), ring: ring(2 * next_pow2(len), len), p: mkc("mix", len, seed), q: mkc("rand", next_pow2(len), seed ^ 8) });
            }
            // the production entry point: |a| below, at and above the padded number of points
            let pad = next_pow2(len);
            for la in [1, pad - pad.min(2) / 2, pad, pad + 1, 2 * pad, 3 * pad + 1] {
                if la == 0 || la * len > 1 << 17 {
                    continue;
                }
                out.push(PolyCase { n: *n, op: "roots_eval".into(), ring: 1, p: mkc("rand", la, seed ^ la as u64), q: mkc(kp, len, seed ^ 9) });
            }
        }
    }
    out
}

// ---------------------------------------------------------------------------

fn par_fixed<C: Serialize + Sync>(ctx: &Ctx, name: &str, cases: &[C], f: impl Fn(&C, &mut Local) -> Result<(), Fail> + Sync) {
    use rayon::prelude::*;
    cases.par_iter().for_each(|c| {
        let mut l = Local::new();
        ctx.fixed_case(name, c, &mut l, &f);
        l.label(&format!("fixed:{}", name));
        ctx.merge(l);
    });
}

fn run(ctx: &Ctx) {
    ctx.set_rule(
        "conv/mul/middle/series/roots/eval: proptest strategy over (odd modulus of 2..500 bits, half of them on the grid of \
         packing-class breakpoints 150/151, 245/246, 280/281, 310/311, 500 and word boundaries, styles random / 2^b-c / 2^(b-1)+c; \
         operation; transform size 2^1..2^13 generated and 2^1..2^16 on a fixed grid (2^17..2^19 in the thorough tier); operand \
         lengths 1, 2, 19..29, 2^k-1, 2^k, 2^k+1, size-1, size, random; output offset 0, 1, size-1, random with offset+len <= size; \
         coefficient families explicit list, random, mixture of 0/1/n-1/n-2/n/2/small/random, all n-1, Montgomery representative \
         n-1, constant, geometric, sparse). Oracle: O(n^2) schoolbook over bnum integers (zero coefficients skipped), closed \
         form a*b*r^k*#pairs(k) for geometric families where the schoolbook product is too slow. fint/fconv: FInt<N> \
         operations and mulfft for N in {16,32,64,128,256} against bnum integers modulo 2^(64N)+1. mzp: round trip and \
         redc of 2^d * sum x_t*y_t for every number of primes w. Non-trivial = an operand of length >= 29 or transform size >= 64 \
         or a coefficient >= n/2 (all fint/fconv/mzp cases); distinct by hash of (operation, n, sizes, coefficients).",
    );
    ctx.assume("bnum 0.8 integer arithmetic (+ - * / % << >>) and native u128 arithmetic are correct");
    ctx.assume("moduli are odd, 2..500 bits (the range the property quantifies over; convolve_modn asserts <= 500)");
    ctx.assume("convolve_modn*: size a power of two >= 2, 1 <= len(p), len(q) <= size, offset + len(res) <= size, coefficients reduced");
    ctx.assume("mul_karatsuba: len(q) <= len(p) and every recursive split has two non-empty halves (documented 'similar degrees'; unbalanced inputs are a FIXME in the source)");
    ctx.assume("mul_fft/middlemul/div_mod_xn/from_roots/multi_eval: the PolyRing is large enough for the transforms they start (as every caller in the crate ensures); multi_eval: deg p <= padded length of every chunk of points");
    ctx.assume("div_mod_xn: q[0] invertible modulo n");
    ctx.assume("FInt operands are normalized; shr amounts <= 128N; twiddle(i, k) with 1 <= k <= log2(256N), 0 <= i <= 2^k");

    if let Err(e) = rp::self_test() {
        ctx.selfcheck_failed(&format!("oracle/poly.rs self-test: {}", e));
        return;
    }

    let timing = std::env::var("YQV_C10_TIMING").is_ok();
    let mark = |what: &str| {
        if timing {
            eprintln!("C10 timing: {:>8.1}s after {}", ctx.elapsed(), what);
        }
    };
    // ---- fixed part (independent of the seed)
    let max_log = if ctx.is_chk() { 14 } else { 16 };
    par_fixed(ctx, "conv", &conv_grid(max_log, 1), check_conv);
    mark("fixed conv");
    par_fixed(ctx, "poly", &poly_fixed(), check_poly);
    mark("fixed poly");
    par_fixed(ctx, "fint", &fint_fixed(), check_fint);
    mark("fixed fint");
    par_fixed(ctx, "mzp", &mzp_fixed(), check_mzp);
    mark("fixed mzp");
    if !ctx.quick() && !ctx.is_chk() {
        // 2^17..2^19: closed-form / sparse inputs at each packing class (a few GiB-seconds each): 3 at a time
        let big = conv_grid(19, 17);
        let pool = rayon::ThreadPoolBuilder::new().num_threads(3).build().unwrap();
        pool.install(|| par_fixed(ctx, "conv", &big, check_conv));
    }

    // ---- generated part
    ctx.par_prop("conv", 32, ctx.n(6_000, 400_000), conv_strategy, check_conv);
    mark("gen conv");
    let maxlen = ctx.pick(300, 1100);
    ctx.par_prop("poly", 32, ctx.n(4_000, 120_000), || poly_strategy(maxlen), check_poly);
    mark("gen poly");
    ctx.par_prop("fint", 16, ctx.n(40_000, 2_000_000), fint_strategy, check_fint);
    mark("gen fint");
    ctx.par_prop("fconv", 16, ctx.n(1_500, 40_000), fconv_strategy, check_fconv);
    mark("gen fconv");
    ctx.par_prop("mzp", 16, ctx.n(6_000, 400_000), mzp_strategy, check_mzp);
    mark("gen mzp");

    for class in ["A2s5/F1024", "A1/F1024", "A2s10/F2048", "A2s17/F4096", "ntt"] {
        ctx.essential(&format!("conv:{}", class), 4);
    }
    if !ctx.is_chk() {
        // transform sizes 2^15 and 2^16 run under the opt profile only
        for e in ["conv:A4s9/F4096", "conv:A4s17/F8192", "conv:logsize=16"] {
            ctx.essential(e, 4);
        }
    }
    for e in [
        "conv:wraps",
        "conv:packed+wraps",
        "conv:offset>0",
        "conv:logsize=1",
        "oracle:closed-form",
        "oracle:schoolbook",
        "op:karatsuba",
        "op:fft",
        "op:basic",
        "op:middle",
        "op:div",
        "op:inv",
        "op:from_roots",
        "op:roots_eval",
        "op:multi_eval",
        "roots_eval:direct",
        "roots_eval:reduce-chunks",
        "series:q0!=1",
        "middle:len2^k+1",
        "middle:len19..29",
        "karatsuba:len19..29",
        "ring:ntt",
        "ring:no-ntt",
        "fint:mul",
        "fint:twiddle-sqrt2",
        "fint:operand=-1(hi-set)",
        "fint:shift-word-boundary",
        "fint:N=64",
        "mzp:w=1",
        "mzp:w=18",
        "mzp:max-magnitude",
        "coef:nm1",
        "coef:repmax",
        "coef:geom",
        "coef:sparse",
        "words=1",
        "words=8",
    ] {
        ctx.essential(e, 4);
    }
    if !ctx.quick() && !ctx.is_chk() {
        ctx.essential("conv:A8s8/F8192", 1);
        ctx.essential("conv:A8s17/F16384", 1);
    }
    let _ = json!(null);
}

fn replay(_ctx: &Ctx, check_name: &str, case: &Value) -> Result<(), Fail> {
    match check_name {
        "conv" => replay_as::<ConvCase>(case, check_conv),
        "poly" => replay_as::<PolyCase>(case, check_poly),
        "fint" => replay_as::<FintCase>(case, check_fint),
        "fconv" => replay_as::<FconvCase>(case, check_fconv),
        "mzp" => replay_as::<MzpCase>(case, check_mzp),
        _ => Err(Fail::new("HARNESS|unknown-check", check_name.to_string())),
    }
}
