//! C11 — relation store and final step (DESIGN.md section 2, C11).
//!
//! Checks:
//!  * "history":   stateful / model based.  A history is a `Vec<AddOp>` (explicit relations, every one a true
//!                 congruence modulo n by construction) interpreted by `RelationSet::add`.  After *every* step:
//!                 each newly published relation has cofactor 1 and satisfies x^2 = prod p^k (mod n); every
//!                 pending partial / double relation decodes from its compact form to a true congruence with the
//!                 cofactor its key says; `doubles_rev` mirrors `doubles`; no pending double has both primes
//!                 pending as partials; pack/unpack of every input and every published relation is the same
//!                 congruence.  Optionally the published relations are handed to `final_step`.
//!  * "final":     `final_step(n, fb, rels)` on valid relation sets of every size (empty, too few, all trivial,
//!                 more than fb+48): every returned d has 1 < d < n and d | n.  Two worlds: known square roots
//!                 (n = P1..Pm) and a tiny quadratic sieve by trial division (moduli whose prime factors may lie
//!                 in the factor base).
//!  * "combine":   `RelationSet::combine(r1, r2)` for two congruences one of whose cofactors divides the other,
//!                 in both argument orders: the result is a congruence with the quotient as cofactor.
//!  * "pack":      round trip of arbitrary in-domain relations through the compact encoding.
//!  * "published": real factorizations (Algo::Qs / Mpqs / Siqs, 60..130-bit semiprimes from certified primes);
//!                 every relation the store publishes is observed through `verif_hooks` and checked against
//!                 the modulus n*k of the store.
//! Oracle: `oracle::rel::is_congruence` (bnum `*`, `%`, square-and-multiply) — never `Relation::verify`.

use std::cell::RefCell;
use std::collections::BTreeMap;

use proptest::prelude::*;
use serde::{Deserialize, Serialize};
use serde_json::{json, Value};

use crate::engine::{guard, replay_as, Ctx, Fail, Local, PropDef};
use crate::gen::{edgy, edgy64, pick_idx};
use crate::oracle::int::{certified_prime, mulmod, SplitMix, U1024};
use crate::oracle::rel::{emulate_fbase, is_congruence, qs_relations, World, WorldSpec};
use yamaquasi::fbase::FBase;
use yamaquasi::relations::{self, Relation, RelationSet};
use yamaquasi::{Algo, Int, Preferences, Uint, Verbosity};

pub const DEF: PropDef = PropDef {
    id: "C11",
    level: "exploration",
    chk_child: true,
    run,
    replay,
};

// ---------------------------------------------------------------------------
// Case encodings

#[derive(Clone, Debug, Serialize, Deserialize, PartialEq, Eq, Hash)]
pub struct RelJ {
    #[serde(with = "crate::ser::dec")]
    pub x: U1024,
    #[serde(with = "crate::ser::u64s")]
    pub cofactor: u64,
    #[serde(with = "crate::ser::u64s")]
    pub cyclelen: u64,
    /// (p, k) in the library's convention: p = -1 carries the sign
    pub factors: Vec<(i64, u64)>,
}

impl RelJ {
    fn to_relation(&self) -> Relation {
        Relation {
            x: self.x,
            cofactor: self.cofactor,
            cyclelen: self.cyclelen,
            factors: self.factors.clone(),
        }
    }
}

#[derive(Clone, Debug, Serialize, Deserialize, PartialEq, Eq, Hash)]
pub struct AddOp {
    /// label only: complete, single, double, square, dup, trivial
    pub kind: String,
    pub rel: RelJ,
    /// the second argument of `RelationSet::add`
    pub pq: Option<(u64, u64)>,
}

#[derive(Clone, Debug, Serialize, Deserialize)]
pub struct HistoryCase {
    /// description of the synthetic world (prime factors of n), informational
    pub world: String,
    #[serde(with = "crate::ser::dec")]
    pub n: U1024,
    /// `fbsize` argument of `RelationSet::new` (only used by progress estimates)
    pub fbsize: usize,
    pub maxlarge: u64,
    pub ops: Vec<AddOp>,
    /// Some(size): hand the published relations to `final_step` with `FBase::new(n, size)`
    pub final_fb: Option<u32>,
}

#[derive(Clone, Debug, Serialize, Deserialize)]
pub struct FinalCase {
    pub world: String,
    #[serde(with = "crate::ser::dec")]
    pub n: U1024,
    /// multiplier: the factor base is `FBase::new(n*k, fb_size)` as in the sieves (final_step still gets n)
    #[serde(default = "one_u32")]
    pub k: u32,
    pub fb_size: u32,
    pub rels: Vec<RelJ>,
}

fn one_u32() -> u32 {
    1
}

#[derive(Clone, Debug, Serialize, Deserialize)]
pub struct PackCase {
    pub rel: RelJ,
}

#[derive(Clone, Debug, Serialize, Deserialize)]
pub struct PublishedCase {
    /// "qs", "mpqs" or "siqs"
    pub alg: String,
    pub bits_p: u32,
    pub idx_p: u32,
    pub bits_q: u32,
    pub idx_q: u32,
    pub use_double: Option<bool>,
    pub large_factor: Option<u64>,
}

// ---------------------------------------------------------------------------
// Shared oracles

fn short(r: &Relation) -> String {
    crate::engine::truncate(
        &format!("x={} cofactor={} cyclelen={} factors={:?}", r.x, r.cofactor, r.cyclelen, r.factors),
        500,
    )
}

/// The documented normal form of a relation after pack/unpack: an even power of -1
/// disappears, an odd power becomes (-1, 1); everything else is unchanged, in order.
fn pack_normal_form(r: &Relation) -> Relation {
    let mut f = vec![];
    for &(p, k) in &r.factors {
        if p == -1 {
            if k % 2 == 1 {
                f.push((-1, 1));
            }
        } else {
            f.push((p, k));
        }
    }
    Relation {
        x: r.x,
        cofactor: r.cofactor,
        cyclelen: r.cyclelen,
        factors: f,
    }
}

/// Is `r` inside the domain of the compact encoding (x < 2^512, factors -1 / 2 / odd < 2^32, k > 0)?
fn packable(r: &Relation) -> bool {
    r.x.bits() <= 512
        && r.factors.iter().all(|&(p, k)| {
            k > 0 && (p == -1 || p == 2 || (p > 0 && p < (1i64 << 32) && p % 2 == 1))
        })
}

fn check_roundtrip(r: &Relation, what: &str) -> Result<(), Fail> {
    if !packable(r) {
        return Err(Fail::new(
            "HARNESS|unpackable",
            format!("{} relation outside the domain of pack: {}", what, short(r)),
        ));
    }
    let back = guard("PackedRelation::pack/unpack", || relations::verif_pack_unpack(r))?;
    let want = pack_normal_form(r);
    ensure!(
        back.x == want.x,
        "PackedRelation|x-changed",
        "{}: pack/unpack changed x: {} -> {}",
        what,
        short(r),
        short(&back)
    );
    ensure!(
        back.cofactor == want.cofactor,
        "PackedRelation|cofactor-changed",
        "{}: pack/unpack changed the cofactor: {} -> {}",
        what,
        short(r),
        short(&back)
    );
    ensure!(
        back.factors == want.factors,
        "PackedRelation|factors-changed",
        "{}: pack/unpack changed the factors: {} -> {}",
        what,
        short(r),
        short(&back)
    );
    ensure!(
        back.cyclelen == want.cyclelen,
        "PackedRelation|cyclelen-changed",
        "{}: pack/unpack changed cyclelen: {} -> {}",
        what,
        short(r),
        short(&back)
    );
    Ok(())
}

fn valid_modulus(n: &U1024) -> Result<(), Fail> {
    if n.bits() > 512 || n.bits() < 2 || !n.bit(0) {
        return Err(Fail::new("HARNESS|bad-modulus", format!("modulus {} not odd / not in 2..2^512", n)));
    }
    Ok(())
}

/// `final_step` on (n, FBase::new(n, fb_size), rels) + the divisor oracle.
fn run_final(n: &U1024, k: u32, fb_size: u32, rels: &[Relation], l: &mut Local) -> Result<(), Fail> {
    let nk = *n * U1024::from(k.max(1));
    let fb = guard("FBase::new", || FBase::new(Int::from_bits(nk), fb_size))?;
    // precondition of final_step: a prime with an odd exponent belongs to the factor base
    for r in rels {
        for &(p, k) in &r.factors {
            if p == -1 {
                continue;
            }
            if p <= 0 || p >= (1i64 << 32) {
                return Err(Fail::new("HARNESS|bad-factor", format!("factor {} out of range", p)));
            }
            let inside = fb.primes.binary_search(&(p as u32)).is_ok();
            if k % 2 == 1 && !inside {
                return Err(Fail::new(
                    "HARNESS|fbase-mismatch",
                    format!(
                        "prime {} (odd exponent) not in FBase::new({}, {}) = {:?}..",
                        p,
                        nk,
                        fb_size,
                        &fb.primes[..fb.primes.len().min(12)]
                    ),
                ));
            }
        }
    }
    let nn: Uint = *n;
    let divs = guard("final_step", || relations::final_step(&nn, &fb, rels, Verbosity::Silent))?;
    for d in &divs {
        ensure!(
            *d > U1024::ONE && *d < *n && (*n % *d).is_zero(),
            "final_step|improper-divisor",
            "final_step(n={}, {} relations) returned {} which is not a divisor d of n with 1 < d < n (all: {:?})",
            n,
            rels.len(),
            d,
            divs
        );
    }
    l.label(if divs.is_empty() { "final:no-divisor" } else { "final:divisors" });
    Ok(())
}

// ---------------------------------------------------------------------------
// Generators: synthetic world, relations with known roots

fn world_spec() -> impl Strategy<Value = WorldSpec> {
    let bits = prop_oneof![
        6 => proptest::collection::vec(16u32..=62, 2..=2),
        3 => proptest::collection::vec(16u32..=62, 3..=3),
        2 => proptest::collection::vec(16u32..=62, 4..=8),
    ];
    (
        bits,
        any::<u64>(),
        prop_oneof![3 => Just(0u8), 2 => Just(1u8), 1 => Just(2u8)],
        1u32..=8,
        2usize..=12,
        prop_oneof![4 => Just(0u8), 2 => Just(1u8), 1 => Just(2u8)],
        2u32..=400,
    )
        .prop_map(|(prime_bits, seed, class, fb8, pool, maxlarge_mode, lf)| WorldSpec {
            prime_bits,
            seed,
            class,
            fb_size: 8 * fb8,
            pool,
            maxlarge_mode,
            lf,
        })
}

#[derive(Clone, Debug)]
struct RelSeed {
    exps: Vec<(u16, u8)>,
    sign: bool,
    omega: u32,
    /// emulate SIQS: the factors of A are appended after the sieved primes
    tail: bool,
    /// add an already squared large prime (as combined relations carry)
    sq_large: Option<u16>,
    /// add (-1, 2)
    sign2: bool,
}

fn rel_seed() -> impl Strategy<Value = RelSeed> {
    let exp = prop_oneof![6 => Just(1u8), 2 => Just(2u8), 1 => Just(3u8), 1 => 4u8..=20];
    let omega = prop_oneof![2 => Just(0u32), 1 => Just(u32::MAX), 3 => any::<u32>()];
    (
        proptest::collection::vec((any::<u16>(), exp), 0..=6),
        any::<bool>(),
        omega,
        prop_oneof![4 => Just(false), 1 => Just(true)],
        prop_oneof![9 => Just(None), 1 => any::<u16>().prop_map(Some)],
        prop_oneof![9 => Just(false), 1 => Just(true)],
    )
        .prop_map(|(exps, sign, omega, tail, sq_large, sign2)| RelSeed {
            exps,
            sign,
            omega,
            tail,
            sq_large,
            sign2,
        })
}

fn seed_from(rng: &mut SplitMix) -> RelSeed {
    let k = 1 + rng.below(4) as usize;
    RelSeed {
        exps: (0..k).map(|_| (rng.next() as u16, 1 + (rng.below(8) / 6) as u8)).collect(),
        sign: rng.next() & 1 == 1,
        omega: rng.next() as u32,
        tail: false,
        sq_large: None,
        sign2: false,
    }
}

/// x = omega * i^sign * prod root(l)^e * prod root(L) (mod n): a true congruence by construction.
/// `larges`: indices into the pool, each contributes its prime once to the cofactor.
/// `history`: only features a sieve can produce (no pre-squared large prime, no (-1, 2)).
fn make_rel(w: &World, s: &RelSeed, larges: &[usize], history: bool) -> RelJ {
    let n = &w.n;
    let mut x = w.unity(s.omega);
    let mut factors: Vec<(i64, u64)> = vec![];
    let mut neg = false;
    if s.sign {
        if let Some(i) = &w.i_root {
            x = mulmod(&x, i, n);
            neg = true;
        }
    }
    // distinct small primes, exponents summed
    let mut exps: BTreeMap<usize, u64> = BTreeMap::new();
    for &(i, e) in &s.exps {
        let idx = pick_idx(i, w.ells.len());
        *exps.entry(idx).or_insert(0) += e as u64;
    }
    for (&idx, &e) in &exps {
        let (q, r) = &w.ells[idx];
        for _ in 0..e {
            x = mulmod(&x, r, n);
        }
        factors.push((*q as i64, e));
    }
    if s.tail && factors.len() >= 2 {
        // move one factor from the middle to the end
        let k = (s.omega as usize) % (factors.len() - 1);
        let f = factors.remove(k);
        factors.push(f);
    }
    if neg {
        factors.insert(0, (-1, 1));
    }
    if !history {
        if s.sign2 {
            // i^2 = -1, or simply (-1)^2 = 1 when -1 has no root
            if let Some(i) = &w.i_root {
                x = mulmod(&x, &mulmod(i, i, n), n);
            }
            factors.push((-1, 2));
        }
        if let (Some(i), false) = (s.sq_large, w.larges.is_empty()) {
            let (q, _) = &w.larges[pick_idx(i, w.larges.len())];
            x = mulmod(&x, &(U1024::from(*q) % *n), n);
            factors.push((*q as i64, 2));
        }
    }
    let mut cofactor = 1u64;
    for &li in larges {
        let (q, r) = &w.larges[li];
        x = mulmod(&x, r, n);
        cofactor *= *q as u64;
    }
    RelJ {
        x,
        cofactor,
        cyclelen: 1,
        factors,
    }
}

#[derive(Clone, Debug)]
enum OpSpec {
    Complete(RelSeed),
    Single(u16, RelSeed),
    Double(u16, u16, bool, RelSeed),
    Square(u16, RelSeed),
    Dup(u16),
    Trivial(u16, u32),
    /// doubles (L0,L1),(L1,L2),..,(L(len-1),Llen) in some order and a single for one of the primes,
    /// before or after them: forces recursive walks
    Chain {
        start: u16,
        len: u8,
        root: u8,
        order: u8,
        seed: u64,
    },
}

fn op_spec() -> impl Strategy<Value = OpSpec> {
    prop_oneof![
        5 => rel_seed().prop_map(OpSpec::Complete),
        7 => (any::<u16>(), rel_seed()).prop_map(|(l, s)| OpSpec::Single(l, s)),
        8 => (any::<u16>(), any::<u16>(), any::<bool>(), rel_seed()).prop_map(|(a, b, sw, s)| OpSpec::Double(a, b, sw, s)),
        1 => (any::<u16>(), rel_seed()).prop_map(|(l, s)| OpSpec::Square(l, s)),
        1 => any::<u16>().prop_map(OpSpec::Dup),
        1 => (any::<u16>(), any::<u32>()).prop_map(|(i, o)| OpSpec::Trivial(i, o)),
        1 => (any::<u16>(), 2u8..=7, any::<u8>(), 0u8..3, any::<u64>())
            .prop_map(|(start, len, root, order, seed)| OpSpec::Chain { start, len, root, order, seed }),
    ]
}

fn describe(w: &World) -> String {
    format!(
        "n = {:?}, fb size {} (bound {}), {} usable small primes, large pool {:?}, maxlarge {}",
        w.primes,
        w.fb_size,
        w.bound(),
        w.ells.len(),
        w.larges.iter().map(|l| l.0).collect::<Vec<_>>(),
        w.maxlarge
    )
}

fn build_history(spec: &WorldSpec, specs: &[OpSpec], fin: bool) -> HistoryCase {
    let w = World::build(spec);
    let np = w.larges.len();
    let mut ops: Vec<AddOp> = vec![];
    let single = |ops: &mut Vec<AddOp>, li: usize, s: &RelSeed| {
        ops.push(AddOp {
            kind: "single".into(),
            rel: make_rel(&w, s, &[li], true),
            pq: None,
        });
    };
    let double = |ops: &mut Vec<AddOp>, a: usize, b: usize, swap: bool, s: &RelSeed| {
        let (p, q) = (w.larges[a].0 as u64, w.larges[b].0 as u64);
        ops.push(AddOp {
            kind: if a == b { "square".into() } else { "double".into() },
            rel: make_rel(&w, s, &[a, b], true),
            pq: Some(if swap { (q, p) } else { (p, q) }),
        });
    };
    for sp in specs {
        match sp {
            OpSpec::Complete(s) => ops.push(AddOp {
                kind: "complete".into(),
                rel: make_rel(&w, s, &[], true),
                pq: None,
            }),
            OpSpec::Single(li, s) => {
                if np == 0 {
                    continue;
                }
                single(&mut ops, pick_idx(*li, np), s)
            }
            OpSpec::Double(a, b, swap, s) => {
                if np < 2 {
                    continue;
                }
                let a = pick_idx(*a, np);
                let b = (a + 1 + pick_idx(*b, np - 1)) % np;
                double(&mut ops, a, b, *swap, s)
            }
            OpSpec::Square(li, s) => {
                if np == 0 {
                    continue;
                }
                let a = pick_idx(*li, np);
                double(&mut ops, a, a, false, s)
            }
            OpSpec::Dup(i) => {
                if ops.is_empty() {
                    continue;
                }
                let mut o = ops[pick_idx(*i, ops.len())].clone();
                o.kind = "dup".into();
                ops.push(o)
            }
            OpSpec::Trivial(i, omega) => {
                if ops.is_empty() {
                    continue;
                }
                let mut o = ops[pick_idx(*i, ops.len())].clone();
                o.kind = "trivial".into();
                o.rel.x = mulmod(&o.rel.x, &w.unity(*omega), &w.n);
                ops.push(o)
            }
            OpSpec::Chain {
                start,
                len,
                root,
                order,
                seed,
            } => {
                if np < 3 {
                    continue;
                }
                let len = (*len as usize).min(np - 1);
                let s0 = pick_idx(*start, np);
                let mut rng = SplitMix(*seed);
                let mut links: Vec<usize> = (0..len).collect();
                match order {
                    0 => {}
                    1 => links.reverse(),
                    _ => {
                        for i in (1..links.len()).rev() {
                            let j = rng.below(i as u64 + 1) as usize;
                            links.swap(i, j);
                        }
                    }
                }
                let rootp = (s0 + (*root as usize) % (len + 1)) % np;
                let root_first = seed & 1 == 1;
                if root_first {
                    single(&mut ops, rootp, &seed_from(&mut rng));
                }
                for k in links {
                    let (a, b) = ((s0 + k) % np, (s0 + k + 1) % np);
                    let sw = rng.next() & 1 == 1;
                    double(&mut ops, a, b, sw, &seed_from(&mut rng));
                }
                if !root_first {
                    single(&mut ops, rootp, &seed_from(&mut rng));
                }
            }
        }
    }
    HistoryCase {
        world: describe(&w),
        n: w.n,
        fbsize: w.fb.len(),
        maxlarge: w.maxlarge,
        ops,
        final_fb: if fin { Some(w.fb_size) } else { None },
    }
}

pub fn history_strategy(max_ops: usize) -> impl Strategy<Value = HistoryCase> {
    (
        world_spec(),
        proptest::collection::vec(op_spec(), 1..=max_ops),
        prop_oneof![3 => Just(false), 1 => Just(true)],
    )
        .prop_map(|(spec, specs, fin)| build_history(&spec, &specs, fin))
}

// ---------------------------------------------------------------------------
// "history"

fn validate_history(c: &HistoryCase) -> Result<(), Fail> {
    valid_modulus(&c.n)?;
    if c.maxlarge > u32::MAX as u64 {
        return Err(Fail::new("HARNESS|bad-maxlarge", "maxlarge must fit in 32 bits (callers clamp it)"));
    }
    for (i, op) in c.ops.iter().enumerate() {
        let r = &op.rel;
        let bad = |why: &str| Err(Fail::new("HARNESS|invalid-input", format!("op {}: {}: {:?}", i, why, op)));
        if r.x >= c.n {
            return bad("x >= n");
        }
        if r.cyclelen != 1 {
            return bad("cyclelen != 1");
        }
        if r.cofactor == 0 || !is_congruence(&c.n, &r.x, r.cofactor, &r.factors) {
            return bad("not a congruence");
        }
        if r.factors.iter().any(|&(p, k)| k == 0 || !(p == -1 || p == 2 || (p > 2 && p % 2 == 1 && p < (1 << 24)))) {
            return bad("factor outside the factor base range");
        }
        match op.pq {
            None => {
                // fbase::cofactor: a single cofactor is 1 or <= maxlarge
                if r.cofactor != 1 && r.cofactor > c.maxlarge {
                    return bad("single cofactor above maxlarge");
                }
            }
            Some((p, q)) => {
                if p < 2 || q < 2 || p > c.maxlarge || q > c.maxlarge || p.checked_mul(q) != Some(r.cofactor) {
                    return bad("pq inconsistent with the cofactor / maxlarge");
                }
            }
        }
    }
    Ok(())
}

pub fn check_history(c: &HistoryCase, l: &mut Local) -> Result<(), Fail> {
    validate_history(c)?;
    let n = c.n;
    l.case();
    l.label_n("adds", c.ops.len() as u64);
    let mut rs = guard("RelationSet::new", || RelationSet::new(n, c.fbsize, c.maxlarge))?;
    let mut seen = 0usize;
    let mut prev_p: BTreeMap<u64, Relation> = BTreeMap::new();
    let mut prev_d: BTreeMap<(u32, u32), Relation> = BTreeMap::new();
    let mut nontrivial = false;
    for (step, op) in c.ops.iter().enumerate() {
        let r = op.rel.to_relation();
        check_roundtrip(&r, "input")?;
        l.label(&format!("op:{}", op.kind));
        if let Some((p, q)) = op.pq {
            if r.cofactor < c.maxlarge {
                l.label("op:double-below-maxlarge");
            }
            if p == q {
                l.label("op:p=q");
            }
        } else if r.cofactor > 1 && r.cofactor >= c.maxlarge {
            l.label("op:single-at-maxlarge(dropped)");
        }
        let pq = op.pq;
        guard("RelationSet::add", || rs.add(r, pq))?;

        // 1. newly published relations
        let ncyc = rs.cycles.len();
        for rel in &rs.cycles[seen.min(ncyc)..] {
            ensure!(
                rel.cofactor == 1,
                "RelationSet::add|published-with-cofactor",
                "step {} ({}): published relation keeps a cofactor: {}",
                step,
                op.kind,
                short(rel)
            );
            ensure!(
                is_congruence(&n, &rel.x, 1, &rel.factors),
                "RelationSet::add|published-not-a-congruence",
                "step {} ({}): published relation is not a congruence modulo n={}: {}",
                step,
                op.kind,
                n,
                short(rel)
            );
            check_roundtrip(rel, "published")?;
            match rel.cyclelen {
                1 => l.label("cycle:len1"),
                2 => l.label("cycle:len2"),
                3 => l.label("cycle:len3"),
                _ => l.label("cycle:len>=4"),
            }
            if rel.cyclelen >= 3 {
                nontrivial = true;
            }
        }
        seen = ncyc;

        // 2. the pending relations, decoded from their compact form
        let partials = guard("RelationSet::verif_partials", || rs.verif_partials())?;
        let doubles = guard("RelationSet::verif_doubles", || rs.verif_doubles())?;
        let rev = guard("RelationSet::verif_doubles_rev", || rs.verif_doubles_rev())?;
        let mut new_keys = 0;
        for (key, rel) in &partials {
            let old = prev_p.get(key);
            if old == Some(rel) {
                continue;
            }
            match old {
                None => new_keys += 1,
                Some(o) => {
                    if rel.cyclelen < o.cyclelen {
                        l.label("tree-replacement");
                        nontrivial = true;
                    }
                }
            }
            ensure!(
                rel.cofactor == *key,
                "RelationSet.partial|wrong-cofactor",
                "step {} ({}): partial[{}] decodes to cofactor {}: {}",
                step,
                op.kind,
                key,
                rel.cofactor,
                short(rel)
            );
            ensure!(
                is_congruence(&n, &rel.x, rel.cofactor, &rel.factors),
                "RelationSet.partial|not-a-congruence",
                "step {} ({}): partial[{}] is not a congruence modulo n={}: {}",
                step,
                op.kind,
                key,
                n,
                short(rel)
            );
        }
        if new_keys >= 2 {
            l.label("walk:>=2-new-partials-in-one-add");
        }
        if new_keys >= 3 {
            l.label("walk:>=3-new-partials-in-one-add");
        }
        let pkeys: std::collections::BTreeSet<u64> = partials.iter().map(|(k, _)| *k).collect();
        let mut mirror: Vec<(u32, u32)> = vec![];
        for ((p, q), rel) in &doubles {
            mirror.push((*q, *p));
            let (hp, hq) = (pkeys.contains(&(*p as u64)), pkeys.contains(&(*q as u64)));
            ensure!(
                !(hp && hq),
                "RelationSet.doubles|both-primes-pending",
                "step {} ({}): pending double ({}, {}) although both primes have partial relations",
                step,
                op.kind,
                p,
                q
            );
            if hp || hq {
                l.label("note:double-with-one-prime-pending");
            }
            if prev_d.get(&(*p, *q)) == Some(rel) {
                continue;
            }
            ensure!(
                p < q && rel.cofactor == *p as u64 * *q as u64,
                "RelationSet.doubles|wrong-cofactor",
                "step {} ({}): doubles[({}, {})] decodes to cofactor {}: {}",
                step,
                op.kind,
                p,
                q,
                rel.cofactor,
                short(rel)
            );
            ensure!(
                is_congruence(&n, &rel.x, rel.cofactor, &rel.factors),
                "RelationSet.doubles|not-a-congruence",
                "step {} ({}): doubles[({}, {})] is not a congruence modulo n={}: {}",
                step,
                op.kind,
                p,
                q,
                n,
                short(rel)
            );
        }
        mirror.sort();
        ensure!(
            mirror == rev,
            "RelationSet.doubles_rev|does-not-mirror-doubles",
            "step {} ({}): doubles keys mirrored = {:?} but doubles_rev = {:?}",
            step,
            op.kind,
            mirror,
            rev
        );
        if prev_d.len() >= doubles.len() + 2 {
            l.label("walk:>=2-doubles-consumed-in-one-add");
        }
        if !doubles.is_empty() {
            l.label("state:doubles-pending");
        }
        prev_p = partials.into_iter().collect();
        prev_d = doubles.into_iter().collect();
    }
    if nontrivial {
        l.label("history:nontrivial");
        l.nontrivial_of(&(c.n.digits(), &c.ops));
        l.sample("history:nontrivial", || {
            json!({"world": c.world, "ops": c.ops.len(), "published": rs.cycles.len(),
                   "kinds": c.ops.iter().take(40).map(|o| o.kind.as_str()).collect::<Vec<_>>()})
        });
    }
    if let Some(size) = c.final_fb {
        l.label("history:final_step");
        let rels = rs.cycles.clone();
        if rels.len() > c.fbsize + relations::MIN_KERNEL_SIZE {
            l.label("final:>fb+48-relations");
        }
        run_final(&n, 1, size, &rels, l)?;
    }
    Ok(())
}

// ---------------------------------------------------------------------------
// "final"

#[derive(Clone, Debug)]
enum FinalSpec {
    Roots {
        spec: WorldSpec,
        seeds: Vec<RelSeed>,
        /// 0: as generated, 1: every root of unity trivial (+-1), 2: x left unreduced (x + j n)
        mode: u8,
    },
    TinyQs {
        primes: Vec<u16>,
        /// n = p0^2 * p1 ..: a repeated prime factor
        square: bool,
        fb8: u32,
        span: u32,
        take: u16,
        /// index of the multiplier k (the relations are those of x^2 - k n)
        ksel: u8,
        /// also try the `mult` multiples of each prime factor of n nearest to sqrt(n) on either side
        /// (relations whose x shares a factor with n)
        mult: u8,
        /// also try x = n (only meaningful with a multiplier)
        x_eq_n: bool,
    },
}

fn tiny_primes() -> &'static [u32] {
    use std::sync::OnceLock;
    static P: OnceLock<Vec<u32>> = OnceLock::new();
    P.get_or_init(|| crate::oracle::int::ref_sieve(1600).into_iter().filter(|&p| p >= 3).collect())
}

fn build_final(fs: &FinalSpec) -> FinalCase {
    match fs {
        FinalSpec::Roots { spec, seeds, mode } => {
            let w = World::build(spec);
            let mut rels = vec![];
            for (i, s) in seeds.iter().enumerate() {
                let mut s = s.clone();
                if *mode == 1 {
                    s.omega = if s.omega & 1 == 0 { 0 } else { u32::MAX };
                }
                let mut r = make_rel(&w, &s, &[], false);
                if *mode == 2 && w.n.bits() <= 500 {
                    r.x = r.x + w.n * U1024::from((i as u64 * 7 + s.omega as u64) % 200);
                }
                rels.push(r);
            }
            FinalCase {
                world: format!("roots mode {}: {}", mode, describe(&w)),
                n: w.n,
                k: 1,
                fb_size: w.fb_size,
                rels,
            }
        }
        FinalSpec::TinyQs {
            primes,
            square,
            fb8,
            span,
            take,
            ksel,
            mult,
            x_eq_n,
        } => {
            let tp = tiny_primes();
            let mut ps: Vec<u32> = primes.iter().map(|&i| tp[pick_idx(i, tp.len())]).collect();
            if *square {
                ps[1] = ps[0];
            }
            const KS: [u32; 12] = [1, 1, 1, 1, 1, 3, 5, 7, 11, 13, 15, 21];
            let k = KS[*ksel as usize % KS.len()];
            let size = 8 * fb8;
            // domain: n exceeds the square of the factor base bound (as for every sieved number)
            let mut rng = SplitMix(crate::engine::hash64(&ps));
            loop {
                let n0: u64 = ps.iter().map(|&p| p as u64).product();
                let fb = emulate_fbase(|q| (n0 * k as u64) % q, size);
                let b = *fb.last().unwrap() as u64;
                if n0 > b * b {
                    break;
                }
                ps.push(tp[rng.below(tp.len() as u64) as usize]);
            }
            build_tiny(&ps, k, size, *span as i64, *take as usize, *mult as i64, *x_eq_n)
        }
    }
}

/// Tiny quadratic sieve by trial division: relations x^2 - k n over the emulated factor base of k n,
/// x around sqrt(k n) (the first `take` smooth ones among the offsets 0, -1, 1, .. +-span), plus the
/// `mult` multiples of each prime factor of n nearest to sqrt(k n) on either side, plus x = n itself.
fn build_tiny(ps: &[u32], k: u32, size: u32, span: i64, take: usize, mult: i64, x_eq_n: bool) -> FinalCase {
    let n0: u64 = ps.iter().map(|&p| p as u64).product();
    // the sieved number
    let n = n0 * k as u64;
    let fb = emulate_fbase(|q| n % q, size);
    let ts = (0..=2 * span).map(|i| if i % 2 == 0 { i / 2 } else { -(i + 1) / 2 });
    let mut found = qs_relations(n, &fb, ts);
    found.truncate(take);
    let s = crate::oracle::int::isqrt_u128(n as u128) as i64;
    let mut ts2: Vec<i64> = vec![];
    for &p in ps {
        let p = p as i64;
        let base = s - s % p; // multiple of p just below sqrt(n)
        for j in -mult + 1..=mult {
            ts2.push(base + j * p - s);
        }
    }
    if x_eq_n {
        ts2.push(n0 as i64 - s);
    }
    ts2.sort();
    ts2.dedup();
    if !ts2.is_empty() {
        for r in qs_relations(n, &fb, ts2.into_iter()) {
            if !found.iter().any(|f| f.x == r.x) {
                found.push(r);
            }
        }
        // deterministic interleaving so that the targeted relations are not all at the end
        found.sort_by_key(|r| crate::engine::hash64(&r.x));
    }
    FinalCase {
        world: format!(
            "tiny qs: n = {:?}, multiplier {}, fb size {}, offsets +-{}, {} multiples",
            ps, k, size, span, mult
        ),
        n: U1024::from(n0),
        k,
        fb_size: size,
        rels: found
            .into_iter()
            .map(|r| RelJ {
                x: U1024::from(r.x),
                cofactor: 1,
                cyclelen: 1,
                factors: r.factors,
            })
            .collect(),
    }
}

pub fn final_strategy() -> impl Strategy<Value = FinalCase> {
    let roots = (
        world_spec(),
        proptest::collection::vec(rel_seed(), 0..=110),
        prop_oneof![5 => Just(0u8), 1 => Just(1u8), 1 => Just(2u8)],
    )
        .prop_map(|(mut spec, seeds, mode)| {
            // keep the number of columns small enough for "more relations than primes" to occur
            spec.prime_bits.truncate(4);
            FinalSpec::Roots { spec, seeds, mode }
        });
    let tiny = (
        proptest::collection::vec(any::<u16>(), 2..=4),
        prop_oneof![2 => Just(false), 1 => Just(true)],
        1u32..=16,
        prop_oneof![1 => 1u32..=40, 3 => 40u32..=4000],
        prop_oneof![1 => 0u16..=12, 3 => 0u16..=140],
        any::<u8>(),
        prop_oneof![1 => Just(0u8), 2 => 1u8..=40],
        prop_oneof![3 => Just(false), 1 => Just(true)],
    )
        .prop_map(|(primes, square, fb8, span, take, ksel, mult, x_eq_n)| FinalSpec::TinyQs {
            primes,
            square,
            fb8,
            span,
            take,
            ksel,
            mult,
            x_eq_n,
        });
    prop_oneof![1 => roots, 1 => tiny].prop_map(|fs| build_final(&fs))
}

pub fn check_final(c: &FinalCase, l: &mut Local) -> Result<(), Fail> {
    valid_modulus(&c.n)?;
    let mut all_even = true;
    for (i, r) in c.rels.iter().enumerate() {
        if r.cofactor != 1 || r.x.bits() > 512 || !is_congruence(&c.n, &r.x, 1, &r.factors) {
            return Err(Fail::new("HARNESS|invalid-input", format!("relation {} is not a complete congruence: {:?}", i, r)));
        }
        if r.factors.iter().any(|&(_, k)| k % 2 == 1) {
            all_even = false;
        }
        if r.factors.iter().any(|&(p, _)| p > 0 && U1024::from(p as u64) >= c.n) {
            return Err(Fail::new("HARNESS|out-of-domain", format!("relation {} lists a prime >= n = {}", i, c.n)));
        }
    }
    l.case();
    let tiny = c.world.starts_with("tiny");
    l.label(if tiny { "final:tiny-qs" } else { "final:roots" });
    match c.rels.len() {
        0 => l.label("final:empty-set"),
        1..=8 => l.label("final:1..8-relations"),
        _ => {}
    }
    if c.rels.len() > 48 + 8 * ((c.fb_size as usize + 7) / 8) {
        l.label("final:>fb+48-relations");
    }
    if all_even && !c.rels.is_empty() {
        l.label("final:all-exponents-even");
    }
    if c.k > 1 {
        l.label("final:multiplier>1");
    }
    if c.rels.iter().any(|r| r.x >= c.n) {
        l.label("final:x-unreduced");
    }
    if c.rels.iter().any(|r| r.x == c.n) {
        l.label("final:x=n");
    }
    if c.world.starts_with("roots mode 1") {
        l.label("final:all-trivial");
    }
    if c.rels.len() >= 9 {
        l.nontrivial_of(&(c.n.digits(), &c.rels));
        l.sample(if tiny { "final:tiny-qs" } else { "final:roots" }, || {
            json!({"world": c.world, "relations": c.rels.len()})
        });
    }
    let rels: Vec<Relation> = c.rels.iter().map(|r| r.to_relation()).collect();
    run_final(&c.n, c.k, c.fb_size, &rels, l)
}

// ---------------------------------------------------------------------------
// "combine": the public building block of every cycle, in both argument orders

#[derive(Clone, Debug, Serialize, Deserialize)]
pub struct CombineCase {
    pub world: String,
    #[serde(with = "crate::ser::dec")]
    pub n: U1024,
    pub r1: RelJ,
    pub r2: RelJ,
}

pub fn combine_strategy() -> impl Strategy<Value = CombineCase> {
    (world_spec(), rel_seed(), rel_seed(), any::<u16>(), any::<u16>(), 0u8..4, any::<bool>()).prop_map(
        |(spec, s1, s2, a, b, shape, swap)| {
            let w = World::build(&spec);
            let np = w.larges.len();
            let (l1, l2): (Vec<usize>, Vec<usize>) = if np == 0 {
                (vec![], vec![])
            } else {
                let a = pick_idx(a, np);
                let b = if np >= 2 { (a + 1 + pick_idx(b, np - 1)) % np } else { a };
                match shape {
                    0 => (vec![a], vec![a]),       // two partials with the same prime
                    1 => (vec![a, b], vec![a]),    // double and one of its primes
                    2 => (vec![a, b], vec![b]),    // double and the other prime
                    _ => (vec![a, a], vec![a]),    // p = q double and its prime
                }
            };
            let (r1, r2) = (make_rel(&w, &s1, &l1, false), make_rel(&w, &s2, &l2, false));
            let (r1, r2) = if swap { (r2, r1) } else { (r1, r2) };
            CombineCase {
                world: describe(&w),
                n: w.n,
                r1,
                r2,
            }
        },
    )
}

pub fn check_combine(c: &CombineCase, l: &mut Local) -> Result<(), Fail> {
    valid_modulus(&c.n)?;
    for r in [&c.r1, &c.r2] {
        if r.cofactor == 0 || r.x >= c.n || !is_congruence(&c.n, &r.x, r.cofactor, &r.factors) {
            return Err(Fail::new("HARNESS|invalid-input", format!("not a congruence: {:?}", r)));
        }
    }
    let (big, small) = (c.r1.cofactor.max(c.r2.cofactor), c.r1.cofactor.min(c.r2.cofactor));
    if big % small != 0 {
        return Err(Fail::new("HARNESS|invalid-input", "one cofactor must divide the other"));
    }
    l.case();
    l.label(if c.r1.cofactor < c.r2.cofactor {
        "combine:r1<r2"
    } else if c.r1.cofactor > c.r2.cofactor {
        "combine:r1>r2"
    } else {
        "combine:equal"
    });
    l.nontrivial_of(&(c.n.digits(), &c.r1, &c.r2));
    let n = c.n;
    let rs = guard("RelationSet::new", || RelationSet::new(n, 8, u32::MAX as u64))?;
    let (r1, r2) = (c.r1.to_relation(), c.r2.to_relation());
    let rr = guard("RelationSet::combine", || rs.combine(&r1, &r2))?;
    ensure!(
        rr.cofactor == big / small,
        "RelationSet::combine|wrong-cofactor",
        "combine({}, {}) has cofactor {} instead of {}",
        short(&r1),
        short(&r2),
        rr.cofactor,
        big / small
    );
    ensure!(
        rr.x < c.n && is_congruence(&c.n, &rr.x, rr.cofactor, &rr.factors),
        "RelationSet::combine|not-a-congruence",
        "combine({}, {}) = {} is not a congruence modulo n={}",
        short(&r1),
        short(&r2),
        short(&rr),
        c.n
    );
    ensure!(
        rr.cyclelen == r1.cyclelen + r2.cyclelen,
        "RelationSet::combine|cyclelen",
        "combine({}, {}) has cyclelen {}",
        short(&r1),
        short(&r2),
        rr.cyclelen
    );
    Ok(())
}

// ---------------------------------------------------------------------------
// "pack"

pub fn pack_strategy() -> impl Strategy<Value = PackCase> {
    let prime = prop_oneof![
        2 => Just(-1i64),
        2 => Just(2i64),
        4 => (1i64..(1 << 12)).prop_map(|x| 2 * x + 1),
        // around the 7-bit group boundaries of the variable-length encoding (p and 2p)
        4 => (0u32..5, 0i64..6, any::<bool>()).prop_map(|(g, d, up)| {
            let b = 1i64 << (6 + 7 * g);
            let v = if up { b + d } else { b - d };
            (v | 1).clamp(3, (1 << 32) - 1)
        }),
        2 => (0i64..64).prop_map(|d| (1i64 << 32) - 1 - 2 * d),
        2 => (3i64..(1 << 32)).prop_map(|x| x | 1),
    ];
    let exp = prop_oneof![
        6 => Just(1u64),
        3 => 2u64..=5,
        2 => (0u32..9, 0u64..3, any::<bool>()).prop_map(|(g, d, up)| {
            let b = 1u64 << (7 * (g + 1));
            (if up { b + d } else { b - d - 1 }).max(1)
        }),
        1 => edgy64().prop_map(|x| x.max(1)),
    ];
    (
        edgy::<16>(512),
        prop_oneof![2 => Just(1u64), 3 => edgy64().prop_map(|x| x.max(1)), 2 => 3u64..(1 << 32)],
        prop_oneof![3 => 1u64..=9, 1 => edgy64().prop_map(|x| x.max(1))],
        proptest::collection::vec((prime, exp), 0..=40),
    )
        .prop_map(|(x, cofactor, cyclelen, factors)| PackCase {
            rel: RelJ {
                x,
                cofactor,
                cyclelen,
                factors,
            },
        })
}

pub fn check_pack(c: &PackCase, l: &mut Local) -> Result<(), Fail> {
    let r = c.rel.to_relation();
    l.case();
    if r.factors.iter().any(|&(p, k)| p == -1 && k % 2 == 0) {
        l.label("pack:even-sign");
    }
    if r.factors.iter().any(|&(p, k)| p == 2 && k > 1) {
        l.label("pack:2^k");
    }
    if r.factors.iter().any(|&(p, k)| p > (1 << 31) && k > 1) {
        l.label("pack:p>2^31,k>1");
    }
    if r.x.bits() > 448 {
        l.label("pack:x>448bits");
    }
    if r.factors.len() >= 2 {
        l.nontrivial_of(&c.rel);
        l.sample("pack", || serde_json::to_value(c).unwrap());
    }
    check_roundtrip(&r, "generated")
}

// ---------------------------------------------------------------------------
// "published": observer on real sieve runs

#[derive(Default)]
struct Collector {
    moduli: Vec<U1024>,
    total: u64,
    by_len: [u64; 4],
    bad: Vec<String>,
    bad_class: Option<&'static str>,
}

thread_local! {
    static COLLECT: RefCell<Option<Collector>> = RefCell::new(None);
}

/// Installed in `yamaquasi::verif_hooks`: called from `RelationSet::add_cycle` on the thread that adds.
fn relation_sink(n: &Uint, r: &Relation) {
    COLLECT.with(|c| {
        if let Some(col) = c.borrow_mut().as_mut() {
            if !col.moduli.contains(n) {
                col.moduli.push(*n);
            }
            col.total += 1;
            col.by_len[(r.cyclelen.clamp(1, 4) - 1) as usize] += 1;
            let class = if r.cofactor != 1 {
                Some("published-with-cofactor")
            } else if n.bits() > 512 || !is_congruence(n, &r.x, 1, &r.factors) {
                Some("published-not-a-congruence")
            } else {
                None
            };
            if let Some(cl) = class {
                if col.bad.len() < 3 {
                    col.bad.push(format!("modulo {}: {}", n, short(r)));
                }
                col.bad_class.get_or_insert(cl);
            }
        }
    });
}

fn install_sink() {
    yamaquasi::verif_hooks::set_relation_sink(Some(relation_sink));
}

pub fn published_strategy(max_bits: u32) -> impl Strategy<Value = PublishedCase> {
    (
        prop_oneof![Just("qs"), Just("mpqs"), Just("siqs")],
        // total size and balance
        prop_oneof![2 => 60u32..=96, 3 => 97u32..=max_bits],
        0u32..=8,
        0u32..6,
        0u32..6,
        prop_oneof![2 => Just(None), 2 => Just(Some(true)), 1 => Just(Some(false))],
        prop_oneof![3 => Just(None), 1 => (2u64..=60).prop_map(Some)],
    )
        .prop_map(|(alg, bits, skew, idx_p, idx_q, use_double, large_factor)| {
            let bits_p = (bits / 2).saturating_sub(skew).max(24);
            PublishedCase {
                alg: alg.to_string(),
                bits_p,
                idx_p,
                bits_q: bits - bits_p,
                idx_q: if bits - bits_p == bits_p && idx_q == idx_p { idx_q + 1 } else { idx_q },
                use_double,
                large_factor,
            }
        })
}

pub fn check_published(c: &PublishedCase, l: &mut Local) -> Result<(), Fail> {
    let alg = match c.alg.as_str() {
        "qs" => Algo::Qs,
        "mpqs" => Algo::Mpqs,
        "siqs" => Algo::Siqs,
        _ => return Err(Fail::new("HARNESS|bad-alg", c.alg.clone())),
    };
    if c.bits_p < 24 || c.bits_q < 24 || c.bits_p + c.bits_q > 160 {
        return Err(Fail::new("HARNESS|out-of-domain", "prime sizes must be >= 24 bits, n <= 160 bits"));
    }
    let (p, q) = (certified_prime(c.bits_p, c.idx_p), certified_prime(c.bits_q, c.idx_q));
    if p == q {
        return Err(Fail::new("HARNESS|out-of-domain", "p = q"));
    }
    let n = p * q;
    let mut prefs = Preferences::default();
    prefs.verbosity = Verbosity::Silent;
    prefs.threads = None; // the sieve then runs (and publishes) on this thread
    prefs.use_double = c.use_double;
    prefs.large_factor = c.large_factor;
    install_sink();
    COLLECT.with(|col| *col.borrow_mut() = Some(Collector::default()));
    let entry = format!("factor({})", c.alg);
    let res = crate::engine::catch(|| yamaquasi::factor(n, alg, &prefs));
    let col = COLLECT.with(|col| col.borrow_mut().take()).unwrap_or_default();
    l.case();
    l.label(&format!("real:{}", c.alg));
    l.label_n("real:published", col.total);
    l.label_n("real:cycle-len1", col.by_len[0]);
    l.label_n("real:cycle-len2", col.by_len[1]);
    l.label_n("real:cycle-len3", col.by_len[2]);
    l.label_n("real:cycle-len>=4", col.by_len[3]);
    if col.by_len[1] > 0 {
        l.label("real:run-with-single-large-primes");
    }
    if col.by_len[2] + col.by_len[3] > 0 {
        l.label("real:run-with-double-large-primes");
    }
    if col.total > 0 {
        l.nontrivial_of(&(c.alg.as_str(), n.digits(), c.use_double, c.large_factor));
        l.sample(&format!("real:{}", c.alg), || {
            json!({"case": c, "n": n.to_string(), "published": col.total, "by_cyclelen": col.by_len})
        });
    }
    // the store's modulus is n*k for a multiplier k < 200
    for m in &col.moduli {
        if !(*m % n).is_zero() || (*m / n) >= U1024::from(200u64) {
            return Err(Fail::new(
                "HARNESS|sink-confusion",
                format!("observed a relation store for modulus {} while factoring {}", m, n),
            ));
        }
    }
    if let Some(cl) = col.bad_class {
        return Err(Fail::new(
            format!("{}|{}", entry, cl),
            format!("factoring n={} = {}*{}: {} published relation(s) fail: {}", n, p, q, col.bad.len(), col.bad.join(" ; ")),
        ));
    }
    match res {
        Ok(_) => Ok(()),
        Err(pi) => {
            // a panic inside the relation store / final step on a real history is C11's; anything else
            // (sieve set-up, parameters) is decided by C03
            let loc = pi.short_loc();
            if loc.starts_with("src/relations.rs") || loc.starts_with("src/matrix/gf2.rs") {
                Err(Fail::new(
                    format!("{}|panic@{}", entry, loc),
                    format!("factoring n={}: panic at {}: {}", n, pi.loc, crate::engine::truncate(&pi.msg, 300)),
                ))
            } else {
                l.label("real:panic-outside-relations(C03)");
                Ok(())
            }
        }
    }
}

// ---------------------------------------------------------------------------
// fixed parts

fn fixed_pack_cases() -> Vec<PackCase> {
    let mk = |x: U1024, cofactor: u64, cyclelen: u64, factors: Vec<(i64, u64)>| PackCase {
        rel: RelJ {
            x,
            cofactor,
            cyclelen,
            factors,
        },
    };
    let top = (U1024::ONE << 512) - U1024::ONE;
    vec![
        mk(U1024::ZERO, 1, 1, vec![]),
        mk(top, u64::MAX, u64::MAX, vec![(-1, 1), (2, 1), (2, 2), (3, 1), (4294967291, 1), (4294967291, 2)]),
        mk(U1024::ONE << 511, 1 << 63, 1 << 63, vec![(-1, 2), (-1, 3), (2, u64::MAX), (127, 127), (129, 128), (16383, 16384)]),
        mk(U1024::from(u64::MAX), 127, 128, vec![(2, 17), (3, 5), (5, 1), (9109, 1), (9173, 2), (9241, 3), (3879645, 1)]),
        mk(U1024::from(1u64), 128, 127, vec![(2147483647, 2), (2147483649, 2), (2147483647, 1), (63, 1), (65, 1), (8191, 3)]),
    ]
}

/// golden histories on a fixed world: every shape of the cycle builder at least once
fn fixed_histories() -> Vec<HistoryCase> {
    let spec = WorldSpec {
        prime_bits: vec![31, 33],
        seed: 11,
        class: 0,
        fb_size: 16,
        pool: 6,
        maxlarge_mode: 0,
        lf: 300,
    };
    let s = |k: u64| seed_from(&mut SplitMix(k));
    let mut out = vec![];
    // double before both primes, then the primes
    out.push(build_history(
        &spec,
        &[
            OpSpec::Double(0, 0, false, s(1)),
            OpSpec::Single(0, s(2)),
            OpSpec::Single(20000, s(3)),
            OpSpec::Complete(s(4)),
        ],
        true,
    ));
    // chains in the three orders, root first / last
    for (order, seed) in [(0u8, 2u64), (1, 3), (2, 4), (0, 5), (1, 6), (2, 7)] {
        out.push(build_history(
            &spec,
            &[
                OpSpec::Chain {
                    start: 0,
                    len: 5,
                    root: seed as u8,
                    order,
                    seed,
                },
                OpSpec::Single(65535, s(seed)),
                OpSpec::Square(1, s(seed + 1)),
                OpSpec::Dup(0),
                OpSpec::Trivial(1, 1),
            ],
            false,
        ));
    }
    out
}

fn fixed_final_cases() -> Vec<FinalCase> {
    let spec = WorldSpec {
        prime_bits: vec![24, 27],
        seed: 5,
        class: 0,
        fb_size: 16,
        pool: 2,
        maxlarge_mode: 0,
        lf: 10,
    };
    let mut rng = SplitMix(99);
    let mut out = vec![];
    for (count, mode) in [(0usize, 0u8), (1, 0), (3, 0), (70, 0), (70, 1), (70, 2)] {
        let seeds = (0..count).map(|_| seed_from(&mut rng)).collect();
        out.push(build_final(&FinalSpec::Roots {
            spec: spec.clone(),
            seeds,
            mode,
        }));
    }
    // x = n is a relation of x^2 - 15 n for n = 455 = 5*7*13 (0 = 0 modulo n)
    out.push(build_tiny(&[5, 7, 13], 15, 8, 40, 60, 6, true));
    // F5 as found through factor(): n = 211^2 * 317, multiplier 5
    out.push(build_tiny(&[211, 211, 317], 5, 64, 3000, 200, 40, false));
    out
}

fn run(ctx: &Ctx) {
    ctx.set_rule(
        "history: proptest strategy over (synthetic modulus n = P1..Pm with known square roots of -1, of factor-base primes and \
         of a pool of 2..12 large primes; Vec<Op> of <= 160 ops: complete / single / double (either order of p,q) / p=q / \
         duplicate / trivial pair / chain macro-ops) interpreted by RelationSet::add, invariants after every step; \
         final: valid relation sets of 0..110 relations (known-roots world, tiny trial-division quadratic sieve) handed to \
         final_step; pack: arbitrary in-domain relations through the compact encoding; published: real Qs/Mpqs/Siqs runs \
         on 60..130-bit semiprimes observed through the relation sink. Non-trivial: history publishing a cycle of length >= 3 \
         or replacing a spanning-tree path (distinct by (n, ops)); final with >= 9 relations; pack with >= 2 factors; real run \
         publishing >= 1 relation.",
    );
    ctx.assume("bnum 0.8 integer arithmetic (+ - * / %) and native u128 arithmetic are correct");
    ctx.assume("relations fed to the store satisfy the callers' contract: x < n, cyclelen 1, factors -1/2/odd < 2^24 with k > 0, single cofactor <= maxlarge, pq = Some((p,q)) with p*q = cofactor and p,q <= maxlarge < 2^32");
    ctx.assume("final_step: n odd, 2..512 bits; a prime with an odd exponent belongs to FBase::new(n, size)");
    if let Err(e) = crate::oracle::rel::self_test() {
        ctx.selfcheck_failed(&format!("oracle::rel self-test: {}", e));
        return;
    }

    // fixed part
    let mut l = Local::new();
    for c in fixed_pack_cases() {
        ctx.fixed_case("pack", &c, &mut l, check_pack);
    }
    for c in fixed_histories() {
        ctx.fixed_case("history", &c, &mut l, check_history);
    }
    for c in fixed_final_cases() {
        ctx.fixed_case("final", &c, &mut l, check_final);
    }
    ctx.merge(l);

    // generated part (YQV_C11_ONLY=<check> restricts it, for development and timing only)
    let only = std::env::var("YQV_C11_ONLY").ok();
    let on = |name: &str| only.as_deref().map(|o| o == name).unwrap_or(true);
    let t0 = ctx.elapsed();
    let max_ops = ctx.pick(160usize, 400);
    if on("history") {
        ctx.par_prop("history", 32, ctx.n(10_000, 600_000), || history_strategy(max_ops), check_history);
    }
    let t1 = ctx.elapsed();
    if on("final") {
        ctx.par_prop("final", 32, ctx.n(12_000, 1_000_000), final_strategy, check_final);
    }
    let t2 = ctx.elapsed();
    if on("combine") {
        ctx.par_prop("combine", 16, ctx.n(20_000, 1_000_000), combine_strategy, check_combine);
    }
    let t2b = ctx.elapsed();
    if on("pack") {
        ctx.par_prop("pack", 16, ctx.n(60_000, 10_000_000), pack_strategy, check_pack);
    }
    let t3 = ctx.elapsed();
    let max_bits = ctx.pick(112u32, 130);
    if on("published") {
        install_sink();
        ctx.par_prop("published", 32, ctx.n(400, 20_000), || published_strategy(max_bits), check_published);
        yamaquasi::verif_hooks::set_relation_sink(None);
    }
    let t4 = ctx.elapsed();
    ctx.extra(
        "wall_by_check_s",
        json!({"history": t1 - t0, "final": t2 - t1, "combine": t2b - t2, "pack": t3 - t2b, "published": t4 - t3}),
    );
    if only.is_some() {
        return; // no vacuity floors for a partial run
    }

    for (e, min) in [
        ("history:nontrivial", 50),
        ("cycle:len2", 50),
        ("cycle:len3", 50),
        ("cycle:len>=4", 50),
        ("tree-replacement", 10),
        ("walk:>=2-new-partials-in-one-add", 10),
        ("op:p=q", 10),
        ("op:dup", 10),
        ("op:trivial", 10),
        ("history:final_step", 10),
        ("final:empty-set", 1),
        ("final:all-trivial", 5),
        ("final:divisors", 20),
        ("final:tiny-qs", 20),
        ("combine:r1<r2", 100),
        ("combine:r1>r2", 100),
        ("combine:equal", 100),
        ("pack:even-sign", 10),
        ("pack:2^k", 10),
        ("real:published", 500),
        ("real:run-with-single-large-primes", 2),
        ("real:run-with-double-large-primes", 1),
    ] {
        ctx.essential(e, min);
    }
}

fn replay(_ctx: &Ctx, check_name: &str, case: &Value) -> Result<(), Fail> {
    match check_name {
        "history" => replay_as::<HistoryCase>(case, check_history),
        "final" => replay_as::<FinalCase>(case, check_final),
        "pack" => replay_as::<PackCase>(case, check_pack),
        "combine" => replay_as::<CombineCase>(case, check_combine),
        "published" => replay_as::<PublishedCase>(case, check_published),
        _ => Err(Fail::new("HARNESS|unknown-check", check_name.to_string())),
    }
}

// ---------------------------------------------------------------------------
// Byte-level decoder for the libFuzzer target fz_rel (hand-written: the proptest strategy above
// forks its RNG per element, which proptest's PassThrough RNG cannot sustain).

/// bytes -> (world, op specs) -> history, through the same `build_history` as the strategy.
pub fn history_from_bytes(data: &[u8]) -> Option<HistoryCase> {
    let mut r = crate::fuzzdec::Reader::new(data);
    let np = 2 + (r.u8()? % 7) as usize;
    let mut prime_bits = vec![];
    for _ in 0..np {
        prime_bits.push(16 + (r.u8()? % 47) as u32);
    }
    let spec = WorldSpec {
        prime_bits,
        seed: r.u64(),
        class: r.u8()? % 3,
        fb_size: 8 * (1 + (r.u8()? % 8) as u32),
        pool: 2 + (r.u8()? % 11) as usize,
        maxlarge_mode: r.u8()? % 3,
        lf: 2 + (r.u64() % 399) as u32,
    };
    let fin = r.u8()? % 4 == 0;
    let u16_ = |r: &mut crate::fuzzdec::Reader| -> u16 { (r.u8().unwrap_or(0) as u16) | ((r.u8().unwrap_or(0) as u16) << 8) };
    let seed = |r: &mut crate::fuzzdec::Reader| -> RelSeed {
        let flags = r.u8().unwrap_or(0);
        let k = (flags & 7).min(6) as usize;
        let mut exps = vec![];
        for _ in 0..k {
            let i = u16_(r);
            let e = match r.u8().unwrap_or(0) % 10 {
                0..=5 => 1,
                6 | 7 => 2,
                8 => 3,
                _ => 4 + (i % 17) as u8,
            };
            exps.push((i, e));
        }
        RelSeed {
            exps,
            sign: flags & 8 != 0,
            omega: match (flags >> 4) & 3 {
                0 => 0,
                1 => u32::MAX,
                _ => r.u64() as u32,
            },
            tail: flags & 64 != 0,
            sq_large: None,
            sign2: false,
        }
    };
    let mut specs = vec![];
    while r.rest() > 0 && specs.len() < 64 {
        let op = r.u8()?;
        specs.push(match op % 16 {
            0..=2 => OpSpec::Complete(seed(&mut r)),
            3..=6 => OpSpec::Single(u16_(&mut r), seed(&mut r)),
            7..=11 => OpSpec::Double(u16_(&mut r), u16_(&mut r), op & 16 != 0, seed(&mut r)),
            12 => OpSpec::Square(u16_(&mut r), seed(&mut r)),
            13 => OpSpec::Dup(u16_(&mut r)),
            14 => OpSpec::Trivial(u16_(&mut r), r.u64() as u32),
            _ => OpSpec::Chain { start: u16_(&mut r), len: 2 + (op >> 4) % 6, root: r.u8().unwrap_or(0), order: r.u8().unwrap_or(0) % 3, seed: r.u64() },
        });
    }
    if specs.is_empty() {
        return None;
    }
    Some(build_history(&spec, &specs, fin))
}
