//! C05 — an abort request stops work promptly and still yields a consistent answer
//! (DESIGN.md C05): fault enumeration over the instant at which the abort predicate flips.
//!
//! The predicate is a deterministic counter fault: it returns true from its k-th poll
//! onward (monotone).  For small inputs a calibration run counts the polls P of an
//! un-aborted run and every k in [0, min(P, 64)] plus generated k in (64, P] is run; for
//! "long" inputs (whose un-aborted run takes minutes) early k are run, where ignoring the
//! predicate is observable as latency.  Oracle: Ok(list) with product n (composite entries
//! allowed) or Err(FactoringFailure); no panic/abort; return within DELTA after the first
//! `true`.

use serde_json::{json, Value};

use crate::engine::{Ctx, Fail, Local, PropDef};
use crate::oracle::int::{certified_prime, SplitMix, U1024};
use crate::props::factoring::*;
use crate::worker::{run_jobs, JobResult};

pub const DEF: PropDef = PropDef {
    id: "C05",
    level: "fault_enumeration",
    chk_child: false,
    run,
    replay,
};

/// bounded delay after the first `true` (seconds).  All units of work between two polls
/// (one SIQS `A`, one MPQS polynomial batch, one QS large block, one ECM curve) take well
/// under a second at the sizes used here.
const DELTA_S: f64 = 10.0;
const ALGOS_POLLING: [&str; 6] = ["qs", "mpqs", "siqs", "ecm", "ecm128", "auto"];

struct Run {
    case: FCase,
    resp: JobResult,
}

fn lat_ms(r: &JobResult) -> Option<f64> {
    match r {
        JobResult::Resp(v) => v["lat_ms"].as_f64(),
        _ => None,
    }
}

fn polls(r: &JobResult) -> u64 {
    match r {
        JobResult::Resp(v) => v["polls"].as_u64().unwrap_or(0),
        _ => 0,
    }
}

/// consistency part of the oracle
fn judge_consistency(c: &FCase, o: &Outcome) -> Result<(), Fail> {
    let entry = format!("factor[{}]+abort", c.algo);
    match o {
        Outcome::Ok(fs) => product_predicate(&c.n, fs, &entry),
        Outcome::Err => Ok(()),
        Outcome::Panic { msg, loc, .. } => Err(Fail::new(
            format!("{}|panic@{}", entry, loc),
            format!("factor({}, {}) with abort after {:?} polls panicked at {}: {}", c.n, c.algo, c.prefs.abort_after, loc, msg),
        )),
        Outcome::Died(s) => Err(Fail::new(
            format!("{}|process-died", entry),
            format!("factor({}, {}) with abort after {:?} polls killed the process: {}", c.n, c.algo, c.prefs.abort_after, s),
        )),
        Outcome::Timeout | Outcome::Bad(_) => Ok(()),
    }
}

fn too_slow(r: &JobResult) -> bool {
    match r {
        JobResult::Timeout => true,
        _ => lat_ms(r).map(|l| l > DELTA_S * 1e3).unwrap_or(false),
    }
}

fn exec(profile: &str, cases: &[FCase], nworkers: usize, watchdog: f64) -> Vec<Run> {
    let jobs: Vec<Value> = cases.iter().map(|c| c.job()).collect();
    let res = run_jobs(profile, &jobs, nworkers, &|_| watchdog).unwrap_or_default();
    cases
        .iter()
        .cloned()
        .zip(res.into_iter().chain(std::iter::repeat(JobResult::Died("no worker".into()))))
        .map(|(case, resp)| Run { case, resp })
        .collect()
}

/// Judge one batch: consistency for every run; latency candidates are re-run alone
/// (nothing else running) and flagged only if they are slow three times in a row.
fn judge_batch(ctx: &Ctx, runs: &[Run], watchdog: f64, l: &mut Local, long: bool) {
    let mut slow = vec![];
    for r in runs {
        let o = Outcome::from_job(&r.resp);
        l.case();
        l.label(&format!("algo:{}", r.case.algo));
        l.label(&format!("outcome:{}", o.tag()));
        if r.case.prefs.threads.unwrap_or(1) > 1 {
            l.label("threads>1");
        }
        if let Outcome::Ok(fs) = &o {
            if !r.case.factors.is_empty() && *fs != r.case.factors {
                l.label("returned:partial-or-composite");
            } else {
                l.label("returned:complete");
            }
        }
        if let Some(lat) = lat_ms(&r.resp) {
            l.label("abort-fired");
            if lat < 10.0 {
                l.label("latency:<10ms");
            } else if lat < 1000.0 {
                l.label("latency:<1s");
            } else {
                l.label("latency:>=1s");
            }
        }
        if let Err(f) = judge_consistency(&r.case, &o) {
            ctx.violation("abort@opt", &f, serde_json::to_value(&r.case).unwrap());
        }
        if too_slow(&r.resp) {
            slow.push(r.case.clone());
        }
    }
    // latency candidates: repeat alone
    let mut seen = std::collections::BTreeSet::new();
    for c in slow {
        if !seen.insert((c.algo.clone(), c.prefs.threads)) || seen.len() > 6 {
            continue; // one representative per (selector, threads) is enough
        }
        let mut all_slow = true;
        for _ in 0..2 {
            let again = exec("opt", &[c.clone()], 1, watchdog);
            if !too_slow(&again[0].resp) {
                all_slow = false;
                break;
            }
        }
        if all_slow {
            let f = Fail::new(
                format!("factor[{}]+abort|latency", c.algo),
                format!(
                    "factor({}, {}, threads={:?}) did not return within {} s after the abort predicate became true at poll {:?} (3 runs, last two alone on the machine){}",
                    c.n,
                    c.algo,
                    c.prefs.threads,
                    DELTA_S,
                    c.prefs.abort_after,
                    if long { "; the un-aborted run takes minutes" } else { "" }
                ),
            );
            ctx.violation("abort@opt", &f, serde_json::to_value(&c).unwrap());
        } else {
            l.label("latency-retry-passed");
        }
    }
}

fn long_inputs(quick: bool) -> Vec<FCase> {
    let mut out = vec![];
    let mk = |algo: &str, b1: u32, b2: u32, i: u32, threads: Option<usize>| {
        let mut c = mk_case("long-semiprime", vec![certified_prime(b1, i), certified_prime(b2, i + 1)], algo, PrefSpec::default());
        c.prefs.threads = threads;
        c
    };
    let reps = if quick { 1 } else { 3 };
    for i in 0..reps {
        for th in [None, Some(4)] {
            out.push(mk("qs", 95, 96, i, th));
            out.push(mk("mpqs", 105, 106, i, th));
            out.push(mk("siqs", 125, 126, i, th));
            out.push(mk("ecm", 75, 76, i, th));
            out.push(mk("auto", 150, 151, i, th));
        }
        out.push(mk("ecm128", 63, 64, i, None));
    }
    out
}

fn run(ctx: &Ctx) {
    ctx.set_rule(
        "counter fault on the abort predicate (true from its k-th poll onward, monotone). Small inputs: proptest-generated \
         composites (incl. >= 3 prime factors so that the divisor recursion is interrupted) on Qs/Mpqs/Siqs/Ecm/Ecm128/Auto with \
         threads in {None,4}; a calibration run counts the polls P; every k in [0,min(P,64)] and generated k in (64,P] is run. \
         Long inputs (two 95..150-bit primes, un-aborted run takes minutes) with k in 0..=6. The non-polling selectors get k = 0. \
         Non-trivial = the predicate flipped while work remained (k < P, or long input); distinct by (n, selector, threads, k).",
    );
    ctx.assume("the abort predicate is monotone (once true, always true), like the deadline used by the only in-tree caller");
    ctx.assume(&format!("bounded delay = {} s after the first true; a slow run is repeated alone and flagged only if slow three times in a row", DELTA_S));
    ctx.assume("P-1 (pm1_quick), rho, squfof, qsieve64 and the linear algebra step do not poll; at the sizes used they are bounded well below the delay");
    let quick = ctx.quick();
    let mut l = Local::new();

    // ---- small inputs: calibrate, then enumerate flip instants
    let per = ctx.n(20, 400) as usize;
    let mut calib: Vec<FCase> = vec![];
    for (i, a) in ALGOS_POLLING.iter().enumerate() {
        let strat = case_strategy(a, true, false);
        let cases = ctx.sample_strategy("abort@opt", i as u64, &strat, per * 3);
        let mut kept = 0;
        // after an abort Algo::Ecm still walks its whole (B1,B2) schedule, building each smoothness base
        // (about 3.5 s of CPU on this machine): keep the number of ECM runs small
        let per = if *a == "ecm" { (per / 4).max(3) } else { per };
        for mut c in cases {
            if c.n.bits() > 120 || !is_nontrivial(&c) {
                continue;
            }
            for th in [None, Some(4usize)] {
                if th.is_some() && *a == "ecm128" {
                    continue;
                }
                c.prefs = PrefSpec { threads: th, count_polls: true, ..PrefSpec::default() };
                calib.push(c.clone());
            }
            kept += 1;
            if kept >= per {
                break;
            }
        }
    }
    let cal = exec("opt", &calib, workers(), 300.0);
    let mut runs: Vec<FCase> = vec![];
    let mut rng = SplitMix(crate::engine::hash64(&(ctx.seed, "c05-k")));
    let mut max_unaborted_ms: f64 = 0.0;
    for r in &cal {
        let p = polls(&r.resp);
        l.case();
        l.label("calibration-run");
        if let JobResult::Resp(v) = &r.resp {
            max_unaborted_ms = max_unaborted_ms.max(v["ms"].as_f64().unwrap_or(0.0));
        }
        if p == 0 {
            l.label("calibration:no-poll");
        }
        let mut ks: Vec<u64> = (0..=p.min(64)).collect();
        // the last instants: a flip after the sieve's last poll lands in the linear algebra / the cofactor loop
        ks.extend(p.saturating_sub(6)..=p);
        for _ in 0..16 {
            if p > 64 {
                ks.push(65 + rng.below(p - 64));
            }
        }
        if r.case.algo == "ecm" {
            ks.retain(|&k| matches!(k, 0 | 1 | 2 | 3 | 5 | 8 | 13 | 21 | 34 | 55) || k + 1 >= p);
        }
        ks.sort();
        ks.dedup();
        for k in ks {
            let mut c = r.case.clone();
            c.prefs.count_polls = false;
            c.prefs.abort_after = Some(k);
            if k < p {
                l.nontrivial(crate::engine::hash64(&(c.key(), k)));
                l.label("flip-while-work-remained");
                l.sample(&format!("small:{}", c.algo), || json!({"case": c, "polls_unaborted": p}));
            } else {
                l.label("flip-after-last-poll");
            }
            runs.push(c);
        }
    }
    let watchdog = (max_unaborted_ms / 1e3) * 4.0 + DELTA_S + 30.0;
    let res = exec("opt", &runs, workers(), watchdog);
    judge_batch(ctx, &res, watchdog, &mut l, false);

    // non-polling selectors: predicate already true before the call
    let mut np = vec![];
    for (i, a) in ["rho", "squfof", "qs64", "pm1"].iter().enumerate() {
        let strat = case_strategy(a, true, false);
        for mut c in ctx.sample_strategy("abort@opt", 100 + i as u64, &strat, ctx.n(60, 2000) as usize) {
            c.prefs.abort_after = Some(0);
            np.push(c);
        }
    }
    let res = exec("opt", &np, workers(), 120.0);
    judge_batch(ctx, &res, 120.0, &mut l, false);

    // ---- long inputs: ignoring the predicate is observable
    let mut longs = vec![];
    for c in long_inputs(quick) {
        for k in 0..=ctx.pick(4u64, 8) {
            if c.algo == "ecm" && k % 2 == 1 {
                continue;
            }
            let mut c = c.clone();
            c.prefs.abort_after = Some(k);
            l.nontrivial(crate::engine::hash64(&(c.key(), k, "long")));
            l.label("long-input");
            l.sample(&format!("long:{}", c.algo), || serde_json::to_value(&c).unwrap());
            longs.push(c);
        }
    }
    // few workers: these runs are CPU heavy until the k-th poll and threads=4 cases need cores
    let res = exec("opt", &longs, 6, 180.0);
    judge_batch(ctx, &res, 180.0, &mut l, true);

    ctx.merge(l);
    ctx.essential("flip-while-work-remained", 200);
    ctx.essential("abort-fired", 200);
    ctx.essential("long-input", 20);
    ctx.essential("threads>1", 50);
}

fn replay(_ctx: &Ctx, _check: &str, case: &Value) -> Result<(), Fail> {
    let c: FCase = serde_json::from_value(case.clone()).map_err(|e| Fail::new("HARNESS|bad-replay-file", e.to_string()))?;
    for _ in 0..3 {
        let r = exec("opt", &[c.clone()], 1, 180.0);
        let o = Outcome::from_job(&r[0].resp);
        judge_consistency(&c, &o)?;
        if !too_slow(&r[0].resp) {
            return Ok(());
        }
    }
    Err(Fail::new(
        format!("factor[{}]+abort|latency", c.algo),
        format!("factor({}, {}) did not return within {} s after the abort predicate became true (3 runs)", c.n, c.algo, DELTA_S),
    ))
}
