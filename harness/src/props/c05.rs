//! C05 — an abort request stops work promptly and still yields a consistent answer
//! (DESIGN.md C05): fault enumeration over the instant at which the abort predicate flips.
//!
//! The predicate is a deterministic counter fault: it returns true from its k-th poll
//! onward (monotone).  For small inputs a calibration run counts the polls P of an
//! un-aborted run and every k in [0, min(P, 64)] plus generated k in (64, P] is run; for
//! "long" inputs (whose un-aborted run takes minutes) early k are run, where ignoring the
//! predicate is observable as latency.  Oracle: Ok(list) with product n (composite entries
//! allowed) or Err(FactoringFailure); no panic/abort; return within DELTA after the first
//! `true`.

use serde::{Deserialize, Serialize};
use serde_json::{json, Value};

use crate::engine::{catch, Ctx, Fail, Local, PanicInfo, PropDef};
use crate::props::c18::{strategy_big, ClsCase};
use crate::oracle::int::{certified_prime, SplitMix, U1024};
use crate::props::factoring::*;
use crate::worker::{run_jobs, JobResult};

pub const DEF: PropDef = PropDef {
    id: "C05",
    level: "fault_enumeration",
    chk_child: false,
    run,
    replay,
};

/// bounded delay after the first `true` (seconds).  All units of work between two polls
/// (one SIQS `A`, one MPQS polynomial batch, one QS large block, one ECM curve) take well
/// under a second at the sizes used here.
const DELTA_S: f64 = 10.0;
const ALGOS_POLLING: [&str; 6] = ["qs", "mpqs", "siqs", "ecm", "ecm128", "auto"];

struct Run {
    case: FCase,
    resp: JobResult,
}

fn lat_ms(r: &JobResult) -> Option<f64> {
    match r {
        JobResult::Resp(v) => v["lat_ms"].as_f64(),
        _ => None,
    }
}

fn polls(r: &JobResult) -> u64 {
    match r {
        JobResult::Resp(v) => v["polls"].as_u64().unwrap_or(0),
        _ => 0,
    }
}

/// consistency part of the oracle
fn judge_consistency(c: &FCase, o: &Outcome) -> Result<(), Fail> {
    let entry = format!("factor[{}]+abort", c.algo);
    match o {
        Outcome::Ok(fs) => product_predicate(&c.n, fs, &entry),
        Outcome::Err => Ok(()),
        Outcome::Panic { msg, loc, .. } => Err(Fail::new(
            format!("{}|panic@{}", entry, loc),
            format!("factor({}, {}) with abort after {:?} polls panicked at {}: {}", c.n, c.algo, c.prefs.abort_after, loc, msg),
        )),
        Outcome::Died(s) => Err(Fail::new(
            format!("{}|process-died", entry),
            format!("factor({}, {}) with abort after {:?} polls killed the process: {}", c.n, c.algo, c.prefs.abort_after, s),
        )),
        Outcome::Timeout | Outcome::Bad(_) => Ok(()),
    }
}

fn too_slow(r: &JobResult) -> bool {
    match r {
        JobResult::Timeout => true,
        _ => lat_ms(r).map(|l| l > DELTA_S * 1e3).unwrap_or(false),
    }
}

fn exec(profile: &str, cases: &[FCase], nworkers: usize, watchdog: f64) -> Vec<Run> {
    let jobs: Vec<Value> = cases.iter().map(|c| c.job()).collect();
    let res = run_jobs(profile, &jobs, nworkers, &|_| watchdog).unwrap_or_default();
    cases
        .iter()
        .cloned()
        .zip(res.into_iter().chain(std::iter::repeat(JobResult::Died("no worker".into()))))
        .map(|(case, resp)| Run { case, resp })
        .collect()
}

/// Judge one batch: consistency for every run; latency candidates are re-run alone
/// (nothing else running) and flagged only if they are slow three times in a row.
fn judge_batch(ctx: &Ctx, runs: &[Run], watchdog: f64, l: &mut Local, long: bool) {
    let mut slow = vec![];
    for r in runs {
        let o = Outcome::from_job(&r.resp);
        l.case();
        l.label(&format!("algo:{}", r.case.algo));
        l.label(&format!("outcome:{}", o.tag()));
        if r.case.prefs.threads.unwrap_or(1) > 1 {
            l.label("threads>1");
        }
        if let Outcome::Ok(fs) = &o {
            if !r.case.factors.is_empty() && *fs != r.case.factors {
                l.label("returned:partial-or-composite");
            } else {
                l.label("returned:complete");
            }
        }
        if let Some(lat) = lat_ms(&r.resp) {
            l.label("abort-fired");
            if lat < 10.0 {
                l.label("latency:<10ms");
            } else if lat < 1000.0 {
                l.label("latency:<1s");
            } else {
                l.label("latency:>=1s");
            }
        }
        if let Err(f) = judge_consistency(&r.case, &o) {
            ctx.violation("abort@opt", &f, serde_json::to_value(&r.case).unwrap());
        }
        if too_slow(&r.resp) {
            slow.push(r.case.clone());
        }
    }
    // latency candidates: repeat alone
    let mut seen = std::collections::BTreeSet::new();
    for c in slow {
        if !seen.insert((c.algo.clone(), c.prefs.threads)) || seen.len() > 6 {
            continue; // one representative per (selector, threads) is enough
        }
        let mut all_slow = true;
        for _ in 0..2 {
            let again = exec("opt", &[c.clone()], 1, watchdog);
            if !too_slow(&again[0].resp) {
                all_slow = false;
                break;
            }
        }
        if all_slow {
            let f = Fail::new(
                format!("factor[{}]+abort|latency", c.algo),
                format!(
                    "factor({}, {}, threads={:?}) did not return within {} s after the abort predicate became true at poll {:?} (3 runs, last two alone on the machine){}",
                    c.n,
                    c.algo,
                    c.prefs.threads,
                    DELTA_S,
                    c.prefs.abort_after,
                    if long { "; the un-aborted run takes minutes" } else { "" }
                ),
            );
            ctx.violation("abort@opt", &f, serde_json::to_value(&c).unwrap());
        } else {
            l.label("latency-retry-passed");
        }
    }
}


// ---------------------------------------------------------------------------
// Class-group entry point (src/classgroup.rs is among the anchors of the property: its sieve polls the same
// predicate, per A value and per worker closure, and its declared answer to an abort is `None`).
//
// Oracle (sound for every schedule): once the monotone predicate has returned `true` to the library at least
// once, the sieve loops end and the check that follows them sees `true` again, so the call must come back
// without a panic and within DELTA.  Nothing is demanded of runs in which the predicate never fired (the flip
// instant lay behind the last poll), and a returned group is not judged here (C18 does that).

#[derive(Clone, Debug, Serialize, Deserialize)]
struct ClsAbortCase {
    cls: ClsCase,
    /// |D| in decimal (derived from `cls`; kept for the reader of a replay file)
    dabs: String,
    /// the predicate returns true from its k-th poll onward; None = never (calibration)
    k: Option<u64>,
}

enum ClsOutcome {
    Group,
    None,
    Panic(PanicInfo),
    Hang,
}

struct ClsRun {
    outcome: ClsOutcome,
    polls: u64,
    /// time between the first `true` and the return of the call
    lat_ms: Option<f64>,
}

const CLS_WATCHDOG_S: u64 = 150;

fn cls_call(dabs: u128, threads: Option<usize>, use_double: Option<bool>, k: Option<u64>) -> ClsRun {
    use std::sync::atomic::{AtomicBool, AtomicU64, Ordering};
    use std::sync::{mpsc, Arc, Mutex};
    use std::time::{Duration, Instant};
    let polls = Arc::new(AtomicU64::new(0));
    let first_true: Arc<Mutex<Option<Instant>>> = Arc::new(Mutex::new(None));
    let give_up = Arc::new(AtomicBool::new(false));
    let (tx, rx) = mpsc::channel();
    let (p2, f2, g2) = (polls.clone(), first_true.clone(), give_up.clone());
    let spawned = std::thread::Builder::new().name("c05-classgroup".into()).stack_size(8 << 20).spawn(move || {
        use std::str::FromStr;
        let pool = match threads {
            None | Some(1) => None,
            Some(t) => rayon::ThreadPoolBuilder::new().num_threads(t).build().ok(),
        };
        let d = yamaquasi::Int::from_str(&format!("-{}", dabs)).expect("decimal");
        let mut prefs = yamaquasi::Preferences::default();
        prefs.verbosity = yamaquasi::Verbosity::Silent;
        prefs.threads = threads;
        prefs.use_double = use_double;
        let kk = k.unwrap_or(u64::MAX);
        prefs.should_abort = Some(Box::new(move || {
            let i = p2.fetch_add(1, Ordering::SeqCst);
            if i >= kk {
                let mut g = f2.lock().unwrap();
                if g.is_none() {
                    *g = Some(Instant::now());
                }
                true
            } else {
                // lets a stuck sieve loop end after the watchdog has given the verdict
                g2.load(Ordering::Relaxed)
            }
        }));
        let r = catch(|| yamaquasi::classgroup::classgroup(&d, &prefs, pool.as_ref()).is_some());
        let _ = tx.send((r, Instant::now()));
    });
    if spawned.is_err() {
        return ClsRun { outcome: ClsOutcome::Hang, polls: 0, lat_ms: None };
    }
    match rx.recv_timeout(Duration::from_secs(CLS_WATCHDOG_S)) {
        Ok((r, t_ret)) => {
            let ft = *first_true.lock().unwrap();
            ClsRun {
                outcome: match r {
                    Ok(true) => ClsOutcome::Group,
                    Ok(false) => ClsOutcome::None,
                    Err(p) => ClsOutcome::Panic(p),
                },
                polls: polls.load(Ordering::SeqCst),
                lat_ms: ft.map(|t| t_ret.saturating_duration_since(t).as_secs_f64() * 1e3),
            }
        }
        Err(_) => {
            give_up.store(true, Ordering::Relaxed);
            let fired = first_true.lock().unwrap().is_some();
            ClsRun { outcome: ClsOutcome::Hang, polls: polls.load(Ordering::SeqCst), lat_ms: if fired { Some(CLS_WATCHDOG_S as f64 * 1e3) } else { None } }
        }
    }
}

fn cls_slow(r: &ClsRun) -> bool {
    r.lat_ms.map(|l| l > DELTA_S * 1e3).unwrap_or(false)
}

/// consistency part: a panic after the predicate fired
fn cls_judge(c: &ClsAbortCase, r: &ClsRun) -> Result<(), Fail> {
    if r.lat_ms.is_none() {
        return Ok(());
    }
    if let ClsOutcome::Panic(p) = &r.outcome {
        return Err(Fail::new(
            format!("classgroup+abort|panic@{}", p.short_loc()),
            format!(
                "classgroup(-{}, threads={:?}) panicked at {} after the abort predicate had returned true (from poll {:?} on): {}",
                c.dabs, c.cls.threads, p.short_loc(), c.k, p.msg
            ),
        ));
    }
    Ok(())
}

fn cls_latency_fail(c: &ClsAbortCase) -> Fail {
    Fail::new(
        "classgroup+abort|latency",
        format!(
            "classgroup(-{}, threads={:?}) did not return within {} s after the abort predicate became true at poll {:?} (3 runs, last two alone)",
            c.dabs, c.cls.threads, DELTA_S, c.k
        ),
    )
}

fn cls_run_case(c: &ClsAbortCase) -> Option<ClsRun> {
    let d = c.cls.dabs()?;
    Some(cls_call(d, c.cls.threads, c.cls.use_double, c.k))
}

fn cls_abort(ctx: &Ctx, l: &mut Local) {
    use std::sync::atomic::{AtomicUsize, Ordering};
    use std::sync::Mutex;
    let check = "abort-cls@opt";
    let n = ctx.n(40, 600) as usize;
    let mut cases: Vec<ClsCase> = ctx.sample_strategy(check, 0, &strategy_big(44, 104), n);
    for (i, c) in cases.iter_mut().enumerate() {
        c.threads = match i % 4 {
            0 => None,
            1 => Some(2),
            _ => Some(4),
        };
    }
    let mut rng = SplitMix(crate::engine::hash64(&(ctx.seed, "c05-cls-k")));
    let seeds: Vec<u64> = cases.iter().map(|_| rng.next()).collect();
    let next = AtomicUsize::new(0);
    let out: Mutex<Vec<(ClsAbortCase, ClsRun, Option<u64>)>> = Mutex::new(vec![]);
    std::thread::scope(|sc| {
        for _ in 0..6 {
            sc.spawn(|| loop {
                let i = next.fetch_add(1, Ordering::SeqCst);
                if i >= cases.len() {
                    break;
                }
                let cls = cases[i].clone();
                let Some(d) = cls.dabs() else { continue };
                let mk = |k: Option<u64>| ClsAbortCase { cls: cls.clone(), dabs: d.to_string(), k };
                // calibration: polls of an un-aborted run
                let cal = cls_call(d, cls.threads, cls.use_double, None);
                let p = cal.polls;
                let cal_ok = matches!(cal.outcome, ClsOutcome::Group | ClsOutcome::None);
                out.lock().unwrap().push((mk(None), cal, None));
                let mut ks: Vec<u64> = (0..=p.min(10)).collect();
                if cal_ok {
                    ks.extend(p.saturating_sub(3)..=p);
                    let mut r = SplitMix(seeds[i]);
                    for _ in 0..6 {
                        if p > 10 {
                            ks.push(11 + r.below(p - 10));
                        }
                    }
                }
                ks.sort();
                ks.dedup();
                for k in ks {
                    let c = mk(Some(k));
                    let r = cls_call(d, cls.threads, cls.use_double, Some(k));
                    out.lock().unwrap().push((c, r, Some(p)));
                }
            });
        }
    });
    let mut slow: Vec<ClsAbortCase> = vec![];
    for (c, r, p) in out.into_inner().unwrap() {
        l.case();
        let Some(p) = p else {
            l.label("cls:calibration-run");
            l.label(match r.outcome {
                ClsOutcome::Group => "cls:calibration:group",
                ClsOutcome::None => "cls:calibration:none",
                ClsOutcome::Panic(_) => "cls:calibration:gave-up",
                ClsOutcome::Hang => "cls:calibration:watchdog",
            });
            continue;
        };
        if c.cls.threads.unwrap_or(1) > 1 {
            l.label("cls:threads>1");
        }
        if r.lat_ms.is_some() {
            l.label("cls:abort-fired");
            l.label(match r.outcome {
                ClsOutcome::Group => "cls:fired:returned-group",
                ClsOutcome::None => "cls:fired:returned-none",
                ClsOutcome::Panic(_) => "cls:fired:panic",
                ClsOutcome::Hang => "cls:fired:watchdog",
            });
            if c.k.unwrap_or(0) < p {
                l.nontrivial(crate::engine::hash64(&("cls", &c.dabs, c.cls.threads, c.k)));
                l.sample("cls", || json!({"case": c, "polls_unaborted": p}));
            }
        } else {
            l.label("cls:flip-after-last-poll");
        }
        if let Err(f) = cls_judge(&c, &r) {
            ctx.violation(check, &f, serde_json::to_value(&c).unwrap());
        }
        if cls_slow(&r) {
            slow.push(c);
        }
    }
    for c in slow.into_iter().take(4) {
        let mut all_slow = true;
        for _ in 0..2 {
            match cls_run_case(&c) {
                Some(r) if cls_slow(&r) => {}
                _ => {
                    all_slow = false;
                    break;
                }
            }
        }
        if all_slow {
            ctx.violation(check, &cls_latency_fail(&c), serde_json::to_value(&c).unwrap());
        } else {
            l.label("latency-retry-passed");
        }
    }
}

fn long_inputs(quick: bool) -> Vec<FCase> {
    let mut out = vec![];
    let mk = |algo: &str, b1: u32, b2: u32, i: u32, threads: Option<usize>| {
        let mut c = mk_case("long-semiprime", vec![certified_prime(b1, i), certified_prime(b2, i + 1)], algo, PrefSpec::default());
        c.prefs.threads = threads;
        c
    };
    let reps = if quick { 1 } else { 3 };
    for i in 0..reps {
        for th in [None, Some(4)] {
            out.push(mk("qs", 95, 96, i, th));
            out.push(mk("mpqs", 105, 106, i, th));
            out.push(mk("siqs", 125, 126, i, th));
            out.push(mk("ecm", 75, 76, i, th));
            out.push(mk("auto", 150, 151, i, th));
            // a flip inside the P-1 / ECM window of the automatic strategy on an input whose sieve set-up alone
            // takes far longer than the delay: a sieve entered after the abort is observable as latency
            out.push(mk("auto", 175, 176, i, th));
        }
        out.push(mk("ecm128", 63, 64, i, None));
    }
    out
}

fn run(ctx: &Ctx) {
    ctx.set_rule(
        "counter fault on the abort predicate (true from its k-th poll onward, monotone). Small inputs: proptest-generated \
         composites (incl. >= 3 prime factors so that the divisor recursion is interrupted) on Qs/Mpqs/Siqs/Ecm/Ecm128/Auto with \
         threads in {None,4}; a calibration run counts the polls P; every k in [0,min(P,64)] and generated k in (64,P] is run. \
         Long inputs (two 95..150-bit primes, un-aborted run takes minutes) with k in 0..=6. The non-polling selectors get k = 0. \
         Class-group entry point (anchored file src/classgroup.rs): 44..104-bit fundamental discriminants, pool of None/2/4 threads, \
         calibration then k in [0,min(P,10)], the last instants and generated k; once the predicate has fired the call must return \
         without panic within the delay. \
         Non-trivial = the predicate flipped while work remained (k < P, or long input); distinct by (n, selector, threads, k).",
    );
    ctx.assume("the abort predicate is monotone (once true, always true), like the deadline used by the only in-tree caller");
    ctx.assume(&format!("bounded delay = {} s after the first true; a slow run is repeated alone and flagged only if slow three times in a row", DELTA_S));
    ctx.assume("P-1 (pm1_quick), rho, squfof, qsieve64 and the linear algebra step do not poll; at the sizes used they are bounded well below the delay");
    let quick = ctx.quick();
    let mut l = Local::new();

    // ---- small inputs: calibrate, then enumerate flip instants
    let per = ctx.n(20, 400) as usize;
    let mut calib: Vec<FCase> = vec![];
    for (i, a) in ALGOS_POLLING.iter().enumerate() {
        let strat = case_strategy(a, true, false);
        let cases = ctx.sample_strategy("abort@opt", i as u64, &strat, per * 3);
        let mut kept = 0;
        // after an abort Algo::Ecm still walks its whole (B1,B2) schedule, building each smoothness base
        // (about 3.5 s of CPU on this machine): keep the number of ECM runs small
        let per = if *a == "ecm" { (per / 4).max(3) } else { per };
        for mut c in cases {
            if c.n.bits() > 120 || !is_nontrivial(&c) {
                continue;
            }
            for th in [None, Some(4usize)] {
                if th.is_some() && *a == "ecm128" {
                    continue;
                }
                c.prefs = PrefSpec { threads: th, count_polls: true, ..PrefSpec::default() };
                calib.push(c.clone());
            }
            kept += 1;
            if kept >= per {
                break;
            }
        }
    }
    let cal = exec("opt", &calib, workers(), 300.0);
    let mut runs: Vec<FCase> = vec![];
    let mut rng = SplitMix(crate::engine::hash64(&(ctx.seed, "c05-k")));
    let mut max_unaborted_ms: f64 = 0.0;
    for r in &cal {
        let p = polls(&r.resp);
        l.case();
        l.label("calibration-run");
        if let JobResult::Resp(v) = &r.resp {
            max_unaborted_ms = max_unaborted_ms.max(v["ms"].as_f64().unwrap_or(0.0));
        }
        if p == 0 {
            l.label("calibration:no-poll");
        }
        let mut ks: Vec<u64> = (0..=p.min(64)).collect();
        // the last instants: a flip after the sieve's last poll lands in the linear algebra / the cofactor loop
        ks.extend(p.saturating_sub(6)..=p);
        for _ in 0..16 {
            if p > 64 {
                ks.push(65 + rng.below(p - 64));
            }
        }
        if r.case.algo == "ecm" {
            ks.retain(|&k| matches!(k, 0 | 1 | 2 | 3 | 5 | 8 | 13 | 21 | 34 | 55) || k + 1 >= p);
        }
        ks.sort();
        ks.dedup();
        for k in ks {
            let mut c = r.case.clone();
            c.prefs.count_polls = false;
            c.prefs.abort_after = Some(k);
            if k < p {
                l.nontrivial(crate::engine::hash64(&(c.key(), k)));
                l.label("flip-while-work-remained");
                l.sample(&format!("small:{}", c.algo), || json!({"case": c, "polls_unaborted": p}));
            } else {
                l.label("flip-after-last-poll");
            }
            runs.push(c);
        }
    }
    let watchdog = (max_unaborted_ms / 1e3) * 4.0 + DELTA_S + 30.0;
    let res = exec("opt", &runs, workers(), watchdog);
    judge_batch(ctx, &res, watchdog, &mut l, false);

    // non-polling selectors: predicate already true before the call
    let mut np = vec![];
    for (i, a) in ["rho", "squfof", "qs64", "pm1"].iter().enumerate() {
        let strat = case_strategy(a, true, false);
        for mut c in ctx.sample_strategy("abort@opt", 100 + i as u64, &strat, ctx.n(60, 2000) as usize) {
            c.prefs.abort_after = Some(0);
            np.push(c);
        }
    }
    let res = exec("opt", &np, workers(), 120.0);
    judge_batch(ctx, &res, 120.0, &mut l, false);

    // ---- long inputs: ignoring the predicate is observable
    let mut longs = vec![];
    for c in long_inputs(quick) {
        for k in 0..=ctx.pick(4u64, 8) {
            if c.algo == "ecm" && k % 2 == 1 {
                continue;
            }
            let mut c = c.clone();
            c.prefs.abort_after = Some(k);
            l.nontrivial(crate::engine::hash64(&(c.key(), k, "long")));
            l.label("long-input");
            l.sample(&format!("long:{}", c.algo), || serde_json::to_value(&c).unwrap());
            longs.push(c);
        }
    }
    // few workers: these runs are CPU heavy until the k-th poll and threads=4 cases need cores
    let res = exec("opt", &longs, 6, 180.0);
    judge_batch(ctx, &res, 180.0, &mut l, true);

    // ---- the class-group entry point under the same predicate
    cls_abort(ctx, &mut l);

    ctx.merge(l);
    ctx.essential("cls:abort-fired", 100);
    ctx.essential("cls:threads>1", 50);
    ctx.essential("flip-while-work-remained", 200);
    ctx.essential("abort-fired", 200);
    ctx.essential("long-input", 20);
    ctx.essential("threads>1", 50);
}

fn replay(_ctx: &Ctx, check: &str, case: &Value) -> Result<(), Fail> {
    if check.starts_with("abort-cls") || case.get("cls").is_some() {
        let c: ClsAbortCase = serde_json::from_value(case.clone()).map_err(|e| Fail::new("HARNESS|bad-replay-file", e.to_string()))?;
        // thread schedules differ from run to run: a few attempts
        for _ in 0..(if c.cls.threads.unwrap_or(1) > 1 { 12 } else { 3 }) {
            let r = cls_run_case(&c).ok_or_else(|| Fail::new("HARNESS|bad-replay-file", "not a fundamental discriminant"))?;
            cls_judge(&c, &r)?;
            if cls_slow(&r) {
                let again = [cls_run_case(&c), cls_run_case(&c)];
                if again.iter().all(|r| r.as_ref().map(cls_slow).unwrap_or(false)) {
                    return Err(cls_latency_fail(&c));
                }
            }
        }
        return Ok(());
    }
    let c: FCase = serde_json::from_value(case.clone()).map_err(|e| Fail::new("HARNESS|bad-replay-file", e.to_string()))?;
    for _ in 0..3 {
        let r = exec("opt", &[c.clone()], 1, 180.0);
        let o = Outcome::from_job(&r[0].resp);
        judge_consistency(&c, &o)?;
        if !too_slow(&r[0].resp) {
            return Ok(());
        }
    }
    Err(Fail::new(
        format!("factor[{}]+abort|latency", c.algo),
        format!("factor({}, {}) did not return within {} s after the abort predicate became true (3 runs)", c.n, c.algo, DELTA_S),
    ))
}
