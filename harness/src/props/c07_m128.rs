//! C07, 128-bit specialisation (ecm128::M128 through the verif hook).  Filled in once the hook is merged.
use crate::engine::{Ctx, Fail};
use serde_json::Value;

pub fn run(_ctx: &Ctx) {}

pub fn replay(_case: &Value) -> Result<(), Fail> {
    Err(Fail::new("HARNESS|unknown-check", "m128 check not built yet"))
}
