//! C07, 128-bit specialisation: ecm128's private Montgomery type `M128` through the
//! `ecm128::verif` hook, against the reference and against ZmodN (raw residues must be
//! interchangeable: R = 2^64 for n < 2^64, R = 2^128 otherwise).

use proptest::prelude::*;
use serde::{Deserialize, Serialize};
use serde_json::Value;

use crate::engine::{guard, replay_as, Ctx, Fail, Local};
use crate::gen::edgy128;
use crate::oracle::int::{ref_invmod, Ref};
use yamaquasi::arith_montgomery::{MInt, ZmodN};
use yamaquasi::ecm128::verif as m;
use yamaquasi::Uint;

#[derive(Clone, Debug, Serialize, Deserialize)]
pub struct M128Case {
    #[serde(with = "crate::ser::u128s")]
    pub n: u128,
    #[serde(with = "crate::ser::u128s")]
    pub x: u128,
    #[serde(with = "crate::ser::u128s")]
    pub y: u128,
}

pub fn strategy() -> impl Strategy<Value = M128Case> {
    (edgy128(), edgy128(), edgy128(), 0u8..10, 0u8..10, 0u8..6).prop_map(|(n, x, y, sx, sy, sn)| {
        let n = match sn {
            // within 2^10 of 2^64 and 2^128
            0 => (1u128 << 64) - 1 - ((n as u64 % 1024) as u128 & !1),
            1 => (1u128 << 64) + 1 + ((n as u64 % 1024) as u128 & !1),
            2 => u128::MAX - ((n as u64 % 1024) as u128 & !1),
            3 => (1u128 << 127) + 1 + ((n as u64 % 1024) as u128 & !1),
            _ => n | 1,
        };
        let n = if n < 3 { 3 } else { n | 1 };
        let sp = |s: u8, v: u128| -> u128 {
            match s {
                0 => 0,
                1 => 1,
                2 => n - 1,
                3 => n - 2,
                4 => n / 2,
                5 => (n / 2) + 1,
                6 => crate::oracle::int::isqrt_u128(n) % n,
                _ => v % n,
            }
        };
        M128Case { n, x: sp(sx, x), y: sp(sy, y) }
    })
}

fn mint_u128(m: &MInt) -> Option<u128> {
    if m.0[2..].iter().any(|&w| w != 0) {
        return None;
    }
    Some(m.0[0] as u128 | ((m.0[1] as u128) << 64))
}

pub fn check(c: &M128Case, l: &mut Local) -> Result<(), Fail> {
    let n = c.n;
    if n & 1 == 0 || n < 3 || c.x >= n || c.y >= n {
        return Err(Fail::new("HARNESS|out-of-domain", "m128 case outside the domain"));
    }
    l.case();
    let small = n >> 64 == 0;
    l.label(if small { "m128:n<2^64(R=2^64)" } else { "m128:n>=2^64(R=2^128)" });
    let nr = Ref::from(n);
    let r = if small { Ref::ONE << 64 } else { Ref::ONE << 128 };
    let rmod = r % nr;
    let rinv = ref_invmod(&rmod, &nr).expect("R invertible");
    let ctx = guard("M128::new", || m::m128_new(n))?;
    // constants
    ensure!(Ref::from(ctx.r) == rmod, "M128|r-constant", "n={}: r = {} expected R mod n = {}", n, ctx.r, rmod);
    ensure!(
        Ref::from(ctx.r2) == (rmod * rmod) % nr,
        "M128|r2-constant",
        "n={}: r2 = {} expected R^2 mod n",
        n,
        ctx.r2
    );
    let xm = guard("M128::to_mont", || m::to_mont(&ctx, c.x))?;
    let ym = guard("M128::to_mont", || m::to_mont(&ctx, c.y))?;
    ensure!(
        Ref::from(xm) == (Ref::from(c.x) * rmod) % nr,
        "M128::to_mont|wrong-residue",
        "n={} x={}: residue {} expected {}",
        n,
        c.x,
        xm,
        (Ref::from(c.x) * rmod) % nr
    );
    let back = guard("M128::from_mont", || m::from_mont(&ctx, xm))?;
    ensure!(back == c.x, "M128::from_mont|round-trip", "n={} x={}: round trip gives {}", n, c.x, back);
    // operations on residues
    let pm = guard("M128::mul", || m::mul(&ctx, xm, ym))?;
    let expect = (Ref::from(xm) * Ref::from(ym) % nr) * rinv % nr;
    ensure!(
        Ref::from(pm) == expect,
        "M128::mul|wrong-value",
        "n={} xR={} yR={}: mul = {} expected {}",
        n,
        xm,
        ym,
        pm,
        expect
    );
    let am = guard("M128::add", || m::add(&ctx, xm, ym))?;
    ensure!(
        Ref::from(am) == (Ref::from(xm) + Ref::from(ym)) % nr,
        "M128::add|wrong-value",
        "n={} a={} b={}: add = {}",
        n,
        xm,
        ym,
        am
    );
    let sm = guard("M128::sub", || m::sub(&ctx, xm, ym))?;
    ensure!(
        Ref::from(sm) == (Ref::from(xm) + nr - Ref::from(ym)) % nr,
        "M128::sub|wrong-value",
        "n={} a={} b={}: sub = {}",
        n,
        xm,
        ym,
        sm
    );
    if n > (1 << 66) && c.x > n / 4 && c.y > n / 4 {
        l.nontrivial_of(&(n, c.x, c.y));
        l.sample("m128", || serde_json::to_value(c).unwrap());
    }
    // same representation as ZmodN
    let zn = guard("ZmodN::new", || ZmodN::new(Uint::from(n)))?;
    let zx = guard("ZmodN::from_int", || zn.from_int(Uint::from(c.x)))?;
    let zy = guard("ZmodN::from_int", || zn.from_int(Uint::from(c.y)))?;
    ensure!(
        mint_u128(&zx) == Some(xm),
        "M128|representation-differs-from-ZmodN",
        "n={} x={}: M128 residue {} ZmodN residue {:?}",
        n,
        c.x,
        xm,
        zx.0
    );
    let zp = guard("ZmodN::mul", || zn.mul(zx, zy))?;
    ensure!(
        mint_u128(&zp) == Some(pm),
        "M128::mul|differs-from-ZmodN",
        "n={} x={} y={}: M128 {} ZmodN {:?}",
        n,
        c.x,
        c.y,
        pm,
        zp.0
    );
    Ok(())
}

pub fn run(ctx: &Ctx) {
    ctx.par_prop("m128", 16, ctx.n(300_000, 40_000_000), strategy, check);
    ctx.essential("m128:n<2^64(R=2^64)", 100);
    ctx.essential("m128:n>=2^64(R=2^128)", 100);
}

pub fn replay(case: &Value) -> Result<(), Fail> {
    replay_as::<M128Case>(case, check)
}
