//! C16 — group-order methods (P−1, P+1, ECM, rho) find what their bounds promise and
//! return nothing false (DESIGN.md section 2, C16).
//!
//! The PROMISE is always computed by the harness: constructive primes p with
//! p∓1 = 2^a·s·ℓ·m (ground truth = the factor list carried by the case, re-verified by the
//! check), and for ECM the order of the library's starting point modulo p computed by the
//! reference in `oracle::ecorder` (BSGS in the Hasse interval on the Montgomery model).
//! "Effective B2 that the run reports" = the label of the table row the run selects.
//!
//! Checks: `table` (exhaustive over both stage-2 tables and every hard-wired pair),
//! `pm` (constructive P−1/P+1 runs), `ecm` (single-curve runs of both implementations and
//! the public `ecm128`), `misc` (anything returned multiplies to n), `gcd_chain`
//! (`gcd_factors` against the chain itself), `exp` (exponentiation helpers).

use proptest::prelude::*;
use serde::{Deserialize, Serialize};
use serde_json::{json, Value};

use crate::engine::{guard, hash64, replay_as, Ctx, Fail, Local, PropDef};
use crate::oracle::ecorder::{self, OrderInfo};
use crate::oracle::int::{
    certified_prime, jacobi64, powmod, prime64, ref_gcd, ref_isprime64, widen, Ref, SplitMix, U1024,
};
use crate::oracle::smooth::{
    self, largest_prime_factor, lucas_v_big, next_prime, phi, prev_prime, prime_at_most, safe_cofactors,
    safe_for_pm1, safe_for_pp1, small_factors,
};
use yamaquasi::arith_montgomery::{gcd_factors, MInt, ZmodN};
use yamaquasi::{ecm, ecm128, params, pollard_pm1, pollard_rho, pp1, Preferences, Uint, Verbosity};

pub const DEF: PropDef = PropDef {
    id: "C16",
    level: "exploration",
    chk_child: true,
    run,
    replay,
};

// ---------------------------------------------------------------------------
// Tables, consumers, structural coverage

#[derive(Clone, Copy, Debug, PartialEq, Serialize, Deserialize)]
pub struct Row {
    pub label: f64,
    pub d1: u64,
    pub d2: u64,
}

impl Row {
    fn id(&self) -> String {
        format!("row=({},{},{})", self.label as u64, self.d1, self.d2)
    }
    fn label_u(&self) -> u64 {
        self.label as u64
    }
}

#[derive(Clone, Copy, Debug, PartialEq, Eq)]
pub enum Consumer {
    Pm1,
    Pp1,
    Ecm,
    Ecm128,
}

impl Consumer {
    fn name(&self) -> &'static str {
        match self {
            Consumer::Pm1 => "pm1",
            Consumer::Pp1 => "pp1",
            Consumer::Ecm => "ecm",
            Consumer::Ecm128 => "ecm128",
        }
    }
    fn from_name(s: &str) -> Option<Consumer> {
        Some(match s {
            "pm1" => Consumer::Pm1,
            "pp1" => Consumer::Pp1,
            "ecm" => Consumer::Ecm,
            "ecm128" => Consumer::Ecm128,
            _ => return None,
        })
    }
    fn table(&self) -> Vec<Row> {
        let t = match self {
            Consumer::Pm1 => pollard_pm1::verif_stage2_table(),
            _ => params::verif_stage2_table(),
        };
        t.iter().map(|&(label, d1, d2)| Row { label, d1, d2 }).collect()
    }
    /// The row a run with this B2 selects (library's own selection: the reported B2 is an
    /// output of the run, not a judgment).
    fn select(&self, b2: f64) -> Row {
        let (label, d1, d2) = match self {
            Consumer::Pm1 => pollard_pm1::verif_stage2_params(b2),
            _ => params::stage2_params(b2),
        };
        Row { label, d1, d2 }
    }
    /// Largest prime value (not dividing d1) that the stage-2 grid of this consumer reaches
    /// (DESIGN.md C16):  P−1: ℓ | q·d1 − r, 0 <= q <= d2−φ(d1)−2, r in {1..d1−1 coprime} ∪ {d1+1};
    /// P+1: ℓ | i·d1 ± j, 0 <= i <= d2−1, j < d1/2 coprime; ECM: ℓ | a·d1 ± b, 1 <= a <= d2, b < d1/2 coprime.
    fn cov(&self, row: &Row) -> u64 {
        let (d1, d2) = (row.d1, row.d2);
        match self {
            Consumer::Pm1 => (d2.saturating_sub(phi(d1) + 2) * d1).saturating_sub(1),
            Consumer::Pp1 => (d2 - 1) * d1 + d1 / 2 - 1,
            Consumer::Ecm | Consumer::Ecm128 => d2 * d1 + d1 / 2 - 1,
        }
    }
}

fn pm1_walk(b2: f64) -> bool {
    !(b2 > pollard_pm1::VERIF_MULTIEVAL_THRESHOLD)
}

/// (promise bound, structural coverage) for a run of `cons` with this b2.
/// For the P−1 prime walk (b2 <= 80e3) the run ignores the row: it walks the primes up to the
/// first one above b2 while printing the row label; the promise is then min(b2, label).
fn bounds(cons: Consumer, b2: f64) -> (Row, u64, u64) {
    let row = cons.select(b2);
    if cons == Consumer::Pm1 && pm1_walk(b2) {
        let cov = next_prime(b2 as u32 as u64);
        (row, row.label_u().min(b2 as u64), cov)
    } else {
        (row, row.label_u(), cons.cov(&row))
    }
}

/// Exact test: does the ECM grid of this row reach the prime order ℓ?
fn ecm_grid_covers(l: u64, row: &Row) -> bool {
    let d1 = row.d1;
    if l < 2 {
        return false;
    }
    let bs: Vec<u64> = (1..d1 / 2).filter(|&b| crate::oracle::int::gcd64(b, d1) == 1).collect();
    for a in 1..=row.d2 {
        let r = (a % l) * (d1 % l) % l;
        for &b in &bs {
            let bm = b % l;
            if (r + bm) % l == 0 || r == bm {
                return true;
            }
        }
    }
    false
}

/// Signature of a promised factor that was not separated.
fn miss_fail(cons: Consumer, entry: &str, b1: u64, b2: f64, l: Option<u64>, what: String) -> Fail {
    let (row, bound, cov) = bounds(cons, b2);
    let m = cons.name();
    match l {
        None => {
            let class = if cons == Consumer::Pm1 {
                format!("{}.stage1|missed|{}", m, if b1 >= 65536 { "B1>=65536" } else { "B1<65536" })
            } else {
                format!("{}.stage1|missed", m)
            };
            Fail::new(class, what).with_detail(entry.to_string())
        }
        Some(l) => {
            if cons == Consumer::Pm1 && pm1_walk(b2) {
                return Fail::new(format!("pm1.stage2-walk|missed{}", if b1 >= 65536 { "|B1>=65536" } else { "" }), what).with_detail(entry.to_string());
            }
            let class = if l > cov {
                format!("{}.stage2|{}|l-in-({},{}]", m, row.id(), cov, bound)
            } else if matches!(cons, Consumer::Ecm | Consumer::Ecm128) && l <= row.d1 / 2 && !ecm_grid_covers(l, &row) {
                format!("{}.stage2|B1={},{}|stage-gap", m, b1, row.id())
            } else {
                format!(
                    "{}.stage2|{}|l-covered-but-missed{}",
                    m,
                    row.id(),
                    if cons == Consumer::Pm1 && b1 >= 65536 { "|B1>=65536" } else { "" }
                )
            };
            Fail::new(class, what).with_detail(entry.to_string())
        }
    }
}

// Hard-wired (B1, B2) pairs of the strategy tables (read from the pinned sources).
const PM1_QUICK: &[(u32, u32, u64, f64)] = &[
    (85, 190, 600, 40e3),
    (191, 220, 10_000, 270e3),
    (221, 250, 50_000, 8e6),
    (251, 280, 500_000, 300e6),
    (281, 310, 1_000_000, 1.2e9),
    (311, 340, 2_000_000, 5e9),
    (341, 370, 7_000_000, 18e9),
    (371, 420, 16 << 20, 150e9),
    (421, 470, 45_000_000, 2.5e12),
    (471, 512, 160_000_000, 22e12),
];
const PM1_ONLY: &[(u32, u32, u64, f64)] = &[
    (0, 80, 16 << 10, 450e3),
    (81, 120, 64 << 10, 8e6),
    (121, 160, 256 << 10, 300e6),
    (161, 200, 1 << 20, 1.2e9),
    (201, 240, 4 << 20, 8e9),
    (241, 280, 32 << 20, 640e9),
    (281, 320, 64 << 20, 1.4e12),
    (321, 370, 128 << 20, 2.5e12),
    (371, 420, 200_000_000, 5e12),
    (421, 470, 300_000_000, 10e12),
    (471, 512, 500_000_000, 22.5e12),
];
const ECM_PAIRS: &[(u64, f64)] = &[
    // ecm_auto
    (200, 7.7e3),
    (600, 20e3),
    (2000, 80e3),
    (2500, 126e3),
    (10000, 554e3),
    (25_000, 1.37e6),
    (100_000, 19e6),
    (200_000, 38e6),
    (1_500_000, 2.6e9),
    (5_000_000, 32e9),
    // ecm_only
    (2000, 81e3),
    (300_000, 156e6),
    (3_000_000, 10e9),
    (15_000_000, 136e9),
    (60_000_000, 1500e9),
    (350_000_000, 49e12),
];
/// ecm128: (min bits, max bits, try_harder only, curves (without the multiplier), B1, B2)
const ECM128_PAIRS: &[(u32, u32, bool, usize, u64, f64)] = &[
    (0, 32, false, 6, 16, 660.),
    (33, 40, false, 6, 40, 1080.),
    (41, 48, false, 8, 50, 1920.),
    (49, 56, false, 16, 100, 3e3),
    (57, 64, false, 20, 180, 7.7e3),
    (65, 72, false, 24, 350, 13.2e3),
    (73, 80, false, 60, 600, 20e3),
    (81, 128, false, 3, 600, 20e3),
    (81, 88, true, 20, 1000, 53e3),
    (89, 96, true, 30, 1500, 81e3),
    (97, 112, true, 70, 3600, 181e3),
    (113, 128, true, 80, 10000, 554e3),
];
const ECM_SEMIPRIME_PAIRS: &[(u64, f64)] = &[(60, 1920.), (100, 3000.), (180, 7700.)];

fn max_d2(thorough: bool) -> u64 {
    if thorough {
        1 << 20
    } else {
        1 << 16
    }
}

// ---------------------------------------------------------------------------
// Check `table`: labels vs structural coverage, hard-wired pairs vs stage gaps

#[derive(Clone, Debug, Serialize, Deserialize)]
pub struct TableCase {
    pub consumer: String,
    /// "label": label vs coverage of the row with these (d1, d2); "pair": hard-wired (b1, b2)
    pub kind: String,
    pub d1: u64,
    pub d2: u64,
    pub b1: u64,
    pub b2: f64,
}

pub fn check_table(c: &TableCase, l: &mut Local) -> Result<(), Fail> {
    let cons = Consumer::from_name(&c.consumer).ok_or_else(|| Fail::new("HARNESS|bad-case", "consumer"))?;
    l.case();
    match c.kind.as_str() {
        "label" => {
            let Some(row) = cons.table().into_iter().find(|r| r.d1 == c.d1 && r.d2 == c.d2) else {
                // the row no longer exists: nothing to compare
                l.label("table:row-gone");
                return Ok(());
            };
            // rows of the P-1 table that a polynomial-evaluation run can never select
            if cons == Consumer::Pm1 && cons.select(row.label) == row && pm1_walk(row.label) {
                l.label("table:pm1-walk-row");
                return Ok(());
            }
            if cons.select(row.label) != row {
                l.label("table:row-not-selected-by-its-label");
            }
            let cov = cons.cov(&row);
            let label = row.label_u();
            l.label(&format!("table:{}", cons.name()));
            l.nontrivial_of(&("table", cons.name(), row.d1, row.d2));
            // harness model check on small rows: every prime in (lpf(d1), cov] is reached, cov+.. is not
            if cons != Consumer::Pm1 && row.d2 <= 64 {
                let lpf = largest_prime_factor(row.d1);
                let mut x = next_prime(lpf);
                while x <= cov + row.d1 {
                    let reached = match cons {
                        Consumer::Pp1 => {
                            (0..row.d2).any(|i| {
                                (1..row.d1 / 2).filter(|&j| crate::oracle::int::gcd64(j, row.d1) == 1).any(|j| {
                                    (i * row.d1 + j) % x == 0 || (i * row.d1 >= j && (i * row.d1 - j) % x == 0)
                                })
                            })
                        }
                        _ => ecm_grid_covers(x, &row),
                    };
                    let model = x <= cov && (cons == Consumer::Pp1 || x > row.d1 / 2 || ecm_grid_covers(x, &row));
                    if reached != model {
                        return Err(Fail::new(
                            "HARNESS|coverage-model",
                            format!("{} {} prime {}: enumeration says {}, formula says {}", cons.name(), row.id(), x, reached, model),
                        ));
                    }
                    x = next_prime(x);
                }
                l.label("table:model-enumerated");
            }
            if label > cov {
                let first = next_prime(cov);
                if first <= label {
                    l.label("table:label-exceeds-coverage");
                    return Err(Fail::new(
                        format!("{}.stage2|{}|l-in-({},{}]", cons.name(), row.id(), cov, label),
                        format!(
                            "{} table {}: the reported B2 {} exceeds the largest value the stage-2 grid reaches ({}); first prime lost: {}",
                            cons.name(), row.id(), label, cov, first
                        ),
                    )
                    .with_detail("table"));
                }
            }
            Ok(())
        }
        "pair" => {
            let (row, _, _) = bounds(cons, c.b2);
            l.label(&format!("pair:{}", cons.name()));
            l.nontrivial_of(&("pair", cons.name(), c.b1, c.b2.to_bits()));
            if cons == Consumer::Pm1 && pm1_walk(c.b2) {
                return Ok(());
            }
            // primes dividing d1 are reached by no residue class: they must be stage-1 primes
            let lpf = largest_prime_factor(row.d1);
            if c.b1 <= lpf {
                return Err(Fail::new(
                    format!("{}.stage2|B1={},{}|prime-factor-of-d1-above-B1", cons.name(), c.b1, row.id()),
                    format!("B1 = {} does not exceed the prime factor {} of d1 = {}", c.b1, lpf, row.d1),
                ));
            }
            if matches!(cons, Consumer::Ecm | Consumer::Ecm128) && c.b1 < row.d1 / 2 {
                l.label("pair:B1<d1/2");
                // giant steps start at 1·d1: primes in (B1, d1/2] are reached only through multiples
                let mut lost = vec![];
                let mut x = next_prime(c.b1);
                while x <= row.d1 / 2 {
                    if !ecm_grid_covers(x, &row) {
                        lost.push(x);
                    }
                    x = next_prime(x);
                }
                if !lost.is_empty() {
                    return Err(Fail::new(
                        format!("{}.stage2|B1={},{}|stage-gap", cons.name(), c.b1, row.id()),
                        format!("primes {:?} in (B1, d1/2] divide no a·d1 ± b of the grid", lost),
                    )
                    .with_detail("table"));
                }
                l.label("pair:gap-closed-by-multiples");
            }
            Ok(())
        }
        _ => Err(Fail::new("HARNESS|bad-case", "kind")),
    }
}

fn table_cases() -> Vec<TableCase> {
    let mut out = vec![];
    for cons in [Consumer::Pm1, Consumer::Pp1, Consumer::Ecm] {
        for r in cons.table() {
            out.push(TableCase { consumer: cons.name().into(), kind: "label".into(), d1: r.d1, d2: r.d2, b1: 0, b2: r.label });
        }
    }
    let mut pair = |cons: Consumer, b1: u64, b2: f64| {
        out.push(TableCase { consumer: cons.name().into(), kind: "pair".into(), d1: 0, d2: 0, b1, b2 });
    };
    for &(_, _, b1, b2) in PM1_QUICK.iter().chain(PM1_ONLY.iter()) {
        pair(Consumer::Pm1, b1, b2);
    }
    for &(b1, b2) in ECM_PAIRS {
        pair(Consumer::Ecm, b1, b2);
    }
    for &(_, _, _, _, b1, b2) in ECM128_PAIRS {
        pair(Consumer::Ecm128, b1, b2);
    }
    for &(b1, b2) in ECM_SEMIPRIME_PAIRS {
        pair(Consumer::Ecm128, b1, b2);
    }
    out
}

// ---------------------------------------------------------------------------
// Shared result validation

/// Diagnostics only (YQV_C16_TIMING): report library calls slower than one second.
fn slow_note(t0: std::time::Instant, what: impl FnOnce() -> String) {
    static MODE: std::sync::OnceLock<u8> = std::sync::OnceLock::new();
    let mode = *MODE.get_or_init(|| match std::env::var("YQV_C16_TIMING").as_deref() {
        Ok("all") => 2,
        Ok(_) => 1,
        Err(_) => 0,
    });
    if mode == 2 || (mode == 1 && t0.elapsed().as_secs_f64() > 1.0) {
        eprintln!("C16 call {:.4}s: {}", t0.elapsed().as_secs_f64(), what());
    }
}

fn uint(x: u128) -> Uint {
    Uint::from(x)
}

fn check_list(entry: &str, n: &Uint, res: &Option<(Vec<Uint>, Uint)>) -> Result<(), Fail> {
    let Some((fs, cof)) = res else { return Ok(()) };
    ensure!(!fs.is_empty(), format!("{}|empty-factor-list", entry), "{}({}) returned Some with an empty factor list", entry, n);
    let mut prod: Ref = widen(cof);
    for f in fs {
        ensure!(
            *f > Uint::ONE && f < n,
            format!("{}|returned-trivial-factor", entry),
            "{}({}) returned the factor {} (list {:?}, cofactor {})",
            entry,
            n,
            f,
            fs,
            cof
        );
        ensure!(prod.bits() + f.bits() < 4000, format!("{}|product-mismatch", entry), "{}({}): product far larger than n", entry, n);
        prod *= widen(f);
    }
    ensure!(
        prod == widen(n) && !cof.is_zero(),
        format!("{}|product-mismatch", entry),
        "{}({}) returned {:?} x {} which does not multiply to n",
        entry,
        n,
        fs,
        cof
    );
    Ok(())
}

fn check_pair(entry: &str, n: &Uint, res: &Option<(Uint, Uint)>) -> Result<(), Fail> {
    let Some((a, b)) = res else { return Ok(()) };
    ensure!(
        *a > Uint::ONE && *b > Uint::ONE && widen(a) * widen(b) == widen(n),
        format!("{}|bad-pair", entry),
        "{}({}) returned ({}, {})",
        entry,
        n,
        a,
        b
    );
    Ok(())
}

/// Is the prime p in a different part than the prime q?
fn separated(res: &Option<(Vec<Uint>, Uint)>, p: &Uint, q: &Uint) -> bool {
    let Some((fs, cof)) = res else { return false };
    let mut parts: Vec<&Uint> = fs.iter().collect();
    parts.push(cof);
    for part in parts {
        if (*part % *p).is_zero() {
            return !(*part % *q).is_zero();
        }
    }
    false
}

#[derive(Clone, Copy, Debug, PartialEq, Eq)]
pub enum Promise {
    Stage1,
    Stage2(u64),
    No,
}

/// order = B1-powersmooth part (every prime power q^e || order below B1) times at most one
/// further prime ℓ (exponent 1) with B1 < ℓ <= bound.
pub fn promise_of(factors: &[(u64, u32)], b1: u64, bound: u64) -> Promise {
    let mut big: Option<u64> = None;
    for &(q, e) in factors {
        let mut pw: u128 = 1;
        for _ in 0..e {
            pw = pw.saturating_mul(q as u128);
        }
        if pw < b1 as u128 {
            continue;
        }
        if e == 1 && q > b1 && q <= bound && big.is_none() {
            big = Some(q);
        } else {
            return Promise::No;
        }
    }
    match big {
        None => Promise::Stage1,
        Some(l) => Promise::Stage2(l),
    }
}

// ---------------------------------------------------------------------------
// Check `pm`: constructive P−1 / P+1 runs

#[derive(Clone, Debug, Serialize, Deserialize, PartialEq)]
pub struct PrimeSpec {
    pub p: u64,
    /// −1: `factors` is the factorisation of p−1, +1: of p+1
    pub sign: i8,
    pub factors: Vec<(u64, u32)>,
}

#[derive(Clone, Debug, Serialize, Deserialize)]
pub struct PmCase {
    /// "pm1" | "pp1"
    pub method: String,
    /// "impl" (pm1_impl / pp1 with explicit bounds) | "quick" (pm1_quick) | "only" (pm1_only)
    pub entry: String,
    pub b1: u64,
    pub b2: f64,
    /// P+1 seed
    pub seed: u64,
    pub primes: Vec<PrimeSpec>,
    /// never-caught cofactor (1 = absent) and the prime r | q−1 that certifies it (0 = absent)
    #[serde(with = "crate::ser::dec")]
    pub q: U1024,
    #[serde(with = "crate::ser::dec")]
    pub q_r: U1024,
    pub shape: String,
}

fn verified_big_cofactors() -> &'static std::sync::Mutex<std::collections::BTreeSet<(U1024, U1024)>> {
    static S: std::sync::OnceLock<std::sync::Mutex<std::collections::BTreeSet<(U1024, U1024)>>> = std::sync::OnceLock::new();
    S.get_or_init(|| std::sync::Mutex::new(std::collections::BTreeSet::new()))
}

/// q prime, r prime, r | q−1, r | ord_q(2) (P−1) resp. r | ord of the P+1 element (group F_q^*).
fn cofactor_ok(c: &PmCase) -> bool {
    if c.q.bits() <= 62 {
        let (q, r) = (c.q.digits()[0], c.q_r.digits()[0]);
        if c.q_r.bits() > 62 || r < (1 << 49) {
            return false;
        }
        if c.method == "pm1" {
            safe_for_pm1(q, r)
        } else {
            safe_for_pp1(q, r, c.seed)
        }
    } else {
        // large cofactors are used for P−1 only; r is a Pocklington prime of the kit
        if c.method != "pm1" || c.q_r.bits() < 50 {
            return false;
        }
        let key = (c.q, c.q_r);
        if verified_big_cofactors().lock().unwrap().contains(&key) {
            return true;
        }
        let r_known = (0..4).any(|i| certified_prime(c.q_r.bits(), i) == c.q_r);
        if r_known && smooth::verify_big_cofactor(&c.q, &c.q_r) {
            verified_big_cofactors().lock().unwrap().insert(key);
            true
        } else {
            false
        }
    }
}

pub fn check_pm(c: &PmCase, l: &mut Local) -> Result<(), Fail> {
    let bad = |w: &str| Fail::new("HARNESS|bad-case", format!("pm case invalid: {} {:?}", w, c));
    let cons = match c.method.as_str() {
        "pm1" => Consumer::Pm1,
        "pp1" => Consumer::Pp1,
        _ => return Err(bad("method")),
    };
    if c.b1 <= 3 || !(c.b2 >= 1.0) || c.primes.is_empty() {
        return Err(bad("bounds"));
    }
    // ground truth: re-verify the construction
    let mut n = U1024::ONE;
    for ps in &c.primes {
        if !ref_isprime64(ps.p) || ps.p < 1000 || ps.p >= 1 << 63 {
            return Err(bad("p not prime"));
        }
        let g = if ps.sign < 0 { ps.p - 1 } else { ps.p + 1 };
        let mut prod: u128 = 1;
        for &(f, e) in &ps.factors {
            if !ref_isprime64(f) || e == 0 {
                return Err(bad("factor not prime"));
            }
            for _ in 0..e {
                prod = prod.saturating_mul(f as u128);
            }
        }
        if prod != g as u128 {
            return Err(bad("factor list does not multiply to p-+1"));
        }
        if cons == Consumer::Pm1 && ps.sign > 0 {
            return Err(bad("sign"));
        }
        if cons == Consumer::Pp1 {
            if c.seed < 3 || c.seed >= ps.p - 2 {
                return Err(bad("seed"));
            }
            let disc = ((c.seed as u128 * c.seed as u128 - 4) % ps.p as u128) as u64;
            // sign +1 (group of order p+1) needs a non-residue, the control (p−1) a residue
            if jacobi64(disc, ps.p) != -(ps.sign as i32) {
                return Err(bad("jacobi symbol of seed^2-4"));
            }
        }
        n *= U1024::from(ps.p);
    }
    let has_q = !c.q.is_one();
    if has_q {
        if !cofactor_ok(c) {
            return Err(bad("cofactor certificate"));
        }
        if c.primes.iter().any(|ps| U1024::from(ps.p) == c.q) {
            return Err(bad("q equals p"));
        }
        n *= c.q;
    }
    for i in 0..c.primes.len() {
        for j in 0..i {
            if c.primes[i].p == c.primes[j].p {
                return Err(bad("repeated prime"));
            }
        }
    }
    if n.bits() > 500 {
        return Err(bad("n too large"));
    }
    // bounds actually used by the entry point
    let (b1, b2) = (c.b1, c.b2);
    match c.entry.as_str() {
        "impl" => {}
        "quick" | "only" => {
            let t = if c.entry == "quick" { PM1_QUICK } else { PM1_ONLY };
            let bits = n.bits();
            if cons != Consumer::Pm1 || !t.iter().any(|&(lo, hi, tb1, tb2)| lo <= bits && bits <= hi && tb1 == b1 && tb2 == b2) {
                return Err(bad("size class does not match the hard-wired pair"));
            }
        }
        _ => return Err(bad("entry")),
    }
    let (row, bound, cov) = bounds(cons, b2);
    let walk = cons == Consumer::Pm1 && pm1_walk(b2);

    // counters
    l.case();
    l.label(&format!("pm:{}", c.method));
    l.label(&format!("pm:entry:{}", c.entry));
    l.label(&format!("pm:shape:{}", c.shape));
    if walk {
        l.label("pm:pm1-walk");
    } else {
        l.label(&format!("pm:{}:{}", c.method, row.id()));
    }
    if cons == Consumer::Pm1 && b1 >= 65536 {
        l.label("pm:pm1-largeblocks(B1>=65536)");
    }
    let promises: Vec<Promise> = c.primes.iter().map(|ps| promise_of(&ps.factors, b1, bound)).collect();
    let mut nontrivial = false;
    for (ps, pr) in c.primes.iter().zip(&promises) {
        match pr {
            Promise::No => l.label("pm:promise:none"),
            Promise::Stage1 => l.label("pm:promise:stage1"),
            Promise::Stage2(x) => {
                l.label("pm:promise:stage2");
                let x = *x;
                let d1 = row.d1;
                if x + d1 > cov.min(bound) {
                    l.label("pm:l:top-band");
                    nontrivial = true;
                }
                if x <= b1 + d1.min(b1 / 8 + 64) {
                    l.label("pm:l:just-above-B1");
                    nontrivial = true;
                }
                if !walk {
                    let r = x % d1;
                    if r <= 2 || r + 2 >= d1 {
                        l.label("pm:l:next-to-multiple-of-d1");
                    }
                    if r.abs_diff(d1 / 2) <= 3 {
                        l.label("pm:l:b-near-d1/2");
                    }
                    if x < 2 * d1 {
                        l.label("pm:l:smallest-a");
                    }
                    if cons == Consumer::Pp1 && x < d1 / 2 {
                        l.label("pm:l:below-d1/2");
                    }
                }
                if x > cov {
                    l.label("pm:l:above-structural-coverage");
                }
            }
        }
        // maximal prime power: q^e < B1 <= q^(e+1)
        if *pr != Promise::No
            && ps.factors.iter().any(|&(f, e)| {
                let pw = (f as u128).pow(e);
                pw < b1 as u128 && pw * f as u128 >= b1 as u128 && (e >= 2 || f > b1 / 2)
            })
        {
            l.label("pm:s:maximal-prime-power");
            nontrivial = true;
        }
        if ps.sign < 0 && cons == Consumer::Pp1 {
            l.label("pm:pp1-control(p-1)");
        }
    }
    if nontrivial {
        l.nontrivial_of(&(c.method.as_str(), row.d1, row.d2, b1, c.primes[0].p));
        l.sample(&format!("pm:{}", c.method), || serde_json::to_value(c).unwrap());
    }

    // run
    let nn: Uint = n;
    let t0 = std::time::Instant::now();
    let (entry, res) = match (cons, c.entry.as_str()) {
        (Consumer::Pm1, "impl") => ("pm1_impl", guard("pm1_impl", || pollard_pm1::pm1_impl(&nn, b1, b2, Verbosity::Silent))?),
        (Consumer::Pm1, "quick") => ("pm1_quick", guard("pm1_quick", || pollard_pm1::pm1_quick(&nn, Verbosity::Silent))?),
        (Consumer::Pm1, _) => ("pm1_only", guard("pm1_only", || pollard_pm1::pm1_only(&nn, Verbosity::Silent))?),
        (_, _) => ("pp1", guard("pp1", || pp1::pp1(nn, c.seed, b1, b2, Verbosity::Silent))?),
    };
    slow_note(t0, || format!("pm {} {} B1={} bits={}", entry, row.id(), b1, nn.bits()));
    check_list(entry, &nn, &res)?;
    if res.is_some() {
        l.label("pm:returned-some");
    }
    if has_q {
        for (ps, pr) in c.primes.iter().zip(&promises) {
            let lopt = match pr {
                Promise::No => continue,
                Promise::Stage1 => None,
                Promise::Stage2(x) => Some(*x),
            };
            if !separated(&res, &Uint::from(ps.p), &c.q) {
                let mut f = miss_fail(
                    cons,
                    entry,
                    b1,
                    b2,
                    lopt,
                    format!(
                        "{}(n = {}, B1 = {}, B2 = {} reported as {}) returned {:?} but p = {} has p{}1 = {:?} (promise: {:?}) and the cofactor {} cannot be caught (prime {} divides the order of its element)",
                        entry, nn, b1, b2, row.label, res, ps.p, if ps.sign < 0 { "-" } else { "+" }, ps.factors, pr, c.q, c.q_r
                    ),
                );
                // a different factor was split off earlier in the same run (the ring was shrunk)
                if res.is_some() {
                    f.class = format!("{}|after-earlier-factor", f.class);
                }
                return Err(f);
            }
            l.label("pm:promise-kept");
        }
    }
    Ok(())
}

// ---- construction -----------------------------------------------------------

/// Smooth part: odd prime powers < b1 chosen by (kind, value).
fn pick_s(parts: &[(u8, u32)], b1: u64) -> Vec<(u64, u32)> {
    let mut out: Vec<(u64, u32)> = vec![];
    for &(kind, val) in parts {
        let val = val as u64;
        let cand: Option<(u64, u32)> = match kind % 6 {
            0 => {
                // maximal power of a small prime
                let r = [3u64, 5, 7, 11, 13, 17][(val % 6) as usize];
                if r < b1 {
                    let (mut pw, mut e) = (r, 1);
                    while pw * r < b1 {
                        pw *= r;
                        e += 1;
                    }
                    Some((r, e))
                } else {
                    None
                }
            }
            1 => Some((prime_at_most(3 + val % (b1 - 3)), 1)),
            2 => Some((prev_prime(b1), 1)),
            3 => {
                // square or cube of a prime just below B1
                let k = 2 + (val % 2) as u32;
                let mut r = ((b1 - 1) as f64).powf(1.0 / k as f64) as u64 + 1;
                while r >= 3 && (!ref_isprime64(r) || (r as u128).pow(k) >= b1 as u128) {
                    r -= 1;
                }
                if r >= 3 {
                    Some((r, k))
                } else {
                    None
                }
            }
            4 => {
                if val % 2 == 0 {
                    // the small prime whose maximal power is closest below B1
                    let mut best: Option<(u64, u64, u32)> = None;
                    for r in [3u64, 5, 7, 11, 13, 17, 19, 23] {
                        if r * r < b1 {
                            let (mut pw, mut e) = (r, 1);
                            while pw * r < b1 {
                                pw *= r;
                                e += 1;
                            }
                            if best.map_or(true, |b| pw > b.0) {
                                best = Some((pw, r, e));
                            }
                        }
                    }
                    best.map(|(_, r, e)| (r, e))
                } else {
                    Some((prime_at_most(3 + val % (b1.min(1000) - 3)), 1))
                }
            }
            _ => Some((prev_prime(prev_prime(b1).max(5)), 1)),
        };
        if let Some((f, e)) = cand {
            if f >= 3 && (f as u128).pow(e) < b1 as u128 && !out.iter().any(|x| x.0 == f) {
                out.push((f, e));
            }
        }
    }
    out
}

/// Stage-2 prime by kind, edge weighted.  None = pure stage-1 case.
fn pick_l(kind: u8, r: &mut SplitMix, cons: Consumer, b1: u64, b2: f64) -> Option<u64> {
    let (row, hi, cov) = bounds(cons, b2);
    let d1 = row.d1;
    let first = next_prime(b1);
    if first > hi {
        return None;
    }
    let inside = |x: u64| -> u64 {
        if x > b1 && x <= hi && ref_isprime64(x) {
            x
        } else if x > hi {
            prime_at_most(hi)
        } else {
            let y = next_prime(x.max(b1));
            if y <= hi {
                y
            } else {
                first
            }
        }
    };
    let amin = b1 / d1 + 1;
    let amax = (hi / d1).max(amin);
    let pick_a = |r: &mut SplitMix| match r.below(6) {
        0 => amin,
        1 => amin + 1,
        2 => amax,
        3 => amax.saturating_sub(1).max(amin),
        _ => amin + r.below(amax - amin + 1),
    };
    let v = match kind % 14 {
        0 | 1 => return None,
        2 => first,
        3 => prime_at_most(hi),
        4 => prime_at_most(cov.min(hi)),
        5 => {
            let x = next_prime(cov);
            if x <= hi {
                x
            } else {
                prime_at_most(hi)
            }
        }
        6 => {
            let a = pick_a(r);
            if r.below(2) == 0 {
                inside(next_prime(a * d1))
            } else {
                inside(prev_prime(a * d1))
            }
        }
        7 => {
            let a = pick_a(r);
            let mid = a * d1 + d1 / 2;
            if r.below(2) == 0 {
                inside(prev_prime(mid + 1))
            } else {
                inside(next_prime(mid - 1))
            }
        }
        8 => inside(prime_at_most(b1 + 1 + r.below(hi - b1))),
        9 => inside(prime_at_most(hi - r.below((2 * d1).min(hi - b1)))),
        10 => {
            if b1 < d1 / 2 {
                inside(prime_at_most(b1 + 1 + r.below(d1 / 2 + d1 / 4 - b1)))
            } else {
                inside(prime_at_most(b1 + 1 + r.below((hi - b1).min(4 * d1))))
            }
        }
        11 => {
            // beyond the promise: negative control
            let x = next_prime(hi + r.below(d1));
            return Some(x);
        }
        12 => {
            // exactly ±1 mod d1
            let mut a = pick_a(r);
            let sgn = r.below(2);
            let mut found = None;
            for _ in 0..400 {
                let x = if sgn == 0 { a * d1 + 1 } else { a * d1 - 1 };
                if x > b1 && x <= hi && ref_isprime64(x) {
                    found = Some(x);
                    break;
                }
                a = if a >= amax { amin } else { a + 1 };
            }
            found.unwrap_or(first)
        }
        _ => {
            // top band of the structural coverage
            let top = cov.min(hi);
            inside(prime_at_most(top.saturating_sub(r.below(d1)).max(b1 + 1)))
        }
    };
    if v > b1 {
        Some(v)
    } else {
        Some(first)
    }
}

/// p = 2^a · s · ℓ · m ∓ 1 prime (sign −1: p−1 = ..., +1: p+1 = ...), m odd and coprime to s·ℓ.
fn build_prime(r: &mut SplitMix, sign: i8, b1: u64, two_kind: u8, mut s: Vec<(u64, u32)>, l: Option<u64>) -> PrimeSpec {
    // 2-adic valuation: 2^a < b1
    let mut amax = 1u32;
    while (1u64 << (amax + 1)) < b1 {
        amax += 1;
    }
    let a = match two_kind % 4 {
        0 => amax,
        1 => 1,
        _ => 1 + r.below(amax as u64) as u32,
    };
    loop {
        let mut g: u128 = 1u128 << a;
        for &(f, e) in &s {
            g = g.saturating_mul((f as u128).pow(e));
        }
        if let Some(x) = l {
            g = g.saturating_mul(x as u128);
        }
        if g >= 1u128 << 56 {
            if s.pop().is_none() {
                // ℓ alone is huge: use the smallest power of two
                return build_prime(r, sign, b1, 1, vec![], l);
            }
            continue;
        }
        let g = g as u64;
        let mut m = 1 + 2 * r.below(40);
        for _ in 0..4000 {
            let shares = s.iter().any(|&(f, _)| m % f == 0) || l.map_or(false, |x| m % x == 0);
            let big = g as u128 * m as u128;
            if big >= 1u128 << 62 {
                break;
            }
            let p = if sign < 0 { big as u64 + 1 } else { big as u64 - 1 };
            if !shares && p > 70000 && ref_isprime64(p) {
                let mut fs: Vec<(u64, u32)> = vec![(2, a)];
                fs.extend(s.iter().copied());
                if let Some(x) = l {
                    fs.push((x, 1));
                }
                for (f, e) in small_factors(m) {
                    if let Some(t) = fs.iter_mut().find(|t| t.0 == f) {
                        t.1 += e;
                    } else {
                        fs.push((f, e));
                    }
                }
                fs.sort();
                return PrimeSpec { p, sign, factors: fs };
            }
            m += 2;
        }
        // no prime found below 2^62: shrink the smooth part
        if s.pop().is_none() {
            // give up on ℓ structure: tiny fallback
            let mut m = 3u64;
            loop {
                let p = if sign < 0 { g * m + 1 } else { g * m - 1 };
                if p > 70000 && ref_isprime64(p) {
                    let mut fs = vec![];
                    let gg = if sign < 0 { p - 1 } else { p + 1 };
                    for (f, e) in crate::oracle::int::factor_u64(gg) {
                        fs.push((f, e));
                    }
                    return PrimeSpec { p, sign, factors: fs };
                }
                m += 2;
            }
        }
    }
}

#[derive(Clone, Debug)]
struct PmConfig {
    cons: Consumer,
    b2: f64,
    /// hard-wired B1 paired with this b2, if any
    paired_b1: Option<u64>,
    weight: u32,
}

fn pm_configs(thorough: bool) -> Vec<PmConfig> {
    let mut out = vec![];
    let w = |d2: u64| -> u32 {
        if d2 <= 4096 {
            48
        } else if d2 <= 16384 {
            12
        } else if d2 <= 65536 {
            3
        } else {
            1
        }
    };
    // P-1: every row a polynomial-evaluation run can select, the prime-walk values, hard-wired b2
    // rows above d2 = 2^17 need ~1 GiB each: they are run one at a time by `big_row_cases`
    let pm1_max = max_d2(thorough).min(1 << 17);
    for r in Consumer::Pm1.table() {
        if r.d2 <= pm1_max && !pm1_walk(r.label) {
            out.push(PmConfig { cons: Consumer::Pm1, b2: r.label, paired_b1: None, weight: 3 * w(r.d2) });
        }
    }
    for b2 in [30e3, 60e3, 40e3, 16e3, 80e3] {
        out.push(PmConfig { cons: Consumer::Pm1, b2, paired_b1: if b2 == 40e3 { Some(600) } else { None }, weight: 40 });
    }
    for &(_, _, b1, b2) in PM1_QUICK.iter().chain(PM1_ONLY.iter()) {
        let row = Consumer::Pm1.select(b2);
        let b1cap = if thorough { 8 << 20 } else { 1 << 20 };
        if row.d2 <= pm1_max && b1 <= b1cap && !pm1_walk(b2) {
            out.push(PmConfig { cons: Consumer::Pm1, b2, paired_b1: Some(b1), weight: 2 * w(row.d2) });
        }
    }
    // P+1: every row of the shared table in budget (+ the values used by the repository's tests)
    // (time budget: a P+1 stage 2 with d2 = 65536 takes 10 s; quick tier stops at d2 = 8192)
    let pp1_max = if thorough { 1 << 16 } else { 1 << 13 };
    for r in Consumer::Pp1.table() {
        if r.d2 <= pp1_max {
            out.push(PmConfig { cons: Consumer::Pp1, b2: r.label, paired_b1: None, weight: w(r.d2 * 4).max(1) * if r.d2 <= 400 { 2 } else { 1 } });
        }
    }
    for (b1, b2) in [(1500u64, 30e3), (80_000, 28e6), (2000, 28e6)] {
        out.push(PmConfig { cons: Consumer::Pp1, b2, paired_b1: Some(b1), weight: 6 });
    }
    out
}

fn pick_b1(kind: u8, val: u32, r: &mut SplitMix, cfg: &PmConfig, lo_min: u64, cap: u64) -> u64 {
    let val = val as u64;
    let v = match kind % 12 {
        0 | 1 => cfg.paired_b1.unwrap_or(600 + val % 3000),
        2 | 3 => lo_min + val % 2000,
        4 => 2000 + val % 68000,
        5 => [65521u64, 65535, 65536, 65537, 65538, 65539, 65540, 70000, 131072][(val % 9) as usize],
        6 => {
            let k = 5 + val % 16;
            (1u64 << k).wrapping_add([0u64, 1, u64::MAX][(r.below(3)) as usize])
        }
        7 => {
            // a prime, one more, one less: is a prime equal to B1 itself in stage 1?
            let p = prime_at_most(40 + val % 60000);
            p + r.below(3) - 1
        }
        8 => {
            // prime power boundary
            let q = [3u64, 5, 7, 11, 13][(val % 5) as usize];
            let mut pw = q * q;
            let stop = 1 + r.below(6);
            for _ in 0..stop {
                if pw * q < 200_000 {
                    pw *= q;
                }
            }
            pw + r.below(2)
        }
        9 => [20u64, 200, 2000, 16384, 30000, 80000, 1500][(val % 7) as usize],
        10 => 70_000 + val % (cap.max(70_001) - 70_000),
        _ => cfg.paired_b1.unwrap_or(lo_min + val % 500),
    };
    v.clamp(lo_min, cap.max(lo_min))
}

type PmRaw = (u16, (u8, u32), u8, u8, Vec<(u8, u32)>, u8, u8, u64);

fn build_pm_case(configs: &[PmConfig], thorough: bool, raw: PmRaw) -> PmCase {
    let (cfg_i, (b1_kind, b1_val), l_kind, l_kind2, parts, shape, two_kind, seed) = raw;
    let mut r = SplitMix(seed ^ 0xC16);
    // weighted config choice, monotone in cfg_i
    let total: u64 = configs.iter().map(|c| c.weight as u64).sum();
    let mut t = (cfg_i as u64 * total) >> 16;
    let mut cfg = &configs[0];
    for c in configs {
        if t < c.weight as u64 {
            cfg = c;
            break;
        }
        t -= c.weight as u64;
    }
    let cons = cfg.cons;
    let row = cons.select(cfg.b2);
    let lpf = largest_prime_factor(row.d1);
    let lo_min = (lpf + 1).max(12);
    // cost caps: stage 1 is linear in B1 (P+1: two multiplications per bit)
    let cap = match (cons, thorough) {
        (Consumer::Pm1, false) => 1_100_000,
        (Consumer::Pm1, true) => 9_000_000,
        (_, false) => 200_000,
        (_, true) => 1_000_000,
    };
    let b1 = pick_b1(b1_kind, b1_val, &mut r, cfg, lo_min, cap);
    let b2 = cfg.b2;
    let method = cons.name().to_string();
    let shape_name = match shape % 16 {
        0..=8 => "p*q",
        9 | 10 => "p1*p2*q",
        11 => "p1*p2*q(same-l)",
        12 => "p-alone",
        13 => "p1*p2(same-l)",
        _ => "p1*p2",
    };
    // P+1 control: element of order dividing p−1
    let control = cons == Consumer::Pp1 && shape % 16 == 8;
    let sign: i8 = if cons == Consumer::Pm1 || control { -1 } else { 1 };
    let l1 = pick_l(l_kind, &mut r, cons, b1, b2);
    let s1 = pick_s(&parts, b1);
    let mut primes = vec![build_prime(&mut r, sign, b1, two_kind, s1, l1)];
    if shape_name != "p*q" && shape_name != "p-alone" {
        let l2 = if shape_name.contains("same-l") { l1 } else { pick_l(l_kind2, &mut r, cons, b1, b2) };
        let parts2: Vec<(u8, u32)> = parts.iter().map(|&(k, v)| (k.wrapping_add(1), v.rotate_left(7) ^ 0x5bd1)).collect();
        for _ in 0..8 {
            let s2 = pick_s(&parts2, b1);
            let p2 = build_prime(&mut r, sign, b1, two_kind.wrapping_add(1), s2, l2);
            if p2.p != primes[0].p {
                primes.push(p2);
                break;
            }
        }
    }
    let want_q = matches!(shape_name, "p*q" | "p1*p2*q" | "p1*p2*q(same-l)");
    let pool = safe_cofactors();
    let mut case = PmCase {
        method,
        entry: "impl".into(),
        b1,
        b2,
        seed: 0,
        primes,
        q: U1024::ONE,
        q_r: U1024::ZERO,
        shape: shape_name.into(),
    };
    if cons == Consumer::Pm1 {
        if want_q {
            let c = pool[r.below(pool.len() as u64) as usize];
            case.q = U1024::from(c.q);
            case.q_r = U1024::from(c.r);
        }
        return case;
    }
    // P+1: a seed with the right quadratic characters (and a cofactor it cannot catch)
    let s0 = 3 + r.below(60);
    let qi0 = r.below(pool.len() as u64) as usize;
    for k in 0..600u64 {
        let seed = s0 + k;
        let ok_p = case.primes.iter().all(|ps| {
            let disc = ((seed as u128 * seed as u128 - 4) % ps.p as u128) as u64;
            jacobi64(disc, ps.p) == -(ps.sign as i32)
        });
        if !ok_p {
            continue;
        }
        if !want_q {
            case.seed = seed;
            return case;
        }
        for dq in 0..4 {
            let c = pool[(qi0 + dq) % pool.len()];
            if safe_for_pp1(c.q, c.r, seed) {
                case.seed = seed;
                case.q = U1024::from(c.q);
                case.q_r = U1024::from(c.r);
                return case;
            }
        }
    }
    // no seed found (practically impossible): degrade to the first prime alone
    case.primes.truncate(1);
    case.shape = "p-alone".into();
    let ps = &case.primes[0];
    case.seed = (3..5000u64)
        .find(|&s| jacobi64(((s as u128 * s as u128 - 4) % ps.p as u128) as u64, ps.p) == -(ps.sign as i32))
        .unwrap_or(3);
    case
}

pub fn pm_strategy(thorough: bool) -> impl Strategy<Value = PmCase> {
    let configs = pm_configs(thorough);
    (
        any::<u16>(),
        (0u8..12, any::<u32>()),
        0u8..14,
        0u8..14,
        proptest::collection::vec((0u8..6, any::<u32>()), 0..4),
        0u8..16,
        0u8..4,
        any::<u64>(),
    )
        .prop_map(move |raw| build_pm_case(&configs, thorough, raw))
}

// ---------------------------------------------------------------------------
// Check `ecm`: single-curve runs predicted by the point-order oracle

#[derive(Clone, Debug, Serialize, Deserialize)]
pub struct EcmCase {
    /// "ecm" (ecm::ecm_curve), "ecm128" (ecm128::ecm_curve), "ecm128_pub" (public ecm128(n, false))
    pub imp: String,
    /// 0: Suyama-11 curve of `seed` (a = −1); 1: a = 1 curve through the point (x, y)
    pub family: u8,
    pub seed: u32,
    pub x: u64,
    pub y: u64,
    pub p: u64,
    pub q: u64,
    pub b1: u64,
    pub b2: f64,
    pub origin: String,
}

struct LibCurve {
    zn: ZmodN,
    curve: ecm::Curve,
    /// the Suyama point (input of the 128-bit implementation)
    point: Option<ecm::Point>,
    a_minus_one: bool,
    xyz: (Uint, Uint, Uint),
    d: Uint,
}

/// The library's curve and starting point for (n, family, seed | x, y).  These are *inputs*
/// of the prediction.  Ok(None): the library could not build the curve (unexpected factor).
fn lib_curve(n: &Uint, family: u8, seed: u32, x: u64, y: u64) -> Result<Option<LibCurve>, Fail> {
    let zn = ZmodN::new(*n);
    let built: Option<(ecm::Curve, Option<ecm::Point>)> = guard("ecm.curve-construction", || {
        if family == 0 {
            let Ok(su) = ecm::Suyama11::new(&zn) else { return None };
            let Ok(el) = su.element(seed) else { return None };
            let Ok(g) = su.params_point(&el) else { return None };
            let Ok(c) = ecm::Curve::twisted_from_point(zn.clone(), g.clone()) else { return None };
            Some((c, Some(g)))
        } else {
            let Ok(c) = ecm::Curve::from_point(zn.clone(), x, y) else { return None };
            Some((c, None))
        }
    })?;
    let Some((curve, point)) = built else { return Ok(None) };
    let (gx, gy, gz) = ecm::verif_c16_point_xyz(curve.gen());
    let xyz = (zn.to_int(gx), zn.to_int(gy), zn.to_int(gz));
    let (a, d) = curve.a_d();
    Ok(Some(LibCurve { zn, curve, point, a_minus_one: a == -1, xyz, d }))
}

fn red(x: &Uint, p: u64) -> u64 {
    (*x % Uint::from(p)).digits()[0]
}

fn order_mod(lc: &LibCurve, p: u64) -> Option<OrderInfo> {
    ecorder::order_of_projective(p, lc.a_minus_one, (red(&lc.xyz.0, p), red(&lc.xyz.1, p), red(&lc.xyz.2, p)), Some(red(&lc.d, p)))
        .map(|t| t.1)
}

/// q can never be caught by a run with (b1, row): a prime r | ord_q(G) exceeds B1 and every
/// multiplier a·d1 ± b, b, a·d1 (and their pairwise sums) that stage 2 ever forms.
fn ecm_safe(ord: &OrderInfo, b1: u64, row: &Row) -> bool {
    let lim = 4 * (Consumer::Ecm.cov(row) + row.d1) + b1;
    ord.factors.iter().any(|&(r, _)| r > lim)
}

fn ecm128_class(bits: u32) -> Option<(usize, u64, f64)> {
    ECM128_PAIRS
        .iter()
        .find(|&&(lo, hi, harder, _, _, _)| !harder && lo <= bits && bits <= hi)
        .map(|&(_, _, _, curves, b1, b2)| (curves, b1, b2))
}

pub fn check_ecm(c: &EcmCase, l: &mut Local) -> Result<(), Fail> {
    let bad = |w: &str| Fail::new("HARNESS|bad-case", format!("ecm case invalid: {} {:?}", w, c));
    if !ref_isprime64(c.p) || !ref_isprime64(c.q) || c.p == c.q || c.p < 5 || c.q < 5 || c.p >= 1 << 42 || c.q >= 1 << 42 {
        return Err(bad("p, q must be distinct primes in [5, 2^42)"));
    }
    if c.b1 < 8 || c.family > 1 || (c.family == 0 && c.seed < 2) || (c.family == 1 && (c.x == 0 || c.y == 0 || c.x >= 1 << 31 || c.y >= 1 << 31)) {
        return Err(bad("parameters"));
    }
    let n128 = c.p as u128 * c.q as u128;
    let n = uint(n128);
    l.case();
    l.label(&format!("ecm:imp:{}", c.imp));
    l.label(&format!("ecm:origin:{}", c.origin));
    let cons = if c.imp == "ecm" { Consumer::Ecm } else { Consumer::Ecm128 };

    if c.imp == "ecm128_pub" {
        // the public entry point: curves of seeds 2..=curves+1 with the pair wired for this size
        let Some((curves, b1, b2)) = ecm128_class(n.bits()) else { return Err(bad("size")) };
        if b1 != c.b1 || b2 != c.b2 || c.family != 0 {
            return Err(bad("pair does not match the size class"));
        }
        let (row, bound, _) = bounds(cons, b2);
        l.label(&format!("ecm:pub:B1={},B2={}", b1, b2));
        let mut expect: Option<(u32, Promise, &'static str)> = None;
        for seed in 2..=(curves as u32 + 1) {
            let Some(lc) = lib_curve(&n, 0, seed, 0, 0)? else {
                // the library returns the unexpected factor or skips the curve
                l.label("ecm:curve-err");
                continue;
            };
            let (Some(op), Some(oq)) = (order_mod(&lc, c.p), order_mod(&lc, c.q)) else {
                l.label("ecm:no-prediction");
                continue;
            };
            let (pp, pq) = (promise_of(&op.factors, b1, bound), promise_of(&oq.factors, b1, bound));
            if pp != Promise::No && ecm_safe(&oq, b1, &row) {
                expect = Some((seed, pp, "p"));
                break;
            }
            if pq != Promise::No && ecm_safe(&op, b1, &row) {
                expect = Some((seed, pq, "q"));
                break;
            }
        }
        let mut prefs = Preferences::default();
    prefs.verbosity = Verbosity::Silent;
        let res = guard("ecm128", || ecm128::ecm128(n, false, &prefs))?;
        check_pair("ecm128", &n, &res)?;
        if let Some((seed, pr, which)) = expect {
            l.label("ecm:pub:promise");
            l.nontrivial_of(&("ecm128_pub", n128));
            if let Promise::Stage2(x) = pr {
                if x <= row.d1 / 2 {
                    l.label("ecm:l:in-(B1,d1/2]");
                }
            }
            if let (Promise::Stage2(x), true) = (pr, res.is_some()) {
                if x <= row.d1 / 2 {
                    l.label(&format!("ecm:gap-kept:ecm128():B1={},l={}", b1, x));
                }
            }
            if res.is_none() {
                let lopt = if let Promise::Stage2(x) = pr { Some(x) } else { None };
                return Err(miss_fail(
                    cons,
                    "ecm128",
                    b1,
                    b2,
                    lopt,
                    format!(
                        "ecm128({} = {} x {}) returned None although the curve of seed {} has a point whose order mod {} fulfils the promise {:?} for B1 = {}, B2 = {} and the other prime cannot be caught on it",
                        n128, c.p, c.q, seed, which, pr, b1, b2
                    ),
                ));
            }
            l.label("ecm:promise-kept");
        } else {
            l.label("ecm:pub:no-promise");
        }
        return Ok(());
    }

    let Some(lc) = lib_curve(&n, c.family, c.seed, c.x, c.y)? else {
        l.label("ecm:curve-err");
        return Ok(());
    };
    if c.imp == "ecm128" && c.family != 0 {
        return Err(bad("ecm128 runs twisted curves only"));
    }
    let (row, bound, cov) = bounds(cons, c.b2);
    l.label(&format!("ecm:{}:{}", cons.name(), row.id()));
    let (op, oq) = (order_mod(&lc, c.p), order_mod(&lc, c.q));
    // run
    let t0 = std::time::Instant::now();
    let (entry, res): (&str, Option<(Uint, Uint)>) = if c.imp == "ecm" {
        let sb = guard("SmoothBase::new", || ecm::SmoothBase::new(c.b1 as usize, true))?;
        ("ecm.ecm_curve", guard("ecm.ecm_curve", || ecm::verif_ecm_curve(&sb, &lc.zn, &lc.curve, c.b2))?)
    } else {
        let g = lc.point.as_ref().unwrap();
        let r = guard("ecm128.ecm_curve", || ecm128::verif_c16_ecm_curve(n128, g, c.b1, c.b2))?;
        ("ecm128.ecm_curve", r.map(|(a, b)| (uint(a), uint(b))))
    };
    slow_note(t0, || format!("ecm {} {} B1={}", entry, row.id(), c.b1));
    check_pair(entry, &n, &res)?;
    if res.is_some() {
        l.label("ecm:returned-some");
    }
    let (Some(op), Some(oq)) = (op, oq) else {
        l.label("ecm:no-prediction");
        return Ok(());
    };
    let pp = promise_of(&op.factors, c.b1, bound);
    match pp {
        Promise::No => {
            l.label("ecm:promise:none");
            return Ok(());
        }
        Promise::Stage1 => l.label("ecm:promise:stage1"),
        Promise::Stage2(_) => l.label("ecm:promise:stage2"),
    }
    if !ecm_safe(&oq, c.b1, &row) {
        l.label("ecm:q-could-be-caught");
        return Ok(());
    }
    let mut nontrivial = false;
    if let Promise::Stage2(x) = pp {
        let d1 = row.d1;
        if x + d1 > cov.min(bound) {
            l.label("ecm:l:top-band");
            nontrivial = true;
        }
        if x <= c.b1 + d1.min(c.b1 / 8 + 64) {
            l.label("ecm:l:just-above-B1");
            nontrivial = true;
        }
        if x <= d1 / 2 {
            l.label("ecm:l:in-(B1,d1/2]");
            nontrivial = true;
        }
        let r = x % d1;
        if r <= 2 || r + 2 >= d1 {
            l.label("ecm:l:next-to-multiple-of-d1");
            nontrivial = true;
        }
        if r.abs_diff(d1 / 2) <= 3 {
            l.label("ecm:l:b-near-d1/2");
            nontrivial = true;
        }
        if x > d1 / 2 && x < 2 * d1 {
            l.label("ecm:l:smallest-a");
        }
        if x > cov {
            l.label("ecm:l:above-structural-coverage");
        }
    }
    if op.factors.iter().any(|&(f, e)| {
        let pw = (f as u128).pow(e);
        pw < c.b1 as u128 && pw * f as u128 >= c.b1 as u128 && (e >= 2 || f > c.b1 / 2)
    }) {
        l.label("ecm:s:maximal-prime-power");
        nontrivial = true;
    }
    if nontrivial {
        l.nontrivial_of(&(c.imp.as_str(), row.d1, row.d2, c.b1, c.p, c.seed, c.x));
        l.sample(&format!("ecm:{}", c.imp), || serde_json::to_value(c).unwrap());
    }
    if res.is_none() {
        let lopt = if let Promise::Stage2(x) = pp { Some(x) } else { None };
        return Err(miss_fail(
            cons,
            entry,
            c.b1,
            c.b2,
            lopt,
            format!(
                "{}(n = {} = {} x {}, curve family {} seed {} point ({}, {}), B1 = {}, B2 = {} reported as {}) returned None but the starting point has order {} = {:?} mod p (promise {:?}) and order {} = {:?} mod q (cannot be caught)",
                entry, n128, c.p, c.q, c.family, c.seed, c.x, c.y, c.b1, c.b2, row.label, op.order, op.factors, pp, oq.order, oq.factors
            ),
        ));
    }
    l.label("ecm:promise-kept");
    if let Promise::Stage2(x) = pp {
        if x <= row.d1 / 2 {
            l.label(&format!("ecm:gap-kept:{}:B1={},l={}", entry, c.b1, x));
        }
    }
    Ok(())
}

// ---- construction -----------------------------------------------------------

/// Order of the library's starting point for the prime modulus p itself.
fn lib_order_mod_prime(p: u64, family: u8, seed: u32, x: u64, y: u64) -> Option<OrderInfo> {
    let lc = lib_curve(&aux_modulus(p), family, seed, x, y).ok()??;
    order_mod(&lc, p)
}

/// Modulus used when the generators ask the library for a curve "mod p": p itself, or p times a
/// fixed auxiliary prime when p is so small that the library's set-up constants (10582, 361)
/// would not be reduced (debug assertion of `ZmodN::from_int`); results are reduced mod p.
fn aux_modulus(p: u64) -> Uint {
    if p < 1 << 16 {
        Uint::from(p as u128 * 1_000_003u128)
    } else {
        Uint::from(p)
    }
}

fn ecm_rows(thorough: bool) -> Vec<Row> {
    Consumer::Ecm.table().into_iter().filter(|r| r.d2 <= max_d2(thorough)).collect()
}

/// Search (p, seed) such that the Suyama-11 point of `seed` has order s·ℓ mod p with s
/// B1-powersmooth: p is taken next to a multiple N = 12·t·ℓ (t smooth) and seeds are tried
/// until [N]G = O (then the exact order decides).
fn search_order(r: &mut SplitMix, b1: u64, bound: u64, l: u64, seed_lo: u32, seed_hi: u32, min_bits: u32, budget: u32) -> Option<(u64, u32)> {
    // smooth multiplier t with 12·t·ℓ >= 2^min_bits and every prime power of 12·t below b1
    let target = (1u128 << min_bits).max(12 * l as u128 * 2);
    let tmin = ((target + 12 * l as u128 - 1) / (12 * l as u128)) as u64;
    let mut tries = 0u32;
    while tries < budget {
        let mut t = 0u64;
        for _ in 0..200 {
            let cand = tmin + r.below(tmin + 2);
            if promise_of(&small_factors(12 * cand), b1, 0) == Promise::Stage1 && cand % l != 0 {
                t = cand;
                break;
            }
        }
        if t == 0 {
            return None;
        }
        let nn = 12 * t as u128 * l as u128;
        if nn >= 1u128 << 41 {
            return None;
        }
        let nn = nn as u64;
        let w = ((nn as f64).sqrt() * 1.5) as u64;
        // a few primes around N − 1
        for _ in 0..6 {
            let p = next_prime(nn - 1 - w + r.below(2 * w));
            if p.abs_diff(nn - 1) > 2 * (nn as f64).sqrt() as u64 - 2 || p % 3 == 0 {
                continue;
            }
            if p == 1_000_003 {
                continue;
            }
            let zn = ZmodN::new(aux_modulus(p));
            let Ok(Ok(su)) = crate::engine::catch(|| ecm::Suyama11::new(&zn)) else { continue };
            for _ in 0..40 {
                tries += 1;
                let seed = seed_lo + r.below((seed_hi - seed_lo + 1) as u64) as u32;
                let Ok(Some(g)) = crate::engine::catch(|| {
                    let el = su.element(seed).ok()?;
                    su.params_point(&el).ok()
                }) else {
                    continue;
                };
                let (gx, gy, gz) = ecm::verif_c16_point_xyz(&g);
                let zi = match ecorder::invm(red(&zn.to_int(gz), p), p) {
                    Some(z) => z,
                    None => continue,
                };
                let ax = ecorder::mulm(red(&zn.to_int(gx), p), zi, p);
                let ay = ecorder::mulm(red(&zn.to_int(gy), p), zi, p);
                if ax == 0 || ay == 0 {
                    continue;
                }
                let Some(ed) = ecorder::EdCurve::through_point(p, true, ax, ay) else { continue };
                let Some((m, pt)) = ed.to_montgomery(ax, ay) else { continue };
                if m.mul(nn, &pt) != ecorder::MPoint::Inf {
                    continue;
                }
                let oi = ecorder::order_from_multiple(&m, &pt, nn);
                if promise_of(&oi.factors, b1, bound) == Promise::Stage2(l) {
                    return Some((p, seed));
                }
            }
        }
    }
    None
}

/// A cofactor prime that the run on this curve cannot catch (best effort: the check decides).
fn pick_safe_q(r: &mut SplitMix, p: u64, family: u8, seed: u32, x: u64, y: u64, b1: u64, row: &Row, qbits: u32) -> u64 {
    let mut q = 0;
    for _ in 0..8 {
        q = prime64(qbits, r);
        if q == p || q % 3 == 0 {
            continue;
        }
        if let Some(o) = lib_order_mod_prime(q, family, seed, x, y) {
            if ecm_safe(&o, b1, row) {
                return q;
            }
        }
    }
    if q == p || q == 0 {
        next_prime(q.max(p) + 2)
    } else {
        q
    }
}

type EcmRaw = (u8, u8, u32, u8, u8, u16, u64);

fn build_ecm_case(thorough: bool, allow_search: bool, raw: EcmRaw) -> EcmCase {
    let (imp_sel, pbits_sel, seed_raw, mode, l_kind, cfg_i, derived) = raw;
    let mut r = SplitMix(derived ^ 0xEC16);
    let (imp, family) = match imp_sel % 12 {
        0..=3 => ("ecm", 0u8),
        4 => ("ecm", 1),
        5..=8 => ("ecm128", 0),
        _ => ("ecm128_pub", 0),
    };
    let cons = if imp == "ecm" { Consumer::Ecm } else { Consumer::Ecm128 };
    let rows = ecm_rows(thorough);

    if imp == "ecm128_pub" {
        // size classes up to 80 bits; the three smallest (B1 < d1/2) are over-weighted
        let class = [0usize, 0, 0, 1, 1, 1, 2, 2, 2, 3, 3, 4, 4, 5, 5, 6][(cfg_i as usize * 16) >> 16];
        let (lo, hi, _, curves, b1, b2) = ECM128_PAIRS[class];
        let (row, bound, _) = bounds(cons, b2);
        let nbits = (lo.max(26) + r.below((hi - lo.max(26) + 1) as u64) as u32).min(hi);
        let pbits = (nbits / 2 - r.below(3) as u32).clamp(12, 39);
        let mut found: Option<(u64, u32)> = None;
        if allow_search && pbits <= 28 {
            if let Some(x) = pick_l(l_kind.max(2), &mut r, cons, b1, b2) {
                if x <= bound {
                    found = search_order(&mut r, b1, bound, x, 2, curves as u32 + 1, pbits, 3000);
                }
            }
        }
        let (p, seed) = found.unwrap_or_else(|| (prime64(pbits, &mut r), 2));
        let pb = 64 - p.leading_zeros();
        // q so that n has nbits bits
        let mut q = 0;
        for _ in 0..40 {
            let qb = (nbits + r.below(2) as u32).saturating_sub(pb).clamp(10, 41);
            q = pick_safe_q(&mut r, p, 0, seed, 0, 0, b1, &row, qb);
            let nb = 128 - (p as u128 * q as u128).leading_zeros();
            if nb >= lo && nb <= hi && q != p && q % 3 != 0 && q >= 5 {
                break;
            }
            q = 0;
        }
        if q == 0 {
            // fall back to any pair of primes in the class
            let mut qq = next_prime(((1u128 << (nbits - 1)) / p as u128 + 7) as u64);
            while qq == p || qq % 3 == 0 {
                qq = next_prime(qq);
            }
            q = qq;
        }
        let nb = 128 - (p as u128 * q as u128).leading_zeros();
        let (_, b1, b2) = ecm128_class(nb).unwrap_or((curves, b1, b2));
        return EcmCase { imp: imp.into(), family: 0, seed: 2, x: 0, y: 0, p, q, b1, b2, origin: if found.is_some() { "targeted".into() } else { "natural".into() } };
    }

    // curve
    let seed: u32 = match seed_raw % 4 {
        0 | 1 => 2 + (seed_raw >> 2) % 100,
        2 => (2 + (seed_raw >> 2)) & 0xffff | 2,
        _ => seed_raw.max(2),
    };
    let (x, y) = if family == 1 {
        if seed_raw % 3 == 0 {
            (2 + (seed_raw as u64 >> 3) % 100_000, 3 + (r.next() >> 40) % 100_000)
        } else {
            let k = (seed_raw as u64 >> 3) % (1 << 24);
            (3 * k + 5, 4 * k + 5)
        }
    } else {
        (0, 0)
    };
    let pairs: Vec<(u64, f64)> = if cons == Consumer::Ecm {
        ECM_PAIRS.iter().copied().collect()
    } else {
        ECM128_PAIRS.iter().map(|t| (t.4, t.5)).chain(ECM_SEMIPRIME_PAIRS.iter().copied()).collect()
    };
    let b1cap: u64 = if thorough { 1_600_000 } else { 120_000 };
    let labelcap: f64 = if r.below(24) == 0 { if thorough { 3e9 } else { 4e8 } } else if thorough { 4e8 } else { 4e7 };

    // targeted: a hard-wired pair or a generated (B1, row), ℓ on an edge, search for the order
    if family == 0 && allow_search {
        let usable: Vec<(u64, f64)> = pairs
            .iter()
            .copied()
            .filter(|&(b1, b2)| b1 <= b1cap && b2 <= if thorough { 4e7 } else { 2.4e6 } && cons.select(b2).d2 <= max_d2(thorough))
            .collect();
        let (b1, b2) = if mode % 2 == 0 && !usable.is_empty() {
            usable[(cfg_i as usize * usable.len()) >> 16]
        } else {
            let small: Vec<&Row> = rows.iter().filter(|r| r.label <= if thorough { 4e7 } else { 2.4e6 }).collect();
            let row = small[(cfg_i as usize * small.len()) >> 16];
            let lpf = largest_prime_factor(row.d1);
            let b1 = match r.below(5) {
                0 => lpf + 1 + r.below(20),
                1 => (row.d1 / 2).saturating_sub(r.below(row.d1 / 4 + 1)).max(lpf + 1),
                2 => row.d1 / 2 + r.below(row.d1),
                _ => (row.label_u() / (4 + r.below(60))).max(lpf + 1),
            };
            (b1.clamp(12, b1cap), row.label)
        };
        let (row, bound, _) = bounds(cons, b2);
        if let Some(lx) = pick_l(l_kind.max(2), &mut r, cons, b1, b2) {
            if lx <= bound {
                let min_bits = 18 + (pbits_sel % 8) as u32;
                if let Some((p, seed)) = search_order(&mut r, b1, bound, lx, 2, 400, min_bits, if thorough { 20000 } else { 5000 }) {
                    let q = pick_safe_q(&mut r, p, 0, seed, 0, 0, b1, &row, 34 + (pbits_sel % 6) as u32);
                    return EcmCase { imp: imp.into(), family: 0, seed, x: 0, y: 0, p, q, b1, b2, origin: "targeted".into() };
                }
            }
        }
    }

    // natural: random prime and curve, configuration fitted to the order found
    let pbits = 18 + (pbits_sel % 17) as u32;
    let mut p = prime64(pbits, &mut r);
    while p % 3 == 0 {
        p = next_prime(p);
    }
    let ord = lib_order_mod_prime(p, family, seed, x, y);
    let mut cfg: Option<(u64, f64)> = None;
    if let Some(oi) = &ord {
        if mode % 5 != 4 && !oi.factors.is_empty() {
            let mut pw: Vec<(u64, u64, u32)> = oi.factors.iter().map(|&(f, e)| ((f as u128).pow(e).min(u64::MAX as u128) as u64, f, e)).collect();
            pw.sort();
            let (_, lf, le) = pw[pw.len() - 1];
            let rest_max = if pw.len() >= 2 { pw[pw.len() - 2].0 } else { 1 };
            if le == 1 && lf > rest_max + 1 && rest_max < b1cap && (lf as f64) <= labelcap && mode % 5 != 3 {
                // stage 2 finds it: B1 just above the second largest prime power
                let b1 = match r.below(4) {
                    0 => rest_max + 1,
                    1 => rest_max + 1 + r.below(8),
                    2 => pairs.iter().map(|t| t.0).filter(|&b| b > rest_max && b < lf).min().unwrap_or(rest_max + 1),
                    _ => rest_max + 1 + r.below((lf - rest_max - 1).min(4 * rest_max + 50)),
                }
                .max(12);
                if b1 < lf {
                    let fit: Vec<&Row> = rows.iter().filter(|rw| rw.label_u() >= lf).collect();
                    if !fit.is_empty() {
                        let k = if r.below(5) == 0 { (r.below(3) as usize).min(fit.len() - 1) } else { 0 };
                        cfg = Some((b1, fit[k].label));
                    }
                }
            }
            if cfg.is_none() && pw[pw.len() - 1].0 < b1cap {
                // stage 1 alone: B1 just above the largest prime power
                let top = pw[pw.len() - 1].0;
                let b1 = (top + 1 + if r.below(2) == 0 { 0 } else { r.below(top / 4 + 2) }).max(12);
                let small: Vec<&Row> = rows.iter().filter(|rw| rw.label <= 2.4e6).collect();
                cfg = Some((b1, small[(cfg_i as usize * small.len()) >> 16].label));
            }
        }
    }
    let (b1, b2) = cfg.unwrap_or_else(|| {
        let usable: Vec<(u64, f64)> = pairs.iter().copied().filter(|&(b1, b2)| b1 <= b1cap && b2 <= labelcap).collect();
        usable[(cfg_i as usize * usable.len()) >> 16]
    });
    let (row, _, _) = bounds(cons, b2);
    let q = pick_safe_q(&mut r, p, family, seed, x, y, b1, &row, 32 + (derived % 9) as u32);
    EcmCase { imp: imp.into(), family, seed, x, y, p, q, b1, b2, origin: "natural".into() }
}

/// Cases whose curve order was *searched* (ℓ on a grid edge): built once per run, in parallel,
/// from the run seed; the strategy only indexes into the pool (cheap to shrink).
/// The hard-wired ecm128 pairs with B1 < d1/2: every prime of (B1, d1/2] for both
/// implementations and the public entry point (F12 of DESIGN.md section 3).
fn gap_targets() -> Vec<(&'static str, u64, f64, u64)> {
    let mut out = vec![];
    for &(_, _, _, _, b1, b2) in ECM128_PAIRS.iter().take(3) {
        let row = Consumer::Ecm128.select(b2);
        let mut x = next_prime(b1);
        while x <= row.d1 / 2 + 8 {
            for imp in ["ecm128", "ecm", "ecm128_pub"] {
                out.push((imp, b1, b2, x));
            }
            x = next_prime(x);
        }
    }
    out
}

fn build_gap_case(r: &mut SplitMix, imp: &str, b1: u64, b2: f64, lx: u64) -> Option<EcmCase> {
    let cons = if imp == "ecm" { Consumer::Ecm } else { Consumer::Ecm128 };
    let (row, bound, _) = bounds(cons, b2);
    if imp == "ecm128_pub" {
        let &(lo, hi, _, curves, _, _) = ECM128_PAIRS.iter().find(|t| t.4 == b1 && t.5 == b2)?;
        for _ in 0..6 {
            let pbits = (hi / 2).saturating_sub(1 + r.below(3) as u32).max(12);
            let (p, _) = search_order(r, b1, bound, lx, 2, curves as u32 + 1, pbits, 4000)?;
            let pb = 64 - p.leading_zeros();
            for _ in 0..12 {
                let qb = (hi - r.below(3) as u32).saturating_sub(pb).clamp(10, 41);
                let q = pick_safe_q(r, p, 0, 2, 0, 0, b1, &row, qb);
                let nb = 128 - (p as u128 * q as u128).leading_zeros();
                if nb >= lo.max(20) && nb <= hi && q != p && q % 3 != 0 {
                    return Some(EcmCase { imp: imp.into(), family: 0, seed: 2, x: 0, y: 0, p, q, b1, b2, origin: "gap".into() });
                }
            }
        }
        None
    } else {
        let mb = 16 + r.below(8) as u32;
        let (p, seed) = search_order(r, b1, bound, lx, 2, 400, mb, 6000)?;
        let qb = 30 + r.below(8) as u32;
        let q = pick_safe_q(r, p, 0, seed, 0, 0, b1, &row, qb);
        Some(EcmCase { imp: imp.into(), family: 0, seed, x: 0, y: 0, p, q, b1, b2, origin: "gap".into() })
    }
}

pub fn ecm_pool(thorough: bool, seed: u64, count: usize) -> Vec<EcmCase> {
    use rayon::prelude::*;
    let gaps = gap_targets();
    (0..count)
        .into_par_iter()
        .map(|i| {
            let mut r = SplitMix(hash64(&("C16-ecm-pool", seed, i as u64)));
            // the first entries (two rounds) are the gap targets
            if i < 2 * gaps.len() {
                let (imp, b1, b2, lx) = gaps[i % gaps.len()];
                if let Some(c) = build_gap_case(&mut r, imp, b1, b2, lx) {
                    return c;
                }
            }
            let raw: EcmRaw = (
                r.below(12) as u8,
                r.below(32) as u8,
                r.next() as u32,
                r.below(30) as u8,
                2 + r.below(12) as u8,
                r.next() as u16,
                r.next(),
            );
            build_ecm_case(thorough, true, raw)
        })
        .collect()
}

pub fn ecm_strategy(thorough: bool, pool: std::sync::Arc<Vec<EcmCase>>) -> impl Strategy<Value = EcmCase> {
    (any::<u16>(), 0u8..10, (0u8..12, 0u8..32, any::<u32>(), 0u8..30, 2u8..14, any::<u16>(), any::<u64>())).prop_map(move |(pi, sel, raw)| {
        if sel < 7 && !pool.is_empty() {
            pool[(pi as usize * pool.len()) >> 16].clone()
        } else {
            build_ecm_case(thorough, false, raw)
        }
    })
}

// ---------------------------------------------------------------------------
// Check `misc`: whatever these entry points return multiplies to n, all parts > 1

#[derive(Clone, Debug, Serialize, Deserialize)]
pub struct MiscCase {
    pub kind: String,
    #[serde(with = "crate::ser::dec")]
    pub n: U1024,
    pub a: u64,
    pub b: u64,
    pub shape: String,
}

pub fn check_misc(c: &MiscCase, l: &mut Local) -> Result<(), Fail> {
    let n = c.n;
    let bad = |w: &str| Fail::new("HARNESS|bad-case", format!("misc case invalid: {} {:?}", w, c));
    if !n.bit(0) || n.bits() < 16 || n.bits() > 500 {
        return Err(bad("n must be odd, 16..500 bits"));
    }
    l.case();
    l.label(&format!("misc:{}", c.kind));
    l.label(&format!("misc:shape:{}", c.shape));
    let n64 = n.digits()[0];
    let small = n.bits() <= 62;
    let coprime6 = !(n % U1024::from(3u64)).is_zero();
    let mut prefs = Preferences::default();
    prefs.verbosity = Verbosity::Silent;
    let pair64 = |r: Option<(u64, u64)>| r.map(|(a, b)| (Uint::from(a), Uint::from(b)));
    let mut some = false;
    match c.kind.as_str() {
        "rho64" => {
            if !small {
                return Err(bad("size"));
            }
            let (cc, iters) = (1 + c.a % 9, 2 + c.b % 70_000);
            let r = guard("rho64", || pollard_rho::rho64(n64, cc, iters))?;
            some = r.is_some();
            check_pair("rho64", &n, &pair64(r))?;
        }
        "rho_semiprime" => {
            if !small {
                return Err(bad("size"));
            }
            let r = guard("rho_semiprime", || pollard_rho::rho_semiprime(n64))?;
            some = r.is_some();
            check_pair("rho_semiprime", &n, &pair64(r))?;
        }
        "rho" => {
            if !small {
                return Err(bad("size"));
            }
            let r = guard("rho", || pollard_rho::rho(&n, Verbosity::Silent))?;
            some = r.is_some();
            check_list("rho", &n, &r)?;
        }
        "rho_impl" => {
            let seed = 2 + c.a % 1000;
            if n.bits() < 64 && seed >= n64 {
                return Err(bad("seed"));
            }
            let iters = 1 + c.b % 3000;
            let r = guard("rho_impl", || pollard_rho::rho_impl(&n, seed, iters, Verbosity::Silent))?;
            some = r.is_some();
            check_list("rho_impl", &n, &r)?;
        }
        "pm1base" => {
            if !small {
                return Err(bad("size"));
            }
            let budget = (c.b % 70_000) as usize;
            let r = guard("PM1Base::factor", || pm1base().factor(n64, budget))?;
            some = r.is_some();
            check_pair("PM1Base::factor", &n, &pair64(r))?;
        }
        "pm1_quick" => {
            if n.bits() > 220 {
                return Err(bad("size"));
            }
            let r = guard("pm1_quick", || pollard_pm1::pm1_quick(&n, Verbosity::Silent))?;
            some = r.is_some();
            check_list("pm1_quick", &n, &r)?;
        }
        "pm1_only" => {
            if n.bits() > 80 {
                return Err(bad("size"));
            }
            let r = guard("pm1_only", || pollard_pm1::pm1_only(&n, Verbosity::Silent))?;
            some = r.is_some();
            check_list("pm1_only", &n, &r)?;
        }
        "pm1_impl" => {
            let b1 = 12 + c.a % 3000;
            let b2 = [30e3, 100e3, 200e3, 450e3][(c.b % 4) as usize];
            let r = guard("pm1_impl", || pollard_pm1::pm1_impl(&n, b1, b2, Verbosity::Silent))?;
            some = r.is_some();
            check_list("pm1_impl", &n, &r)?;
        }
        "pp1" => {
            let b1 = 12 + c.a % 3000;
            let b2 = [660., 3e3, 33e3, 126e3][(c.b % 4) as usize];
            let seed = 3 + (c.a >> 20) % 50;
            if n.bits() < 8 {
                return Err(bad("size"));
            }
            let r = guard("pp1", || pp1::pp1(n, seed, b1, b2, Verbosity::Silent))?;
            some = r.is_some();
            check_list("pp1", &n, &r)?;
        }
        "ecm128" => {
            if n.bits() > 80 || !coprime6 || n.bits() < 8 {
                return Err(bad("size"));
            }
            let r = guard("ecm128", || ecm128::ecm128(n, c.a % 4 == 0, &prefs))?;
            some = r.is_some();
            check_pair("ecm128", &n, &r)?;
        }
        "ecm_semiprime" => {
            if !small || !coprime6 || n.bits() < 8 {
                return Err(bad("size"));
            }
            let r = guard("ecm_semiprime", || ecm128::ecm_semiprime(n64))?;
            some = r.is_some();
            check_pair("ecm_semiprime", &n, &pair64(r))?;
        }
        "ecm_auto" => {
            if n.bits() > 160 || n.bits() < 65 || !coprime6 {
                return Err(bad("size"));
            }
            let r = guard("ecm_auto", || ecm::ecm_auto(n, &prefs, None))?;
            some = r.is_some();
            check_pair("ecm_auto", &n, &r)?;
        }
        "ecm" => {
            if n.bits() > 160 || n.bits() < 20 || !coprime6 {
                return Err(bad("size"));
            }
            let curves = 1 + (c.a % 4) as usize;
            let b1 = 12 + (c.a >> 8) % 400;
            let b2 = [660., 3e3, 7.7e3, 33e3][(c.b % 4) as usize];
            let r = guard("ecm", || ecm::ecm(n, curves, b1 as usize, b2, &prefs, None))?;
            some = r.is_some();
            check_pair("ecm", &n, &r)?;
        }
        _ => return Err(bad("kind")),
    }
    if some {
        l.label("misc:returned-some");
        l.label(&format!("misc:{}:some", c.kind));
        l.nontrivial_of(&(c.kind.as_str(), n.digits(), c.a, c.b));
    }
    Ok(())
}

fn pm1base() -> &'static pollard_pm1::PM1Base {
    static B: std::sync::OnceLock<pollard_pm1::PM1Base> = std::sync::OnceLock::new();
    B.get_or_init(pollard_pm1::PM1Base::new)
}

/// A prime p (>= 5) of about `bits` bits whose p−1 is a product of very small primes, so that
/// several factors of n are caught by the same gcd.
fn very_smooth_prime(r: &mut SplitMix, bits: u32) -> u64 {
    loop {
        let mut g: u64 = 2;
        while 64 - g.leading_zeros() < bits {
            g *= [2u64, 2, 3, 3, 5, 7, 11, 13][r.below(8) as usize];
        }
        if g < (1 << 62) && ref_isprime64(g + 1) && g + 1 >= 5 {
            return g + 1;
        }
    }
}

pub fn misc_strategy() -> impl Strategy<Value = MiscCase> {
    (0u8..13, 0u8..10, 8u32..32, any::<u64>(), any::<u64>(), any::<u64>()).prop_map(|(kind, shape, bits, a, b, seed)| {
        let mut r = SplitMix(seed ^ 0x315C);
        let kind = [
            "rho64", "rho_semiprime", "rho", "rho_impl", "pm1base", "pm1_quick", "pm1_only", "pm1_impl", "pp1", "ecm128", "ecm_semiprime",
            "ecm_auto", "ecm",
        ][kind as usize];
        // size limits of the entry point
        let (minb, maxb): (u32, u32) = match kind {
            "pm1_quick" => (86, 200),
            "ecm_auto" => (66, 150),
            "rho_impl" | "pm1_impl" | "pp1" => (17, 120),
            "ecm" => (24, 120),
            "pm1_only" | "ecm128" => (17, 78),
            _ => (17, 60),
        };
        let need_coprime6 = matches!(kind, "ecm128" | "ecm_semiprime" | "ecm_auto" | "ecm");
        // factor() removes the primes below 200 by trial division before any of these entry
        // points runs: composites are built from primes >= 211 (n >= 44521)
        let lo = 211u64;
        let pr = |r: &mut SplitMix, b: u32| -> U1024 {
            let b = b.max(8);
            if b <= 62 {
                let mut p = prime64(b, r);
                while p < lo {
                    p = next_prime(p);
                }
                U1024::from(p)
            } else {
                certified_prime(b, (r.below(3)) as u32)
            }
        };
        let total = (minb + (bits - 8) * (maxb - minb) / 24).clamp(minb, maxb);
        let (name, n): (&str, U1024) = match shape {
            0 | 1 => ("semiprime", pr(&mut r, total / 2) * pr(&mut r, total - total / 2)),
            2 => ("unbalanced", pr(&mut r, (total / 4).max(3)) * pr(&mut r, total - (total / 4).max(3))),
            3 => ("prime", pr(&mut r, total)),
            4 => {
                let p = pr(&mut r, (total / 2).min(60));
                ("square", p * p)
            }
            5 => ("three-primes", pr(&mut r, total / 3) * pr(&mut r, total / 3) * pr(&mut r, total - 2 * (total / 3))),
            6 | 7 => {
                // every factor has a very smooth p−1: simultaneous catches
                let k = 2 + r.below(2) as u32;
                let mut n = U1024::ONE;
                let mut used = vec![];
                for _ in 0..k {
                    let mut p = very_smooth_prime(&mut r, (total / k).clamp(9, 60));
                    let mut guard = 0;
                    while (used.contains(&p) || p < lo) && guard < 50 {
                        p = very_smooth_prime(&mut r, (total / k).clamp(9, 60));
                        guard += 1;
                    }
                    used.push(p);
                    n *= U1024::from(p);
                }
                ("all-smooth", n)
            }
            8 => {
                // tiny semiprime: collisions happen at the same step
                let p = next_prime(210 + r.below(2000));
                let q = next_prime(p + r.below(300));
                ("tiny", U1024::from(p) * U1024::from(q))
            }
            _ => {
                let mut x: U1024 = r.bits::<16>(total) | U1024::ONE | (U1024::ONE << (total - 1));
                if need_coprime6 {
                    while (x % U1024::from(3u64)).is_zero() {
                        x += U1024::from(2u64);
                    }
                }
                ("random-odd", x)
            }
        };
        // keep inside the domain of the entry point
        let mut n = n;
        let mut name = name;
        if n.bits() > maxb || n.bits() < minb || (need_coprime6 && (n % U1024::from(3u64)).is_zero()) {
            // two primes of (minb+3)/2 + 1 bits: between minb + 1 and minb + 5 bits
            let h = (minb + 3) / 2 + 1;
            n = pr(&mut r, h) * pr(&mut r, h);
            name = "semiprime";
        }
        MiscCase { kind: kind.into(), n, a, b, shape: name.into() }
    })
}

// ---------------------------------------------------------------------------
// Check `gcd_chain`: gcd_factors on a monotone chain, model = the chain itself

#[derive(Clone, Debug, Serialize, Deserialize)]
pub struct ChainCase {
    /// prime factors of n with the chain index at which each enters the gcd
    /// (an index >= len means: never); a prime listed twice is a square factor
    #[serde(with = "crate::ser::dec_vec")]
    pub primes: Vec<U1024>,
    pub enter: Vec<u16>,
    pub len: u16,
    pub unit_seed: u64,
}

pub fn check_chain(c: &ChainCase, l: &mut Local) -> Result<(), Fail> {
    let bad = |w: &str| Fail::new("HARNESS|bad-case", format!("chain case invalid: {}", w));
    if c.primes.is_empty() || c.primes.len() != c.enter.len() || c.len == 0 || c.len > 4000 {
        return Err(bad("shape"));
    }
    let mut n = U1024::ONE;
    for p in &c.primes {
        if !p.bit(0) || p.bits() < 3 {
            return Err(bad("odd primes only"));
        }
        n *= *p;
    }
    if n.bits() > 500 {
        return Err(bad("n too large"));
    }
    let len = c.len as usize;
    let mut r = SplitMix(c.unit_seed);
    // a[i] = product of the primes entered at index <= i
    let mut a = vec![U1024::ONE; len];
    for (p, &e) in c.primes.iter().zip(&c.enter) {
        for i in (e as usize).min(len)..len {
            a[i] *= *p;
        }
    }
    let mut vals = Vec::with_capacity(len);
    for i in 0..len {
        // unit: random 120-bit residue coprime to n (a[i]·u < 2^1024)
        let mut u: U1024 = r.bits::<16>(120) | U1024::ONE;
        while c.primes.iter().any(|p| (u % *p).is_zero()) {
            u += U1024::from(2u64);
        }
        let v: U1024 = (a[i] * u) % n;
        if i + 1 == len && ref_gcd(&v, &n) != a[i] {
            return Err(bad("gcd construction"));
        }
        let mut m = [0u64; 8];
        m.copy_from_slice(&v.digits()[..8]);
        vals.push(MInt(m));
    }
    // model
    let mut want: Vec<U1024> = vec![];
    for i in 1..len {
        if a[i] != a[i - 1] {
            want.push(a[i] / a[i - 1]);
        }
    }
    let total = a[len - 1] / a[0];
    l.case();
    l.label(&format!("chain:len{}", if len <= 2 { "<=2" } else if len <= 16 { "<=16" } else { ">16" }));
    if want.iter().any(|w| c.primes.iter().filter(|p| (*w % **p).is_zero()).count() >= 2) {
        l.label("chain:two-primes-same-index");
    }
    if !a[0].is_one() {
        l.label("chain:first-gcd>1");
    }
    if a[len - 1] == n {
        l.label("chain:last-gcd=n");
    }
    if want.len() >= 2 {
        l.label("chain:several-steps");
        l.nontrivial_of(&(c.primes.iter().map(|p| *p.digits()).collect::<Vec<_>>(), &c.enter, c.len));
    }
    let nn: Uint = n;
    let (facs, nred) = guard("gcd_factors", || gcd_factors(&nn, &vals))?;
    let mut prod = U1024::ONE;
    for f in &facs {
        ensure!(*f > Uint::ONE, "gcd_factors|factor<=1", "gcd_factors returned the factor {} (n = {}, chain gcds {:?})", f, n, a);
        ensure!(prod.bits() + f.bits() <= 1000, "gcd_factors|product", "product of factors {:?} exceeds n = {}", facs, n);
        prod *= *f;
    }
    ensure!(
        prod == total && nred * prod == n,
        "gcd_factors|product",
        "gcd_factors(n = {}) returned {:?} and {}: the product must be gcd(last)/gcd(first) = {} (chain gcds {:?})",
        n,
        facs,
        nred,
        total,
        a
    );
    let mut got: Vec<U1024> = facs.clone();
    got.sort();
    let mut w = want.clone();
    w.sort();
    ensure!(
        got == w,
        "gcd_factors|split",
        "gcd_factors(n = {}) returned {:?} but the chain gcds {:?} change by {:?}",
        n,
        facs,
        a,
        want
    );
    Ok(())
}

pub fn chain_strategy() -> impl Strategy<Value = ChainCase> {
    (
        proptest::collection::vec((8u32..110, 0u32..3, any::<u16>(), 0u8..8), 1..6),
        prop_oneof![3 => 1u16..4, 3 => 1u16..20, 2 => 1u16..300, 1 => 1u16..1500],
        any::<u64>(),
    )
        .prop_map(|(ps, len, seed)| {
            let mut primes = vec![];
            let mut enter = vec![];
            let mut bits_left = 480u32;
            let mut last_e = 0u16;
            for (bits, idx, e, mode) in ps {
                if bits + 2 > bits_left {
                    break;
                }
                let p = if bits <= 62 {
                    U1024::from(prime64(bits.max(3), &mut SplitMix(seed ^ ((bits as u64) << 8) ^ idx as u64)) | 1)
                } else {
                    certified_prime(bits, idx)
                };
                if p.bits() < 3 || !p.bit(0) {
                    continue;
                }
                // entry index: spread, same as the previous prime, first, last, never
                let span = len as u32 + 1;
                let ei = match mode {
                    0 | 1 | 2 => ((e as u32 * span) >> 16) as u16,
                    3 | 4 => last_e,
                    5 => 0,
                    6 => len - 1,
                    _ => len,
                };
                last_e = ei;
                bits_left -= p.bits();
                primes.push(p);
                enter.push(ei);
                // sometimes a square factor entering later
                if mode == 2 && p.bits() + 2 <= bits_left && e % 3 == 0 {
                    bits_left -= p.bits();
                    primes.push(p);
                    enter.push(ei.saturating_add((e % 5) as u16).min(len));
                }
            }
            if primes.is_empty() {
                primes.push(U1024::from(1_000_003u64));
                enter.push(0);
            }
            ChainCase { primes, enter, len, unit_seed: seed }
        })
}

// ---------------------------------------------------------------------------
// Check `exp`: exp_modn, exp_modn_large, chebyshev_modn against references

#[derive(Clone, Debug, Serialize, Deserialize)]
pub struct ExpCase {
    #[serde(with = "crate::ser::dec")]
    pub n: U1024,
    #[serde(with = "crate::ser::dec")]
    pub g: U1024,
    #[serde(with = "crate::ser::dec")]
    pub e: U1024,
}

pub fn check_exp(c: &ExpCase, l: &mut Local) -> Result<(), Fail> {
    if !c.n.bit(0) || c.n.bits() < 2 || c.n.bits() > 500 || c.g >= c.n {
        return Err(Fail::new("HARNESS|bad-case", "exp case invalid"));
    }
    l.case();
    let n: Uint = c.n;
    let zn = ZmodN::new(n);
    let g = zn.from_int(c.g);
    let want = powmod::<16, 16>(&c.g, &c.e, &c.n);
    let got = zn.to_int(guard("exp_modn_large", || pollard_pm1::verif_exp_modn_large(&zn, &g, &c.e))?);
    ensure!(got == want, "exp_modn_large|wrong-value", "exp_modn_large({}, {}) mod {} = {} but the power is {}", c.g, c.e, c.n, got, want);
    l.label(if c.e.bits() > 64 { "exp:large>64bits" } else { "exp:large<=64bits" });
    if c.e.bits() > 1024 - 64 {
        l.label("exp:large-top-word");
    }
    let e64 = c.e.digits()[0];
    let want = powmod::<16, 16>(&c.g, &U1024::from(e64), &c.n);
    let got = zn.to_int(guard("exp_modn", || pollard_pm1::verif_exp_modn(&zn, &g, e64))?);
    ensure!(got == want, "exp_modn|wrong-value", "exp_modn({}, {}) mod {} = {} but the power is {}", c.g, e64, c.n, got, want);
    if e64 >> 60 != 0 {
        l.label("exp:64-top-bits");
    }
    let want = lucas_v_big(&c.g, e64, &c.n);
    let got = zn.to_int(guard("chebyshev_modn", || pp1::verif_chebyshev_modn(&zn, &g, e64))?);
    // V_0 is documented by the caller as the neutral element 2; the helper answers 1 for k = 0
    // and is never called with 0 (prime powers >= 2), so k = 0 is outside the compared domain
    if e64 != 0 {
        ensure!(got == want, "chebyshev_modn|wrong-value", "chebyshev_modn({}, {}) mod {} = {} but V_k is {}", c.g, e64, c.n, got, want);
    }
    l.nontrivial_of(&(c.n.digits(), c.g.digits(), c.e.digits()));
    Ok(())
}

pub fn exp_strategy() -> impl Strategy<Value = ExpCase> {
    (crate::gen::odd_modulus::<16>(500), crate::gen::edgy::<16>(500), crate::gen::edgy::<16>(1024), 0u8..6).prop_map(|(n, g, e, m)| {
        let e = match m {
            0 => e >> 960u32,                              // <= 64 bits
            1 => e | (U1024::ONE << 1023u32),              // full width
            2 => (e >> 900u32) | (U1024::ONE << 123u32),   // a little above one word
            _ => e,
        };
        ExpCase { n, g: g % n, e }
    })
}

// ---------------------------------------------------------------------------
// Fixed part: golden cases, the public P−1 entry points with their wired pairs

fn spec(p: u64, sign: i8) -> PrimeSpec {
    let g = if sign < 0 { p - 1 } else { p + 1 };
    PrimeSpec { p, sign, factors: ecorder::factor_small(g) }
}

fn pm_fixed(method: &str, b1: u64, b2: f64, seed: u64, p: u64, sign: i8, qi: usize, shape: &str) -> PmCase {
    let pool = safe_cofactors();
    let mut c = PmCase {
        method: method.into(),
        entry: "impl".into(),
        b1,
        b2,
        seed,
        primes: vec![spec(p, sign)],
        q: U1024::ONE,
        q_r: U1024::ZERO,
        shape: shape.into(),
    };
    for k in 0..pool.len() {
        let s = pool[(qi + k) % pool.len()];
        if method == "pm1" || safe_for_pp1(s.q, s.r, seed) {
            c.q = U1024::from(s.q);
            c.q_r = U1024::from(s.r);
            break;
        }
    }
    c
}

fn fixed_pm_cases() -> Vec<PmCase> {
    let mut out = vec![];
    // the repository's own examples (pollard_pm1.rs test_pm1_uint, pp1.rs test_pp1) and the
    // inputs of DESIGN.md section 3 (F7, F8)
    out.push(pm_fixed("pm1", 200, 40e3, 0, 2 * 59 * 35509 + 1, -1, 0, "golden"));
    out.push(pm_fixed("pm1", 16384, 100e3, 0, 25_362_180_101, -1, 1, "golden"));
    out.push(pm_fixed("pm1", 20, 450e3, 0, 285_355_513, -1, 2, "golden"));
    out.push(pm_fixed("pp1", 1500, 30e3, 9, 4106365409, 1, 3, "golden"));
    out.push(pm_fixed("pp1", 80_000, 28e6, 3, 253042395370635947, 1, 4, "golden"));
    out.push(pm_fixed("pp1", 2000, 28e6, 3, 213266888931348167, 1, 5, "golden"));
    out.push(pm_fixed("pm1", 65535, 40e3, 0, 200560490131, -1, 6, "golden-F7"));
    out.push(pm_fixed("pm1", 65536, 40e3, 0, 200560490131, -1, 6, "golden-F7"));
    out.push(pm_fixed("pm1", 30000, 1e6, 0, 11738173, -1, 7, "golden-F8"));
    out.push(pm_fixed("pp1", 1500, 30e3, 3, 1555247, 1, 8, "golden-F8"));
    // n = p alone, found in stage 2 of the polynomial evaluation: must not be reported as a factor of itself
    let mut c = pm_fixed("pm1", 30000, 1e6, 0, 11738173, -1, 0, "p-alone");
    c.q = U1024::ONE;
    c.q_r = U1024::ZERO;
    c.b1 = 3000;
    c.b2 = 980e3;
    out.push(c);
    out
}

/// pm1_quick / pm1_only with n in the size class of each wired pair (cofactor: a large prime
/// q = 2kr+1 proven by Pocklington whose r divides the order of 2).
fn public_pm1_cases(thorough: bool) -> Vec<PmCase> {
    let mut out = vec![];
    let mut r = SplitMix(0x9b1c_c16);
    let maxb1: u64 = if thorough { 2 << 20 } else { 600_000 };
    for (entry, table) in [("quick", PM1_QUICK), ("only", PM1_ONLY)] {
        for &(lo, hi, b1, b2) in table {
            let row = Consumer::Pm1.select(b2);
            if b1 > maxb1 || (!pm1_walk(b2) && row.d2 > max_d2(thorough)) || lo < 81 {
                continue;
            }
            for l_kind in [0u8, 2, 3, 8, 4] {
                let l = pick_l(l_kind, &mut r, Consumer::Pm1, b1, b2);
                let s = pick_s(&[(1, r.next() as u32), (0, r.next() as u32), (2, 0)], b1);
                let ps = build_prime(&mut r, -1, b1, l_kind, s, l);
                let pb = 64 - ps.p.leading_zeros();
                let target = (lo + (hi - lo) / 2).clamp(lo + 1, hi - 1);
                let qb = target - pb;
                let (q, qr) = if qb <= 62 {
                    // small pool cofactor (fixed 60..62 bits): only if the class is reached
                    let s = safe_cofactors()[(r.below(48)) as usize];
                    (U1024::from(s.q), U1024::from(s.r))
                } else {
                    let bc = smooth::big_cofactor(qb.clamp(100, 420), 0);
                    (bc.q, bc.r)
                };
                let nb = (U1024::from(ps.p) * q).bits();
                if nb < lo || nb > hi {
                    continue;
                }
                out.push(PmCase { method: "pm1".into(), entry: entry.into(), b1, b2, seed: 0, primes: vec![ps], q, q_r: qr, shape: "public".into() });
            }
        }
    }
    out
}

/// Thorough tier: P-1 rows with 2^17 < d2 <= 2^20, a few edge cases each, run sequentially.
fn big_row_cases() -> Vec<PmCase> {
    let mut out = vec![];
    let mut r = SplitMix(0xb16_0c16);
    for row in Consumer::Pm1.table() {
        if row.d2 <= 1 << 17 || row.d2 > 1 << 20 {
            continue;
        }
        for (b1, l_kind) in [(600u64, 3u8), (70_000, 4), (600, 2), (2000, 6), (600, 7), (1500, 8)] {
            let l = pick_l(l_kind, &mut r, Consumer::Pm1, b1, row.label);
            let s = pick_s(&[(0, r.next() as u32), (1, r.next() as u32)], b1);
            let ps = build_prime(&mut r, -1, b1, l_kind, s, l);
            let c = safe_cofactors()[r.below(48) as usize];
            out.push(PmCase {
                method: "pm1".into(),
                entry: "impl".into(),
                b1,
                b2: row.label,
                seed: 0,
                primes: vec![ps],
                q: U1024::from(c.q),
                q_r: U1024::from(c.r),
                shape: "big-row".into(),
            });
        }
    }
    out
}

fn fixed_ecm_cases() -> Vec<EcmCase> {
    // ecm128.rs test_ecm_curve is a 50-bit prime (outside the oracle's budget); small natural cases
    // for every ecm128 pair instead
    let mut out = vec![];
    let mut r = SplitMix(0xfeed_c16);
    for &(_, _, _, _, b1, b2) in ECM128_PAIRS.iter().take(8) {
        for imp in ["ecm128", "ecm"] {
            let p = prime64(22, &mut r);
            let q = prime64(36, &mut r);
            if p % 3 == 0 || q % 3 == 0 {
                continue;
            }
            out.push(EcmCase { imp: imp.into(), family: 0, seed: 2 + r.below(6) as u32, x: 0, y: 0, p, q, b1, b2, origin: "fixed".into() });
        }
    }
    out
}

// ---------------------------------------------------------------------------

fn run(ctx: &Ctx) {
    ctx.set_rule(
        "table: every row of both stage-2 tables x consumer (P-1, P+1, ECM) and every hard-wired (B1,B2) pair (exhaustive). \
         pm: constructive primes p with p-+1 = 2^a*s*l*m (s = prime powers < B1 incl. maximal ones, l absent or a prime of \
         (B1, reported B2] weighted to the grid edges: first/last covered value, neighbours of multiples of d1, b near d1/2, \
         just above B1, first value above the structural coverage), cofactor q = 2kr+1 with r > 2^49 dividing the order of \
         the P-+1 element (never caught); rows with d2 <= 2^16 (quick) / 2^20 (thorough), hard-wired pairs, B1 around 65536. \
         ecm: single curves of both implementations (Suyama-11 and a=1 families) + the public ecm128, prediction = order of \
         the library's starting point mod p and mod q by BSGS (reference Montgomery-model arithmetic); orders either found \
         naturally and the configuration fitted, or searched for a chosen l on a grid edge. misc/gcd_chain/exp: products, \
         gcd_factors against the chain, exponentiation helpers. Non-trivial = l within d1 of an edge of the covered range \
         or just above B1, or s with a maximal prime power; distinct by (method,row,B1,p).",
    );
    ctx.assume("native u128 arithmetic, bnum 0.8 and ref_isprime64 (7-base Miller-Rabin) are correct");
    ctx.assume("the hard-wired (B1,B2) pairs are those read from the pinned sources (pm1_quick, pm1_only, ecm_auto, ecm_only, ecm128, ecm_semiprime)");
    ctx.assume("P-1 prime walk (b2 <= 80e3): the promise is min(b2, reported label); generated B1 exceeds every prime factor of d1");
    ctx.assume("stage-2 rows are run up to d2 = 2^16 (P-1), 2^13 (P+1) and B2 = 4e7 (ECM; 1 in 24 cases up to 4e8) in the quick tier, up to 2^20 / 2^16 / 4e8 (3e9) in the thorough tier; all other rows are covered by the table check only");
    if let Err(e) = ecorder::self_test() {
        ctx.selfcheck_failed(&e);
        return;
    }
    if let Err(e) = smooth::self_test() {
        ctx.selfcheck_failed(&e);
        return;
    }
    let thorough = !ctx.quick();
    let mut l = Local::new();
    for c in table_cases() {
        ctx.fixed_case("table", &c, &mut l, check_table);
    }
    for c in fixed_pm_cases() {
        ctx.fixed_case("pm", &c, &mut l, check_pm);
    }
    for c in fixed_ecm_cases() {
        ctx.fixed_case("ecm", &c, &mut l, check_ecm);
    }
    ctx.merge(l);
    {
        use rayon::prelude::*;
        let cases = public_pm1_cases(thorough);
        cases.par_iter().for_each(|c| {
            let mut l = Local::new();
            ctx.fixed_case("pm", c, &mut l, check_pm);
            ctx.merge(l);
        });
    }
    if thorough && !ctx.is_chk() {
        let mut l = Local::new();
        for c in big_row_cases() {
            ctx.fixed_case("pm", &c, &mut l, check_pm);
        }
        ctx.merge(l);
    }
    ctx.set_exhaustive(false);
    let timing = std::env::var("YQV_C16_TIMING").is_ok();
    let tick = |what: &str| {
        if timing {
            eprintln!("C16 phase {} done at {:.1}s", what, ctx.elapsed());
        }
    };
    tick("fixed");
    ctx.par_prop("pm", 32, ctx.n(2000, 60_000), || pm_strategy(thorough), check_pm);
    tick("pm");
    let pool = std::sync::Arc::new(ecm_pool(thorough, ctx.seed, ctx.n(320, 3000) as usize));
    tick("ecm-pool");
    {
        // every gap target is evaluated in every run (the generated part samples the pool)
        use rayon::prelude::*;
        let k = (2 * gap_targets().len()).min(pool.len());
        pool[..k].par_iter().for_each(|c| {
            let mut l = Local::new();
            ctx.fixed_case("ecm", c, &mut l, check_ecm);
            ctx.merge(l);
        });
    }
    ctx.par_prop("ecm", 32, ctx.n(1000, 20_000), || ecm_strategy(thorough, pool.clone()), check_ecm);
    tick("ecm");
    ctx.par_prop("misc", 16, ctx.n(4000, 300_000), misc_strategy, check_misc);
    tick("misc");
    ctx.par_prop("gcd_chain", 16, ctx.n(4000, 300_000), chain_strategy, check_chain);
    tick("gcd_chain");
    ctx.par_prop("exp", 16, ctx.n(6000, 500_000), exp_strategy, check_exp);
    tick("exp");
    for (e, min) in [
        ("table:pm1", 20),
        ("table:pp1", 40),
        ("table:ecm", 40),
        ("pair:B1<d1/2", 3),
        ("pm:promise:stage1", 20),
        ("pm:promise:stage2", 50),
        ("pm:promise-kept", 50),
        ("pm:l:top-band", 10),
        ("pm:l:just-above-B1", 10),
        ("pm:s:maximal-prime-power", 10),
        ("pm:pm1-largeblocks(B1>=65536)", 5),
        ("ecm:promise:stage2", 10),
        ("ecm:promise-kept", 20),
        ("misc:returned-some", 50),
        ("chain:two-primes-same-index", 10),
        ("exp:large>64bits", 50),
    ] {
        ctx.essential(e, min);
    }
    let _ = (json!(null), hash64(&0u8));
}

fn replay(_ctx: &Ctx, check_name: &str, case: &Value) -> Result<(), Fail> {
    match check_name {
        "table" => replay_as::<TableCase>(case, check_table),
        "pm" => replay_as::<PmCase>(case, check_pm),
        "ecm" => replay_as::<EcmCase>(case, check_ecm),
        "misc" => replay_as::<MiscCase>(case, check_misc),
        "gcd_chain" => replay_as::<ChainCase>(case, check_chain),
        "exp" => replay_as::<ExpCase>(case, check_exp),
        _ => Err(Fail::new("HARNESS|unknown-check", check_name.to_string())),
    }
}
