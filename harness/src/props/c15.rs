//! C15 — elliptic-curve arithmetic implements the group law; addition chains (DESIGN.md section 2, C15).
//!
//! Checks (names as stored in replay files):
//!
//! * `chain64` / `chain1024` — integer level: the opcode list of `make_addition_chain(k)` /
//!   `make_addition_chain_long(k)` is well formed and evaluates to k (independent evaluator).
//! * `law` — one curve, two points P = m1 G, Q = m2 G: every addition/doubling formula of
//!   `ecm.rs` (projective, extended, mixed, a = 1 and a = -1) and of `ecm128.rs` maps curve
//!   points to curve points, the formulas agree with one another (projective equality
//!   computed here from the coordinates) and, modulo every prime factor q < 2^62 of the
//!   modulus, with the affine reference `oracle::ec`.
//! * `mul64` — `scalar64_chainmul(k, P) ~ scalar64_mul_dbladd(k, P) ~ ecm128::scalar64_mul(k, P)`
//!   and all equal the reference k P modulo every small prime factor; k = 0 gives the neutral
//!   element.
//! * `mul1024` — `scalar1024_chainmul(k, P) ~` a double-and-add built here from the hooked
//!   `add`/`double`, and equal to the reference k P modulo every small prime factor.
//!
//! Exceptional points.  The explicit formulas are not complete: a unified formula fails when
//! a denominator of the Edwards addition law vanishes (the sum is a point at infinity), a
//! dedicated (extended-coordinate) addition fails for P = Q and a few related pairs; the
//! library documents this (`addext`).  For ECM these events are the accidental discovery of
//! a factor.  They are excluded *by construction*: every operation the library performs
//! (including every step of the scalar multiplications, whose schedule is re-enacted from
//! the opcode list) is first decided with the reference modulo every small prime factor
//! (`TwEd::add_unified` / `add_dedicated` are `None` exactly when the corresponding formula
//! is outside its domain); a case with such a step is counted under `skip:` labels and not
//! judged.  Large prime factors (>= 2^62, certified primes) cannot be decided this way; an
//! exceptional event there has probability < 2^-50 per case and is not expected.
//!
//! Coordinates are read in Montgomery form and only used through homogeneous relations
//! (ratios, cross products), so the oracle does not depend on `ZmodN::to_int`.

use std::sync::OnceLock;

use proptest::prelude::*;
use proptest::strategy::BoxedStrategy;
use serde::{Deserialize, Serialize};
use serde_json::{json, Value};

use crate::engine::{guard, replay_as, Ctx, Fail, Local, PropDef};
use crate::gen::{edgy, edgy64, pick_idx, prime_from_seed};
use crate::oracle::ec::{self, Fp, TwEd, H};
use crate::oracle::int::{certified_prime, famous_primes, ref_isprime64, U1024};
use yamaquasi::arith_montgomery::{MInt, ZmodN};
use yamaquasi::ecm::{self, Curve, ExtPoint, Point, SmoothBase, Suyama11};
use yamaquasi::ecm128;

pub const DEF: PropDef = PropDef {
    id: "C15",
    level: "exploration",
    chk_child: true,
    run,
    replay,
};

// ---------------------------------------------------------------------------
// Case encodings

/// The modulus as the list of its prime factors (with multiplicity).  Factors below 2^62
/// must be prime (checked with `ref_isprime64`): the reference applies modulo each of
/// them.  Larger factors come from the certified-prime pool.
#[derive(Clone, Debug, Serialize, Deserialize, PartialEq, Eq, Hash)]
pub struct Modulus {
    #[serde(with = "crate::ser::dec_vec")]
    pub factors: Vec<U1024>,
}

/// `family` = "edwards": `Curve::from_point(x, y)` (a = 1); "suyama": Suyama-11 element
/// `seed` (a = -1).
#[derive(Clone, Debug, Serialize, Deserialize, PartialEq, Eq, Hash)]
pub struct CurveSpec {
    pub family: String,
    pub x: u64,
    pub y: u64,
    pub seed: u32,
}

impl CurveSpec {
    pub fn edwards(x: u64, y: u64) -> CurveSpec {
        CurveSpec {
            family: "edwards".into(),
            x,
            y,
            seed: 0,
        }
    }
    pub fn suyama(seed: u32) -> CurveSpec {
        CurveSpec {
            family: "suyama".into(),
            x: 0,
            y: 0,
            seed,
        }
    }
}

#[derive(Clone, Debug, Serialize, Deserialize)]
pub struct ChainCase {
    #[serde(with = "crate::ser::u64s")]
    pub k: u64,
}

#[derive(Clone, Debug, Serialize, Deserialize)]
pub struct ChainLongCase {
    #[serde(with = "crate::ser::dec")]
    pub k: U1024,
}

#[derive(Clone, Debug, Serialize, Deserialize)]
pub struct LawCase {
    pub modulus: Modulus,
    pub curve: CurveSpec,
    /// P = m1 G, Q = m2 G (m >= 1)
    #[serde(with = "crate::ser::u64s")]
    pub m1: u64,
    #[serde(with = "crate::ser::u64s")]
    pub m2: u64,
}

#[derive(Clone, Debug, Serialize, Deserialize)]
pub struct Mul64Case {
    pub modulus: Modulus,
    pub curve: CurveSpec,
    /// base point P = m G
    #[serde(with = "crate::ser::u64s")]
    pub m: u64,
    #[serde(with = "crate::ser::u64s")]
    pub k: u64,
    /// when > 0 and the modulus has a prime factor q <= 2^36: the scalar is
    /// `ord_q(P) * ord_mult` (if it fits in 64 bits) instead of `k`: k P is the neutral
    /// element modulo q, the event ECM is waiting for
    pub ord_mult: u32,
}

#[derive(Clone, Debug, Serialize, Deserialize)]
pub struct Mul1024Case {
    pub modulus: Modulus,
    pub curve: CurveSpec,
    #[serde(with = "crate::ser::u64s")]
    pub m: u64,
    #[serde(with = "crate::ser::dec")]
    pub k: U1024,
}

// ---------------------------------------------------------------------------
// Integer-level evaluation of opcode lists (independent of the library)

/// Well-formedness + value of a reversed opcode list.  `maxodd` = 7 (64-bit chains) or 63.
/// Semantics (from the library's documentation): the last entry is the initial odd
/// multiple; then, towards index 0: an even opcode 2y means X -> 2^y X, an odd opcode c
/// means X -> 2 X + c.
fn eval_chain_u128(chain: &[i8], maxodd: i8) -> Result<u128, String> {
    let Some(&first) = chain.last() else {
        return Err("empty chain".into());
    };
    if first <= 0 || first % 2 == 0 || first > maxodd {
        return Err(format!("initial element {} is not an odd multiple <= {}", first, maxodd));
    }
    let mut v: i128 = first as i128;
    for &op in chain[..chain.len() - 1].iter().rev() {
        if op % 2 == 0 {
            if op < 0 {
                return Err(format!("negative shift opcode {}", op));
            }
            let s = (op / 2) as u32;
            if v.leading_zeros() <= s + 1 {
                return Err("value overflows 126 bits".into());
            }
            v <<= s;
        } else {
            if op > maxodd || op < -maxodd {
                return Err(format!("odd opcode {} out of range", op));
            }
            if v.leading_zeros() <= 2 {
                return Err("value overflows 126 bits".into());
            }
            v = 2 * v + op as i128;
            if v <= 0 {
                return Err("chain value not positive".into());
            }
        }
    }
    Ok(v as u128)
}

type Wide = bnum::BUint<18>;

fn eval_chain_big(chain: &[i8], maxodd: i8) -> Result<Wide, String> {
    let Some(&first) = chain.last() else {
        return Err("empty chain".into());
    };
    if first <= 0 || first % 2 == 0 || first > maxodd {
        return Err(format!("initial element {} is not an odd multiple <= {}", first, maxodd));
    }
    let mut v = Wide::from(first as u64);
    for &op in chain[..chain.len() - 1].iter().rev() {
        if v.bits() > 1030 {
            return Err("value exceeds 1030 bits".into());
        }
        if op % 2 == 0 {
            if op < 0 {
                return Err(format!("negative shift opcode {}", op));
            }
            v <<= (op / 2) as u32;
        } else {
            if op > maxodd || op < -maxodd {
                return Err(format!("odd opcode {} out of range", op));
            }
            v <<= 1u32;
            if op > 0 {
                v += Wide::from(op as u64);
            } else {
                let s = Wide::from((-(op as i64)) as u64);
                if v <= s {
                    return Err("chain value not positive".into());
                }
                v -= s;
            }
        }
    }
    Ok(v)
}

pub fn check_chain64(c: &ChainCase, l: &mut Local) -> Result<(), Fail> {
    l.case();
    let k = c.k;
    let chain = guard("make_addition_chain", || ecm::verif_chain(k))?;
    if k == 0 {
        // documented special case: a single zero opcode (callers test k == 0 first)
        ensure!(
            chain == [0i8],
            "make_addition_chain|zero",
            "make_addition_chain(0) = {:?}, expected [0]",
            chain
        );
        return Ok(());
    }
    ensure!(
        chain.len() <= 32,
        "make_addition_chain|length",
        "chain of k={} has {} > 32 entries",
        k,
        chain.len()
    );
    match eval_chain_u128(&chain, 7) {
        Ok(v) => ensure!(
            v == k as u128,
            "make_addition_chain|wrong-value",
            "chain {:?} of k={} evaluates to {}",
            chain,
            k,
            v
        ),
        Err(e) => {
            return Err(Fail::new(
                "make_addition_chain|malformed",
                format!("chain {:?} of k={}: {}", chain, k, e),
            ))
        }
    }
    if k >= 1 << 32 {
        l.label("chain64:k>=2^32");
    }
    Ok(())
}

pub fn check_chain1024(c: &ChainLongCase, l: &mut Local) -> Result<(), Fail> {
    l.case();
    if c.k.is_zero() {
        // outside the domain of make_addition_chain_long (scalar1024_chainmul tests k = 0 first)
        return Ok(());
    }
    let k = c.k;
    let chain = guard("make_addition_chain_long", || ecm::verif_chain_long(&k))?;
    ensure!(
        chain.len() <= 384,
        "make_addition_chain_long|length",
        "chain of k={} has {} > 384 entries",
        k,
        chain.len()
    );
    match eval_chain_big(&chain, 63) {
        Ok(v) => ensure!(
            v == crate::oracle::int::resize::<16, 18>(&k),
            "make_addition_chain_long|wrong-value",
            "chain {:?} of k={} evaluates to {}",
            chain,
            k,
            v
        ),
        Err(e) => {
            return Err(Fail::new(
                "make_addition_chain_long|malformed",
                format!("chain {:?} of k={}: {}", chain, k, e),
            ))
        }
    }
    l.label(&format!("chain1024:words={}", (k.bits() + 63) / 64));
    l.nontrivial_of(&("chain1024", k.digits()));
    Ok(())
}

// ---------------------------------------------------------------------------
// Environment: modulus + library curve + reference curves

struct RefCtx {
    te: TwEd,
    g: H,
}

struct Env {
    n: U1024,
    words: usize,
    zn: ZmodN,
    curve: Curve,
    twisted: bool,
    refs: Vec<RefCtx>,
    bigs: Vec<U1024>,
    c128: Option<ecm128::Curve>,
}

/// Widest modulus generated.  `ZmodN` documents "only supports numbers under 512 bits" (its
/// Montgomery product needs 2n < 2^512: 512-bit moduli give wrong products), and the
/// 512-bit instantiation of `arith_gcd::inv_mod` behind `ZmodN::inv` is only supported up to
/// 500 bits (C09: above, its cofactor arithmetic overflows under the chk profile).  Both limits
/// belong to C07/C09; 500 bits still covers all of 1..8 words.
const MAX_BITS: u32 = 500;
/// Smallest modulus: the Suyama-11 set-up converts the constant 10582 with `from_int`, which
/// requires an argument below n (debug assertion); such n never reach ECM (trial division).
const MIN_BITS: u32 = 15;

fn harness_fail(what: impl Into<String>) -> Fail {
    Fail::new("HARNESS|out-of-domain", what)
}

impl Modulus {
    /// (n, distinct prime factors < 2^62, distinct larger factors)
    fn split(&self) -> Result<(U1024, Vec<u64>, Vec<U1024>), Fail> {
        if self.factors.is_empty() || self.factors.len() > 8 {
            return Err(harness_fail("modulus needs 1..8 prime factors"));
        }
        let mut n = U1024::ONE;
        let mut small = vec![];
        let mut big = vec![];
        for f in &self.factors {
            if !f.bit(0) || *f < U1024::from(5u64) {
                return Err(harness_fail("prime factors must be odd and >= 5"));
            }
            if n.bits() + f.bits() > MAX_BITS + 1 {
                return Err(harness_fail("modulus wider than 500 bits"));
            }
            n *= *f;
            if f.bits() <= 62 {
                let q = f.digits()[0];
                if !ref_isprime64(q) {
                    return Err(harness_fail(format!("small factor {} is not prime", q)));
                }
                if !small.contains(&q) {
                    small.push(q);
                }
            } else if !big.contains(f) {
                big.push(*f);
            }
        }
        if n.bits() > MAX_BITS || n.bits() < MIN_BITS {
            return Err(harness_fail("modulus must have 15..500 bits"));
        }
        Ok((n, small, big))
    }
}

fn mint_u(m: &MInt) -> U1024 {
    let mut d = [0u64; 16];
    d[..8].copy_from_slice(&m.0);
    U1024::from_digits(d)
}

fn mint_u128(m: &MInt) -> u128 {
    m.0[0] as u128 | ((m.0[1] as u128) << 64)
}

fn u128_mint(x: u128) -> MInt {
    let mut w = [0u64; 8];
    w[0] = x as u64;
    w[1] = (x >> 64) as u64;
    MInt(w)
}

fn mm(a: &U1024, b: &U1024, n: &U1024) -> U1024 {
    // operands are < n < 2^512: the product fits in 1024 bits
    (*a * *b) % *n
}

impl Env {
    fn ref_h(&self, i: usize, p: &Point) -> H {
        let f = &self.refs[i].te.f;
        let (x, y, z) = p.verif_xyz();
        self.refs[i]
            .te
            .from_projective(f.from_words(&x.0), f.from_words(&y.0), f.from_words(&z.0))
    }

    /// Projective equality over Z/n from the coordinates (Montgomery form is a common
    /// scaling by R, which cross products do not see).
    fn proj_eq(&self, p: &Point, q: &Point) -> bool {
        let (x1, y1, z1) = p.verif_xyz();
        let (x2, y2, z2) = q.verif_xyz();
        let (x1, y1, z1) = (mint_u(&x1), mint_u(&y1), mint_u(&z1));
        let (x2, y2, z2) = (mint_u(&x2), mint_u(&y2), mint_u(&z2));
        let n = &self.n;
        mm(&x1, &y2, n) == mm(&y1, &x2, n) && mm(&y1, &z2, n) == mm(&z1, &y2, n) && mm(&z1, &x2, n) == mm(&x1, &z2, n)
    }

    fn show(&self, p: &Point) -> String {
        let (x, y, z) = p.verif_xyz();
        format!(
            "[{}:{}:{}]",
            self.zn.to_int(x),
            self.zn.to_int(y),
            self.zn.to_int(z)
        )
    }

    /// Judge one output point of an operation that the reference declared regular:
    /// library `is_valid`; Z invertible modulo every prime factor; on the reference curve and
    /// equal to the expected reference point modulo every small prime factor.
    fn check_out(&self, entry: &str, p: &Point, expect: Option<&[H]>) -> Result<(), Fail> {
        let valid = guard("Curve::is_valid", || self.curve.verif_is_valid(p))?;
        ensure!(
            valid,
            format!("{}|not-on-curve", entry),
            "{}: result {} does not satisfy the curve equation (is_valid) mod n={}",
            entry,
            self.show(p),
            self.n
        );
        let (_, _, z) = p.verif_xyz();
        for (i, rc) in self.refs.iter().enumerate() {
            let h = self.ref_h(i, p);
            ensure!(
                h.z != 0,
                format!("{}|degenerate", entry),
                "{}: result {} has Z = 0 mod {} although the operation is regular there (n={})",
                entry,
                self.show(p),
                rc.te.f.p,
                self.n
            );
            ensure!(
                rc.te.on_curve(&h),
                format!("{}|not-on-curve-ref", entry),
                "{}: result {} is not on the curve mod {} (n={})",
                entry,
                self.show(p),
                rc.te.f.p,
                self.n
            );
            if let Some(e) = expect {
                ensure!(
                    rc.te.eq(&h, &e[i]),
                    format!("{}|ref-mismatch", entry),
                    "{}: result {} differs from the reference point {:?} mod {} (n={})",
                    entry,
                    self.show(p),
                    rc.te.norm(&e[i]),
                    rc.te.f.p,
                    self.n
                );
            }
        }
        let zu = mint_u(&z);
        for r in &self.bigs {
            ensure!(
                !(zu % *r).is_zero(),
                format!("{}|degenerate", entry),
                "{}: result {} has Z = 0 mod the prime factor {} (n={})",
                entry,
                self.show(p),
                r,
                self.n
            );
        }
        Ok(())
    }

    /// Extended point: on the quadric XY = ZT, then judged as a projective point.
    fn check_ext(&self, entry: &str, e: &ExtPoint, expect: Option<&[H]>) -> Result<(), Fail> {
        let (x, y, z, t) = e.verif_xyzt();
        let (xu, yu, zu, tu) = (mint_u(&x), mint_u(&y), mint_u(&z), mint_u(&t));
        ensure!(
            mm(&xu, &yu, &self.n) == mm(&zu, &tu, &self.n),
            format!("{}|off-quadric", entry),
            "{}: extended coordinates violate XY = ZT mod n={} (X,Y,Z,T in Montgomery form: {} {} {} {})",
            entry,
            self.n,
            xu,
            yu,
            zu,
            tu
        );
        self.check_out(entry, &Point::verif_new(x, y, z), expect)
    }

    fn ensure_eq(&self, class: &str, what: &str, p: &Point, q: &Point) -> Result<(), Fail> {
        ensure!(
            self.proj_eq(p, q),
            class,
            "{}: {} vs {} mod n={}",
            what,
            self.show(p),
            self.show(q),
            self.n
        );
        Ok(())
    }

    fn neg(&self, p: &Point) -> Result<Point, Fail> {
        let (x, y, z) = p.verif_xyz();
        let nx = guard("ZmodN::sub", || self.zn.sub(self.zn.zero(), x))?;
        Ok(Point::verif_new(nx, y, z))
    }

    // 128-bit <-> 512-bit point conversions (identical Montgomery representation:
    // R = 2^64 for one word, 2^128 for two words, in both implementations)
    fn to128(&self, p: &Point) -> ecm128::Point {
        let (x, y, z) = p.verif_xyz();
        ecm128::verif::point_new(mint_u128(&x), mint_u128(&y), mint_u128(&z))
    }
    fn from128(&self, p: &ecm128::Point) -> Point {
        let (x, y, z) = ecm128::verif::point_xyz(p);
        Point::verif_new(u128_mint(x), u128_mint(y), u128_mint(z))
    }
    fn ext_from128(&self, p: &ecm128::ExtPoint) -> ExtPoint {
        let (x, y, z, t) = ecm128::verif::extpoint_xyzt(p);
        ExtPoint::verif_new(u128_mint(x), u128_mint(y), u128_mint(z), u128_mint(t))
    }
    fn in_range128(&self, p: &ecm128::Point) -> bool {
        let (x, y, z) = ecm128::verif::point_xyz(p);
        let n = mint_u128(&MInt({
            let mut w = [0u64; 8];
            w.copy_from_slice(&self.n.digits()[..8]);
            w
        }));
        x < n && y < n && z < n
    }
}

/// Build the library curve and the reference curves.  Ok(Err(label)) = nothing to judge
/// (construction refused, or the curve is degenerate modulo a small prime factor).
fn build(m: &Modulus, cs: &CurveSpec, l: &mut Local) -> Result<Result<Env, &'static str>, Fail> {
    let (n, small, bigs) = m.split()?;
    let zn = guard("ZmodN::new", || ZmodN::new(n))?;
    let words = zn.words();
    let curve = match cs.family.as_str() {
        "edwards" => {
            if cs.x < 2 || cs.y < 2 || cs.x >= 1 << 31 || cs.y >= 1 << 31 || cs.x == cs.y {
                return Err(harness_fail("edwards generator must satisfy 2 <= x != y < 2^31"));
            }
            match guard("Curve::from_point", || Curve::from_point(zn.clone(), cs.x, cs.y))? {
                Ok(c) => c,
                Err(_) => return Ok(Err("construct-refused")),
            }
        }
        "suyama" => {
            if cs.seed < 2 {
                return Err(harness_fail("suyama seed must be >= 2"));
            }
            let r = guard("Suyama11", || {
                let s = match Suyama11::new(&zn) {
                    Ok(s) => s,
                    Err(_) => return None,
                };
                let e = s.element(cs.seed).ok()?;
                let g = s.params_point(&e).ok()?;
                Curve::twisted_from_point(zn.clone(), g).ok()
            })?;
            match r {
                Some(c) => c,
                None => return Ok(Err("construct-refused")),
            }
        }
        _ => return Err(harness_fail("unknown curve family")),
    };
    let twisted = curve.verif_twisted();
    ensure!(
        twisted == (cs.family == "suyama"),
        "Curve|wrong-twist",
        "curve family {} constructed with twisted={}",
        cs.family,
        twisted
    );
    let g = curve.gen().clone();
    let (a_lib, d_lib) = guard("Curve::a_d", || curve.a_d())?;
    ensure!(
        a_lib == if twisted { -1 } else { 1 },
        "Curve::a_d|wrong-a",
        "a_d() reports a={} for twisted={}",
        a_lib,
        twisted
    );
    let mut refs = vec![];
    for &q in &small {
        let f = Fp::new(q);
        let (gx, gy, gz) = g.verif_xyz();
        let (x, y, z) = (f.from_words(&gx.0), f.from_words(&gy.0), f.from_words(&gz.0));
        let Some(zi) = f.inv(z) else {
            return Ok(Err("degenerate-mod-q"));
        };
        let (x, y) = (f.mul(x, zi), f.mul(y, zi));
        let a = if twisted { q - 1 } else { 1 };
        let Some((te, gh)) = TwEd::through_point(q, a, x, y) else {
            return Ok(Err("degenerate-mod-q"));
        };
        if cs.family == "edwards" {
            ensure!(
                x == cs.x % q && y == cs.y % q,
                "Curve::from_point|generator-mismatch",
                "generator of from_point({}, {}) is ({}, {}) mod {}",
                cs.x,
                cs.y,
                x,
                y,
                q
            );
        }
        ensure!(
            f.from_big(&d_lib) == te.d,
            "Curve|d-mismatch",
            "a_d() reports d = {} mod {} but the curve through the generator ({}, {}) has d = {} (n={})",
            f.from_big(&d_lib),
            q,
            x,
            y,
            te.d,
            n
        );
        // the generator must not be a point of tiny order mod q (then everything is exceptional)
        let mut t = gh;
        for _ in 0..24 {
            if !t.is_finite() || te.is_neutral(&t) {
                return Ok(Err("tiny-order-mod-q"));
            }
            t = te.add(&t, &gh);
        }
        refs.push(RefCtx { te, g: gh });
    }
    if cs.family == "edwards" && small.is_empty() {
        // no reference available: make sure (x, y) is not a torsion point over Q (order <= 12,
        // hence of the same small order modulo every prime) by looking modulo a fixed prime
        let q0 = (1u64 << 61) - 1;
        match TwEd::through_point(q0, 1, cs.x, cs.y) {
            Some((te, gh)) => {
                let mut t = gh;
                for _ in 0..24 {
                    if !t.is_finite() || te.is_neutral(&t) {
                        return Ok(Err("torsion-generator"));
                    }
                    t = te.add(&t, &gh);
                }
            }
            None => return Ok(Err("degenerate-mod-q")),
        }
    }
    let c128 = if twisted && n.bits() <= 128 {
        if words == 2 {
            Some(guard("ecm128::Curve::from", || ecm128::Curve::from(&curve))?)
        } else {
            let (gx, gy, gz) = g.verif_xyz();
            let n128 = n.digits()[0] as u128 | ((n.digits()[1] as u128) << 64);
            Some(guard("ecm128::Curve::from_point", || {
                ecm128::Curve::from_point(
                    n128,
                    ecm128::verif::point_new(mint_u128(&gx), mint_u128(&gy), mint_u128(&gz)),
                )
            })?)
        }
    } else {
        None
    };
    let env = Env {
        n,
        words,
        zn,
        curve,
        twisted,
        refs,
        bigs,
        c128,
    };
    // the generator itself
    let gr: Vec<H> = env.refs.iter().map(|r| r.g).collect();
    env.check_out("Curve::gen", &g, Some(&gr))?;
    l.label(&format!("words={}", words));
    l.label(if twisted { "curve:twisted(a=-1)" } else { "curve:untwisted(a=1)" });
    l.label(&format!("ref-primes={}", env.refs.len().min(3)));
    if env.c128.is_some() {
        l.label(&format!("ecm128:words={}", words));
    }
    Ok(Ok(env))
}

// --- re-enactment of the library's schedules with the reference (domain decision) ---

/// `scalar64_mul_dbladd`: right-to-left, unified formulas (the doubling after the last bit
/// is computed by the library but unused).
fn sim_dbladd(te: &TwEd, k: &U1024, p: &H) -> Option<H> {
    let mut res = te.neutral();
    let mut sq = *p;
    let nb = k.bits();
    for i in 0..nb {
        if k.bit(i) {
            res = te.add_unified(&res, &sq)?;
        }
        if i + 1 < nb {
            sq = te.add_unified(&sq, &sq)?;
        }
    }
    Some(res)
}

/// `scalar64_chainmul` / `scalar1024_chainmul` / `ecm128::scalar64_mul`: odd multiples
/// P, 3P, .. by dedicated additions of 2P, then the opcode list (doublings: unified;
/// odd opcode: unified doubling followed by a dedicated addition of +-cP).
fn sim_chain(te: &TwEd, chain: &[i8], p: &H, window: usize) -> Option<H> {
    let p2 = te.add_unified(p, p);
    let mut gaps: Vec<Option<H>> = vec![Some(*p)];
    for i in 1..window {
        let g = match (&gaps[i - 1], &p2) {
            (Some(a), Some(b)) => te.add_dedicated(a, b),
            _ => None,
        };
        gaps.push(g);
    }
    let l = chain.len();
    let mut q = (*gaps.get(chain[l - 1] as usize / 2)?)?;
    for idx in 1..l {
        let op = chain[l - 1 - idx];
        if op % 2 == 0 {
            for _ in 0..op / 2 {
                q = te.add_unified(&q, &q)?;
            }
        } else {
            let q2 = te.add_unified(&q, &q)?;
            let g = (*gaps.get(op.unsigned_abs() as usize / 2)?)?;
            q = if op > 0 {
                te.add_dedicated(&q2, &g)?
            } else {
                te.add_dedicated(&q2, &te.neg(&g))?
            };
        }
    }
    Some(q)
}

/// P = m G computed by the library's plain double-and-add, verified against the reference.
/// Ok(None): some step is exceptional modulo a small prime factor.
fn multiple(env: &Env, m: u64, l: &mut Local) -> Result<Option<(Point, Vec<H>)>, Fail> {
    if m == 0 {
        return Err(harness_fail("point multiplier must be >= 1"));
    }
    let g = env.curve.gen().clone();
    if m == 1 {
        return Ok(Some((g, env.refs.iter().map(|r| r.g).collect())));
    }
    let mut hs = vec![];
    for rc in &env.refs {
        match sim_dbladd(&rc.te, &U1024::from(m), &rc.g) {
            Some(h) => {
                if !rc.te.eq(&h, &rc.te.mul(m as u128, &rc.g)) {
                    return Err(Fail::new("HARNESS|sim-dbladd", "re-enactment differs from reference multiple"));
                }
                hs.push(h)
            }
            None => {
                l.label("skip:exceptional-base-point");
                return Ok(None);
            }
        }
    }
    let p = guard("scalar64_mul_dbladd", || env.curve.scalar64_mul_dbladd(m, &g))?;
    env.check_out("scalar64_mul_dbladd", &p, Some(&hs))?;
    Ok(Some((p, hs)))
}

fn all_some(v: &[Option<H>]) -> Option<Vec<H>> {
    v.iter().cloned().collect()
}

// ---------------------------------------------------------------------------
// law

pub fn check_law(c: &LawCase, l: &mut Local) -> Result<(), Fail> {
    l.case();
    let env = match build(&c.modulus, &c.curve, l)? {
        Ok(e) => e,
        Err(why) => {
            l.label(&format!("skip:{}", why));
            return Ok(());
        }
    };
    let Some((p, pr)) = multiple(&env, c.m1, l)? else {
        return Ok(());
    };
    let Some((q, qr)) = multiple(&env, c.m2, l)? else {
        return Ok(());
    };
    let nref = env.refs.len();
    let curve = &env.curve;
    // Decide every operation with the reference (None = exceptional modulo some small prime).
    // Without small prime factors: unified operations are taken as regular, dedicated ones
    // need distinct multipliers.
    let distinct = c.m1 != c.m2;
    let distinct_dbl = c.m1.checked_mul(2) != Some(c.m2);
    let per = |f: &dyn Fn(&TwEd, &H, &H) -> Option<H>| -> Option<Vec<H>> {
        all_some(&(0..nref).map(|i| f(&env.refs[i].te, &pr[i], &qr[i])).collect::<Vec<_>>())
    };
    let sum_u = per(&|te, a, b| te.add_unified(a, b));
    let sum_d = if distinct { per(&|te, a, b| te.add_dedicated(a, b)) } else { None };
    let dbl_p = per(&|te, a, _| te.add_unified(a, a));
    let diff_u = per(&|te, a, b| te.add_unified(a, &te.neg(b)));
    // (P, -Q) is a regular pair for the dedicated law even when P = Q (the sum is the neutral element)
    let diff_d = per(&|te, a, b| te.add_dedicated(a, &te.neg(b)));
    let dbladd = if distinct_dbl {
        per(&|te, a, b| te.add_unified(a, a).and_then(|d| te.add_dedicated(&d, b)))
    } else {
        None
    };
    let dbl_plus_u = per(&|te, a, b| te.add_unified(a, a).and_then(|d| te.add_unified(&d, b)));
    let back_u = per(&|te, a, b| te.add_unified(a, b).and_then(|s| te.add_unified(&s, &te.neg(b))));
    l.label("law:evaluated");
    if nref > 0 {
        l.label("law:with-reference");
    }
    if env.words >= 2 {
        l.nontrivial_of(&("law", env.n.digits(), &c.curve, c.m1, c.m2));
    }

    // to_extended
    let pe = guard("Curve::to_extended", || curve.verif_to_extended(&p))?;
    let qe = guard("Curve::to_extended", || curve.verif_to_extended(&q))?;
    env.check_ext("Curve::to_extended", &pe, Some(&pr))?;
    env.check_ext("Curve::to_extended", &qe, Some(&qr))?;
    env.ensure_eq(
        "Curve::to_extended|moves-point",
        "to_extended(P) is not P",
        &pe.verif_to_proj(),
        &p,
    )?;

    // unified addition
    let mut s_add = None;
    if let Some(e) = &sum_u {
        let s = guard("Curve::add", || curve.verif_add(&p, &q))?;
        env.check_out("Curve::add", &s, Some(e))?;
        let s2 = guard("Curve::add", || curve.verif_add(&q, &p))?;
        env.ensure_eq("Curve::add|not-commutative", "add(P,Q) != add(Q,P)", &s, &s2)?;
        s_add = Some(s);
        l.label("law:add");
    } else {
        l.label("skip:exceptional-add");
    }
    // dedicated additions in extended coordinates
    if let Some(e) = &sum_d {
        let x = guard("Curve::addext", || curve.verif_addext(&pe, &qe))?;
        env.check_ext("Curve::addext", &x, Some(e))?;
        let xp = guard("Curve::addextproj", || curve.verif_addextproj(&pe, &qe))?;
        env.check_out("Curve::addextproj", &xp, Some(e))?;
        env.ensure_eq(
            "Curve::addextproj|disagrees-with-addext",
            "addextproj(P,Q) != addext(P,Q)",
            &xp,
            &x.verif_to_proj(),
        )?;
        if let Some(s) = &s_add {
            env.ensure_eq(
                "Curve::addext|disagrees-with-add",
                "addext(P,Q) != add(P,Q)",
                &x.verif_to_proj(),
                s,
            )?;
        }
        l.label("law:addext");
    } else if distinct {
        l.label("skip:exceptional-addext");
    }
    // doubling
    let mut d_p = None;
    if let Some(e) = &dbl_p {
        let d1 = guard("Curve::double", || curve.verif_double(&p))?;
        env.check_out("Curve::double", &d1, Some(e))?;
        let d2 = guard("Curve::dblext", || curve.verif_dblext(&p))?;
        env.check_ext("Curve::dblext", &d2, Some(e))?;
        env.ensure_eq(
            "Curve::dblext|disagrees-with-double",
            "dblext(P) != double(P)",
            &d2.verif_to_proj(),
            &d1,
        )?;
        let d3 = guard("Curve::add", || curve.verif_add(&p, &p))?;
        env.check_out("Curve::add", &d3, Some(e))?;
        env.ensure_eq(
            "Curve::add|disagrees-with-double",
            "add(P,P) != double(P)",
            &d3,
            &d1,
        )?;
        d_p = Some(d1);
        l.label("law:double");
    } else {
        l.label("skip:exceptional-double");
    }
    // subtraction
    let nq = env.neg(&q)?;
    if let Some(e) = &diff_d {
        let u1 = guard("Curve::subextproj", || curve.verif_subextproj(&pe, &qe))?;
        env.check_out("Curve::subextproj", &u1, Some(e))?;
        if diff_u.is_some() {
            let u2 = guard("Curve::add", || curve.verif_add(&p, &nq))?;
            env.check_out("Curve::add", &u2, Some(e))?;
            env.ensure_eq(
                "Curve::subextproj|disagrees-with-add",
                "subextproj(P,Q) != add(P,-Q)",
                &u1,
                &u2,
            )?;
            let u3 = guard("Curve::sub", || curve.verif_sub(&p, &q))?;
            env.ensure_eq("Curve::sub|disagrees-with-add", "sub(P,Q) != add(P,-Q)", &u3, &u2)?;
        }
        l.label("law:sub");
    }
    // (P + Q) - Q = P
    if let (Some(_), Some(s)) = (&back_u, &s_add) {
        let b = guard("Curve::add", || curve.verif_add(s, &nq))?;
        env.check_out("Curve::add", &b, Some(&pr))?;
        env.ensure_eq("Curve::add|not-invertible", "(P+Q)-Q != P", &b, &p)?;
    }
    // is_valid must reject a point off the curve (decided by the reference: only with small primes)
    if nref > 0 {
        let (x, y, z) = p.verif_xyz();
        let x1 = guard("ZmodN::add", || env.zn.add(x, env.zn.one()))?;
        let bad = Point::verif_new(x1, y, z);
        let off = (0..nref).any(|i| !env.refs[i].te.on_curve(&env.ref_h(i, &bad)));
        if off {
            let v = guard("Curve::is_valid", || curve.verif_is_valid(&bad))?;
            ensure!(
                !v,
                "Curve::is_valid|accepts-invalid",
                "is_valid accepts {} which is not on the curve (n={})",
                env.show(&bad),
                env.n
            );
            l.label("law:is_valid-negative");
        }
    }

    // 128-bit implementation
    if let Some(c128) = &env.c128 {
        use ecm128::verif as v;
        let (p128, q128) = (env.to128(&p), env.to128(&q));
        let pe128 = guard("ecm128::Curve::ext", || c128.ext(&p128))?;
        let qe128 = guard("ecm128::Curve::ext", || c128.ext(&q128))?;
        env.check_ext("ecm128::Curve::ext", &env.ext_from128(&pe128), Some(&pr))?;
        env.ensure_eq(
            "ecm128::Curve::ext|moves-point",
            "ecm128 ext(P) is not P",
            &env.from128(&v::extpoint_proj(&pe128)),
            &p,
        )?;
        let ok = guard("ecm128::Curve::is_valid", || v::curve_is_valid(c128, &pe128))?;
        ensure!(
            ok,
            "ecm128::Curve::is_valid|rejects-valid",
            "ecm128 is_valid rejects ext(P), P={} (n={})",
            env.show(&p),
            env.n
        );
        if let Some(e) = &sum_d {
            let a = guard("ecm128::Curve::add", || v::curve_add(c128, &pe128, &qe128))?;
            let ae = env.ext_from128(&a);
            env.check_ext("ecm128::Curve::add", &ae, Some(e))?;
            let x = guard("Curve::addext", || curve.verif_addext(&pe, &qe))?;
            env.ensure_eq(
                "ecm128::Curve::add|disagrees-with-ecm",
                "ecm128 add(P,Q) != ecm addext(P,Q)",
                &ae.verif_to_proj(),
                &x.verif_to_proj(),
            )?;
            let ok = guard("ecm128::Curve::is_valid", || v::curve_is_valid(c128, &a))?;
            ensure!(
                ok,
                "ecm128::Curve::is_valid|rejects-valid",
                "ecm128 is_valid rejects add(P,Q) (n={})",
                env.n
            );
            l.label("law:ecm128-add");
        }
        if let (Some(e), Some(d1)) = (&dbl_p, &d_p) {
            let d = guard("ecm128::Curve::double", || v::curve_double(c128, &p128))?;
            ensure!(env.in_range128(&d), "ecm128::Curve::double|unreduced", "coordinate >= n (n={})", env.n);
            let dp = env.from128(&d);
            env.check_out("ecm128::Curve::double", &dp, Some(e))?;
            env.ensure_eq(
                "ecm128::Curve::double|disagrees-with-ecm",
                "ecm128 double(P) != ecm double(P)",
                &dp,
                d1,
            )?;
            let de = guard("ecm128::Curve::dblext", || v::curve_dblext(c128, &p128))?;
            let dee = env.ext_from128(&de);
            env.check_ext("ecm128::Curve::dblext", &dee, Some(e))?;
            env.ensure_eq(
                "ecm128::Curve::dblext|disagrees-with-ecm",
                "ecm128 dblext(P) != ecm double(P)",
                &dee.verif_to_proj(),
                d1,
            )?;
            l.label("law:ecm128-double");
        }
        if let (Some(e), Some(d1)) = (&dbladd, &d_p) {
            let r = guard("ecm128::Curve::dbladd", || v::curve_dbladd(c128, &p128, &qe128))?;
            let rp = env.from128(&r);
            env.check_out("ecm128::Curve::dbladd", &rp, Some(e))?;
            if dbl_plus_u.is_some() {
                let s = guard("Curve::add", || curve.verif_add(d1, &q))?;
                env.ensure_eq(
                    "ecm128::Curve::dbladd|disagrees-with-ecm",
                    "ecm128 dbladd(P,Q) != ecm add(double(P),Q)",
                    &rp,
                    &s,
                )?;
            }
            l.label("law:ecm128-dbladd");
        }
        if nref > 0 {
            // negative direction of the 128-bit validity test
            let (x, y, z, t) = v::extpoint_xyzt(&pe128);
            let (n128, _, one) = v::curve_consts(c128);
            let ctx = v::m128_new(n128);
            let bad = v::extpoint_new(v::add(&ctx, x, one), y, z, t);
            let bh = env.ext_from128(&bad);
            let (bx, by, bz, _) = bh.verif_xyzt();
            let bp = Point::verif_new(bx, by, bz);
            let off = (0..nref).any(|i| {
                let h = env.ref_h(i, &bp);
                h.z != 0 && !env.refs[i].te.on_curve(&h)
            });
            // the 128-bit test compares y^2 - x^2 - z^2 with d t^2: only X changed, T kept
            if off {
                let ok = guard("ecm128::Curve::is_valid", || v::curve_is_valid(c128, &bad))?;
                ensure!(
                    !ok,
                    "ecm128::Curve::is_valid|accepts-invalid",
                    "ecm128 is_valid accepts a perturbed point (n={})",
                    env.n
                );
            }
        }
    }
    Ok(())
}

// ---------------------------------------------------------------------------
// mul64

fn neutral_ok(env: &Env, entry: &str, p: &Point) -> Result<(), Fail> {
    let (x, y, z) = p.verif_xyz();
    let zero = MInt::default();
    ensure!(
        x == zero && y == z && z != zero,
        format!("{}|zero-scalar", entry),
        "{}(0, P) = {} is not the neutral element [0:1:1] (n={})",
        entry,
        env.show(p),
        env.n
    );
    env.check_out(entry, p, None)
}

pub fn check_mul64(c: &Mul64Case, l: &mut Local) -> Result<(), Fail> {
    l.case();
    let env = match build(&c.modulus, &c.curve, l)? {
        Ok(e) => e,
        Err(why) => {
            l.label(&format!("skip:{}", why));
            return Ok(());
        }
    };
    let Some((p, pr)) = multiple(&env, c.m, l)? else {
        return Ok(());
    };
    let curve = &env.curve;
    // the scalar
    let mut k = c.k;
    if c.ord_mult > 0 {
        if let Some(i) = (0..env.refs.len()).find(|&i| env.refs[i].te.f.p <= 1 << 36) {
            let ord = env.refs[i].te.point_order(&pr[i]);
            if let Some(v) = ord.checked_mul(c.ord_mult as u64) {
                k = v;
                l.label("k:order-multiple");
            }
        }
    }
    if k == 0 {
        l.label("k:zero");
        let a = guard("scalar64_chainmul", || curve.scalar64_chainmul(0, &p))?;
        neutral_ok(&env, "scalar64_chainmul", &a)?;
        let b = guard("scalar64_mul_dbladd", || curve.scalar64_mul_dbladd(0, &p))?;
        neutral_ok(&env, "scalar64_mul_dbladd", &b)?;
        if let Some(c128) = &env.c128 {
            let p128 = env.to128(&p);
            let r = guard("ecm128::scalar64_mul", || c128.scalar64_mul(0, &p128))?;
            neutral_ok(&env, "ecm128::scalar64_mul", &env.from128(&r))?;
        }
        return Ok(());
    }
    if k >= u64::MAX - 63 {
        l.label("k:within-64-of-2^64");
    }
    if k & (k.wrapping_add(1)) == 0 {
        l.label("k:all-ones");
    }
    if k.is_power_of_two() {
        l.label("k:power-of-two");
    }

    // the three implementations (called first: a panic is attributed to the public entry point)
    let a = guard("scalar64_chainmul", || curve.scalar64_chainmul(k, &p))?;
    let b = guard("scalar64_mul_dbladd", || curve.scalar64_mul_dbladd(k, &p))?;
    let r128 = match &env.c128 {
        Some(c128) => {
            let p128 = env.to128(&p);
            Some(guard("ecm128::scalar64_mul", || c128.scalar64_mul(k, &p128))?)
        }
        None => None,
    };
    // the opcode list (validated on the integer level)
    check_chain64(&ChainCase { k }, &mut Local::new())?;
    let chain = guard("make_addition_chain", || ecm::verif_chain(k))?;
    if chain.len() >= 32 {
        l.label("k:chain-of-maximal-length");
    }
    // domain decision + reference value
    let mut expect = vec![];
    for (i, rc) in env.refs.iter().enumerate() {
        let sa = sim_chain(&rc.te, &chain, &pr[i], 4);
        let sb = sim_dbladd(&rc.te, &U1024::from(k), &pr[i]);
        let (Some(sa), Some(sb)) = (sa, sb) else {
            l.label("skip:exceptional-step");
            return Ok(());
        };
        let r = rc.te.mul(k as u128, &pr[i]);
        if !rc.te.eq(&sa, &r) || !rc.te.eq(&sb, &r) {
            return Err(Fail::new(
                "HARNESS|sim-chain",
                format!("re-enactment of chain {:?} differs from reference k P (k={})", chain, k),
            ));
        }
        if rc.te.is_neutral(&r) {
            l.label("mul64:hits-neutral-mod-q");
        }
        expect.push(r);
    }
    env.check_out("scalar64_chainmul", &a, Some(&expect))?;
    env.check_out("scalar64_mul_dbladd", &b, Some(&expect))?;
    env.ensure_eq(
        "scalar64_chainmul|disagrees-with-dbladd",
        &format!("scalar64_chainmul({k}, P) != scalar64_mul_dbladd({k}, P)"),
        &a,
        &b,
    )?;
    l.label("mul64:evaluated");
    if !env.refs.is_empty() {
        l.label("mul64:with-reference");
    }
    if let (Some(c128), Some(r)) = (&env.c128, &r128) {
        ensure!(env.in_range128(r), "ecm128::scalar64_mul|unreduced", "coordinate >= n (n={})", env.n);
        let rp = env.from128(r);
        env.check_out("ecm128::scalar64_mul", &rp, Some(&expect))?;
        env.ensure_eq(
            "ecm128::scalar64_mul|disagrees-with-ecm",
            &format!("ecm128 scalar64_mul({k}, P) != ecm scalar64_chainmul({k}, P)"),
            &rp,
            &a,
        )?;
        let re = guard("ecm128::Curve::ext", || c128.ext(r))?;
        let ok = guard("ecm128::Curve::is_valid", || ecm128::verif::curve_is_valid(c128, &re))?;
        ensure!(
            ok,
            "ecm128::Curve::is_valid|rejects-valid",
            "ecm128 is_valid rejects scalar64_mul({}, P) (n={})",
            k,
            env.n
        );
        l.label("mul64:ecm128");
    }
    if k >= 1 << 32 && env.words >= 2 {
        l.nontrivial_of(&("mul64", env.n.digits(), &c.curve, c.m, k));
        l.sample("mul64:k>=2^32,multiword", || serde_json::to_value(c).unwrap());
    }
    Ok(())
}

// ---------------------------------------------------------------------------
// mul1024

pub fn check_mul1024(c: &Mul1024Case, l: &mut Local) -> Result<(), Fail> {
    l.case();
    let env = match build(&c.modulus, &c.curve, l)? {
        Ok(e) => e,
        Err(why) => {
            l.label(&format!("skip:{}", why));
            return Ok(());
        }
    };
    let Some((p, pr)) = multiple(&env, c.m, l)? else {
        return Ok(());
    };
    let curve = &env.curve;
    let k = c.k;
    if k.is_zero() {
        l.label("k:zero");
        let a = guard("scalar1024_chainmul", || curve.scalar1024_chainmul(&k, &p))?;
        return neutral_ok(&env, "scalar1024_chainmul", &a);
    }
    let a = guard("scalar1024_chainmul", || curve.scalar1024_chainmul(&k, &p))?;
    check_chain1024(&ChainLongCase { k }, &mut Local::new())?;
    let chain = guard("make_addition_chain_long", || ecm::verif_chain_long(&k))?;
    let mut expect = vec![];
    for (i, rc) in env.refs.iter().enumerate() {
        let a = sim_chain(&rc.te, &chain, &pr[i], 32);
        let b = sim_dbladd(&rc.te, &k, &pr[i]);
        let (Some(a), Some(b)) = (a, b) else {
            l.label("skip:exceptional-step");
            return Ok(());
        };
        let r = rc.te.mul_big(&k, &pr[i]);
        if !rc.te.eq(&a, &r) || !rc.te.eq(&b, &r) {
            return Err(Fail::new(
                "HARNESS|sim-chain",
                format!("re-enactment of the long chain differs from reference k P (k={})", k),
            ));
        }
        expect.push(r);
    }
    env.check_out("scalar1024_chainmul", &a, Some(&expect))?;
    // plain double-and-add built from the hooked unified formulas (same schedule as sim_dbladd)
    let b = {
        let zn = &env.zn;
        let mut res = Point::verif_new(zn.zero(), zn.one(), zn.one());
        let mut sq = p.clone();
        let nb = k.bits();
        for i in 0..nb {
            if k.bit(i) {
                res = guard("Curve::add", || curve.verif_add(&res, &sq))?;
            }
            if i + 1 < nb {
                sq = guard("Curve::double", || curve.verif_double(&sq))?;
            }
        }
        res
    };
    env.check_out("double-and-add(Curve::add,Curve::double)", &b, Some(&expect))?;
    env.ensure_eq(
        "scalar1024_chainmul|disagrees-with-dbladd",
        &format!("scalar1024_chainmul({k}, P) != double-and-add"),
        &a,
        &b,
    )?;
    if k.bits() <= 64 {
        // also the 64-bit chain on the same scalar
        let k64 = k.digits()[0];
        let ok = env
            .refs
            .iter()
            .enumerate()
            .all(|(i, rc)| match guard("make_addition_chain", || ecm::verif_chain(k64)) {
                Ok(ch) => sim_chain(&rc.te, &ch, &pr[i], 4).is_some(),
                Err(_) => false,
            });
        if ok {
            let a64 = guard("scalar64_chainmul", || curve.scalar64_chainmul(k64, &p))?;
            env.ensure_eq(
                "scalar1024_chainmul|disagrees-with-scalar64",
                &format!("scalar1024_chainmul({k}, P) != scalar64_chainmul"),
                &a,
                &a64,
            )?;
        }
    }
    l.label("mul1024:evaluated");
    if !env.refs.is_empty() {
        l.label("mul1024:with-reference");
    }
    l.label(&format!("mul1024:k-words={}", (k.bits() + 63) / 64));
    if env.words >= 2 {
        l.nontrivial_of(&("mul1024", env.n.digits(), &c.curve, c.m, k.digits()));
        l.sample("mul1024:multiword", || serde_json::to_value(c).unwrap());
    }
    Ok(())
}

// ---------------------------------------------------------------------------
// Generators

static BIG_POOL: OnceLock<Vec<U1024>> = OnceLock::new();
static BLOCKS: OnceLock<(Vec<u64>, Vec<U1024>)> = OnceLock::new();

/// Certified primes of 63..=500 bits on a grid around the word boundaries.
fn big_pool() -> &'static Vec<U1024> {
    BIG_POOL.get_or_init(|| {
        let mut v = vec![];
        for bits in [
            63u32, 64, 65, 66, 67, 80, 96, 112, 126, 127, 128, 129, 130, 160, 190, 191, 192, 193, 224, 254, 255, 256,
            257, 288, 318, 319, 320, 321, 352, 382, 383, 384, 385, 416, 438, 447, 448, 449, 450, 480, 499, 500,
        ] {
            v.push(certified_prime(bits, 0));
            if bits % 32 != 0 {
                v.push(certified_prime(bits, 1));
            }
        }
        for p in famous_primes() {
            if p.bits() >= 63 && p.bits() <= MAX_BITS {
                v.push(p);
            }
        }
        v.sort();
        v.dedup();
        v
    })
}

/// B1 values: every hard-wired one plus boundary values.
const B1S: [usize; 50] = [
    3, 5, 8, 16, 17, 30, 40, 45, 50, 60, 64, 80, 100, 128, 150, 180, 200, 256, 257, 350, 500, 600, 1000, 1024, 1500,
    2000, 2500, 3000, 3600, 4095, 4096, 4097, 5000, 8192, 10000, 15000, 20000, 25000, 30000, 50000, 65535, 65536,
    65537, 100_000, 120_000, 200_000, 300_000, 500_000, 1_000_000, 1_500_000,
];

/// The stage-1 exponent blocks exactly as `SmoothBase::new` builds them (hook `verif_blocks`).
fn build_blocks() -> Result<(Vec<u64>, Vec<U1024>), Fail> {
    let mut f64s = vec![];
    let mut larges = vec![];
    for &b1 in B1S.iter() {
        for use_large in [false, true] {
            if !use_large && b1 > 30000 {
                continue;
            }
            let (f, lg) = guard("SmoothBase::new", || SmoothBase::new(b1, use_large).verif_blocks())?;
            f64s.extend(f);
            larges.extend(lg);
        }
    }
    f64s.sort();
    f64s.dedup();
    larges.sort();
    larges.dedup();
    Ok((f64s, larges))
}

fn blocks() -> &'static (Vec<u64>, Vec<U1024>) {
    BLOCKS.get_or_init(|| build_blocks().unwrap_or_default())
}

fn small_prime(bits: u32, seed: u64) -> U1024 {
    U1024::from(prime_from_seed(bits.clamp(15, 61), seed))
}

/// Pick a pool prime of at most `maxbits` bits (monotone in `i`).
fn pool_pick(i: u16, maxbits: u32) -> Option<U1024> {
    let pool = big_pool();
    let cnt = pool.iter().filter(|p| p.bits() <= maxbits).count();
    if cnt == 0 {
        None
    } else {
        Some(pool[pick_idx(i, cnt)])
    }
}

fn make_modulus(shape: u8, b1: u32, b2: u32, s1: u64, s2: u64, i1: u16, i2: u16) -> Modulus {
    let q1 = small_prime(b1, s1);
    let q2 = small_prime(b2, s2);
    let f = match shape % 20 {
        // one small prime (one word, full reference)
        0 | 1 => vec![q1],
        // two small primes
        2 | 3 => vec![q1, q2],
        // a square
        4 => vec![q1, q1],
        // small prime times a big prime: 2..8 words with reference
        5..=10 => match pool_pick(i1, MAX_BITS - q1.bits()) {
            Some(r) => vec![q1, r],
            None => vec![q1],
        },
        11 => match pool_pick(i1, MAX_BITS - q1.bits() - q2.bits()) {
            Some(r) => vec![q1, q2, r],
            None => vec![q1, q2],
        },
        // big primes only (no reference): one or two
        12 | 13 => vec![pool_pick(i1, MAX_BITS).unwrap()],
        14 => {
            let r1 = pool_pick(i1, 449).unwrap();
            match pool_pick(i2, MAX_BITS - r1.bits()) {
                Some(r2) => vec![r1, r2],
                None => vec![r1],
            }
        }
        // 128-bit implementation: n < 2^64 from two primes <= 31 bits (double large primes)
        15 => vec![small_prime(b1.clamp(15, 31), s1), small_prime(b2.clamp(15, 31), s2)],
        // 64 < bits <= 128 with reference
        16 | 17 => match pool_pick(i1, 128 - q1.bits().min(64)) {
            Some(r) if r.bits() + q1.bits() <= 128 => vec![q1, r],
            _ => vec![q1, q2],
        },
        // a prime of 63..128 bits
        18 => vec![pool_pick(i1, 128).unwrap()],
        // two large small primes (about 120 bits)
        _ => vec![small_prime(58 + (b1 % 4), s1), small_prime(58 + (b2 % 4), s2)],
    };
    Modulus { factors: f }
}

fn modulus_strategy() -> impl Strategy<Value = Modulus> {
    (
        0u8..20,
        12u32..=61,
        12u32..=61,
        any::<u64>(),
        any::<u64>(),
        any::<u16>(),
        any::<u16>(),
    )
        .prop_map(|(shape, b1, b2, s1, s2, i1, i2)| make_modulus(shape, b1, b2, s1, s2, i1, i2))
}

fn curve_strategy() -> BoxedStrategy<CurveSpec> {
    prop_oneof![
        // the fall-back family of ecm(): (3k+5, 4k+5), k = seed mod 2^24
        // (k = 0 gives x = y = 5, which from_point's callers never pass: ecm() uses seeds >= 2)
        3 => (1u64..1 << 24).prop_map(|k| CurveSpec::edwards(3 * k + 5, 4 * k + 5)),
        // any generator accepted by from_point
        2 => (2u64..1 << 31, 2u64..1 << 31).prop_map(|(x, y)| {
            if x == y { CurveSpec::edwards(x, if y + 1 < 1 << 31 { y + 1 } else { y - 1 }) } else { CurveSpec::edwards(x, y) }
        }),
        1 => (2u64..40, 2u64..200).prop_map(|(x, y)| {
            if x == y { CurveSpec::edwards(x, if y + 1 < 1 << 31 { y + 1 } else { y - 1 }) } else { CurveSpec::edwards(x, y) }
        }),
        // Suyama-11: seeds as ecm128 (2..), as ecm() for small inputs (16-bit) and 32-bit
        3 => (2u32..200).prop_map(CurveSpec::suyama),
        3 => (2u32..65536).prop_map(CurveSpec::suyama),
        2 => (2u32..=u32::MAX).prop_map(CurveSpec::suyama),
    ]
    .boxed()
}

fn mult_strategy() -> BoxedStrategy<u64> {
    prop_oneof![
        2 => Just(1u64),
        4 => 2u64..2000,
        2 => edgy64().prop_map(|x| x.max(1)),
        2 => any::<u64>().prop_map(|x| x.max(1)),
    ]
    .boxed()
}

fn k64_strategy() -> BoxedStrategy<(u64, u32)> {
    prop_oneof![
        2 => (0u64..4096).prop_map(|k| (k, 0)),
        2 => (0u32..64, 0u8..3).prop_map(|(j, d)| {
            let b = 1u64 << j;
            (match d { 0 => b, 1 => b.wrapping_sub(1), _ => b + 1 }, 0)
        }),
        3 => (0u64..64).prop_map(|d| (u64::MAX - d, 0)),
        3 => any::<u16>().prop_map(|i| {
            let b = &blocks().0;
            (if b.is_empty() { 720720 } else { b[pick_idx(i, b.len())] }, 0)
        }),
        3 => edgy64().prop_map(|k| (k, 0)),
        4 => any::<u64>().prop_map(|k| (k, 0)),
        2 => (any::<u8>(), any::<u64>()).prop_map(|(t, c)| (max_length_scalar(t, c), 0)),
        1 => (any::<u64>(), 1u32..100_000).prop_map(|(k, j)| (k, j)),
    ]
    .boxed()
}

fn k1024_strategy() -> BoxedStrategy<U1024> {
    let one = U1024::ONE;
    prop_oneof![
        4 => edgy::<16>(1024),
        3 => proptest::collection::vec(any::<u64>(), 16).prop_map(|v| {
            let mut d = [0u64; 16];
            d.copy_from_slice(&v);
            U1024::from_digits(d)
        }),
        2 => (0u64..200).prop_map(move |d| U1024::MAX - U1024::from(d)),
        1 => (0u64..200, any::<bool>()).prop_map(move |(d, s)| {
            let b = one << 1023;
            if s { b + U1024::from(d) } else { b - U1024::from(d) }
        }),
        3 => any::<u16>().prop_map(|i| {
            let b = &blocks().1;
            if b.is_empty() { U1024::from(720720u64) } else { b[pick_idx(i, b.len())] }
        }),
        // products of two 64-bit values (as the unit test), short scalars
        1 => (any::<u64>(), any::<u64>()).prop_map(|(a, b)| U1024::from(a) * U1024::from(b)),
        1 => edgy64().prop_map(U1024::from),
        // every 7-bit window pattern repeated
        1 => (any::<u8>(), 1u32..1024).prop_map(|(pat, len)| {
            let mut v = U1024::ZERO;
            let mut i = 0;
            while i < len {
                v |= U1024::from(pat as u64) << i;
                i += 8;
            }
            if len < 1024 { v & ((U1024::ONE << len) - U1024::ONE) } else { v }
        }),
    ]
    .boxed()
}

pub fn law_strategy() -> impl Strategy<Value = LawCase> {
    (modulus_strategy(), curve_strategy(), mult_strategy(), mult_strategy(), any::<u8>()).prop_map(
        |(modulus, curve, m1, m2, rel)| {
            // a few related pairs: Q = P (doubling through add), Q = 2P, Q = P + G
            let m2 = match rel {
                0..=7 => m1,
                8..=15 => m1.checked_mul(2).unwrap_or(m2),
                16..=23 => m1.checked_add(1).unwrap_or(m2),
                _ => m2,
            };
            LawCase {
                modulus,
                curve,
                m1,
                m2,
            }
        },
    )
}

pub fn mul64_strategy() -> impl Strategy<Value = Mul64Case> {
    (modulus_strategy(), curve_strategy(), mult_strategy(), k64_strategy()).prop_map(
        |(modulus, curve, m, (k, ord_mult))| Mul64Case {
            modulus,
            curve,
            m,
            k,
            ord_mult,
        },
    )
}

pub fn mul1024_strategy() -> impl Strategy<Value = Mul1024Case> {
    (modulus_strategy(), curve_strategy(), mult_strategy(), k1024_strategy()).prop_map(|(modulus, curve, m, k)| {
        Mul1024Case {
            modulus,
            curve,
            m,
            k,
        }
    })
}

// ---------------------------------------------------------------------------
// Fixed part

fn p_u(x: u64) -> U1024 {
    U1024::from(x)
}

/// Fixed (modulus, curve) pairs: 1, 2, 4, 5, 7 and 8 words, both families, with and
/// without small prime factors, incl. the curves of the repository's unit tests.
fn fixed_setups() -> Vec<(Modulus, CurveSpec)> {
    let (p50, q50) = (602768606663711u64, 957629686686973u64);
    let m61 = (1u64 << 61) - 1;
    let mut v = vec![
        // one word
        (Modulus { factors: vec![p_u(m61)] }, CurveSpec::suyama(2)),
        (Modulus { factors: vec![p_u(m61)] }, CurveSpec::edwards(2, 3)),
        (Modulus { factors: vec![p_u(1000003), p_u(998244353)] }, CurveSpec::suyama(5)),
        // two words: the modulus of test_twisted_curve / ecm128::test_curve
        (Modulus { factors: vec![p_u(p50), p_u(q50)] }, CurveSpec::suyama(2)),
        (Modulus { factors: vec![p_u(p50), p_u(q50)] }, CurveSpec::edwards(2, 10)),
        (Modulus { factors: vec![p_u(p50), certified_prime(66, 0)] }, CurveSpec::suyama(3)),
        // four words
        (Modulus { factors: vec![p_u(p50), certified_prime(192, 0)] }, CurveSpec::edwards(2, 132)),
        (Modulus { factors: vec![p_u(q50), certified_prime(192, 1)] }, CurveSpec::suyama(11)),
        // five words, no small factor
        (Modulus { factors: vec![certified_prime(130, 0), certified_prime(160, 0)] }, CurveSpec::edwards(5, 5 + 4)),
        // seven words
        (Modulus { factors: vec![p_u(1000003), certified_prime(420, 0)] }, CurveSpec::suyama(1234)),
    ];
    // eight words: a 500-bit prime (the widest supported modulus), and a 500-bit composite with a small factor
    v.push((
        Modulus { factors: vec![certified_prime(500, 0)] },
        CurveSpec::edwards(3 * 7 + 5, 4 * 7 + 5),
    ));
    v.push((
        Modulus { factors: vec![p_u(p50), certified_prime(450, 0)] },
        CurveSpec::suyama(65535),
    ));
    v
}

/// A 64-bit scalar whose chain has the maximal number of opcodes: top block 9..15 followed by
/// 15 blocks that each take exactly one add/sub opcode and one shift by 3
/// (k' = 16 k + c, c odd, |c| <= 7).  `choices` supplies the c's (3 bits + sign each).
fn max_length_scalar(top: u8, choices: u64) -> u64 {
    let mut k: u64 = 9 + 2 * (top as u64 % 4);
    for i in 0..15 {
        let c = 1 + 2 * ((choices >> (4 * i)) & 3);
        k = if (choices >> (4 * i + 3)) & 1 == 0 { 16 * k + c } else { 16 * k - c };
    }
    k
}

fn special_scalars() -> Vec<u64> {
    let mut v = vec![];
    // chains of maximal length (33 opcodes on the pinned tree: one more than the array holds)
    let mut r = crate::oracle::int::SplitMix(0xC15);
    for i in 0..48u8 {
        v.push(max_length_scalar(i, r.next()));
    }
    // every k within 64 of 2^64, of 2^63, of 2^32
    for d in 0..64u64 {
        v.push(u64::MAX - d);
        v.push((1u64 << 63) - 32 + d);
        v.push((1u64 << 32) - 32 + d);
    }
    for j in 0..64u32 {
        let b = 1u64 << j;
        v.extend([b, b.wrapping_sub(1), b + 1]);
        // all-ones from the top: 2^64 - 2^j
        v.push(0u64.wrapping_sub(b));
        // residues that drive the +-r branches at every level
        v.push((0x9999_9999_9999_9999u64 >> j) | 1);
        v.push((0xFFFF_FFFF_FFFF_FFF7u64 >> j) | 1);
    }
    v.sort();
    v.dedup();
    v
}

fn special_scalars_1024() -> Vec<U1024> {
    let one = U1024::ONE;
    let mut v = vec![U1024::MAX, U1024::MAX - one, one << 1023, (one << 1023) + one, (one << 1023) - one];
    for j in (0..1024u32).step_by(1) {
        let b = one << j;
        v.push(b);
        if j > 0 {
            v.push(b - one);
            v.push(b + one);
        }
        // 2^1024 - 2^j : ones from the top
        v.push(U1024::MAX - b + one);
    }
    // repeated byte patterns (exercise every window value, carries across word loads)
    for pat in [0x55u64, 0xAA, 0x7F, 0x81, 0xC1, 0x3F, 0x41, 0xBF, 0xFE, 0x80, 0x01, 0xE7] {
        let mut x = U1024::ZERO;
        for i in 0..128 {
            x |= U1024::from(pat) << (8 * i);
        }
        v.push(x);
        v.push(x >> 3);
        v.push(x >> 61);
    }
    v
}

fn timing(ctx: &Ctx, what: &str) {
    if std::env::var("YQV_TIMING").is_ok() {
        eprintln!("[C15 {} {:7.2}s] {}", ctx.profile, ctx.elapsed(), what);
    }
}

fn l_fixed_counts(ctx: &Ctx, a: usize, b: usize, c: usize) {
    ctx.extra("fixed_cases", json!({"law": a, "mul64": b, "mul1024": c}));
}

fn run(ctx: &Ctx) {
    ctx.set_rule(
        "Moduli = products of generated primes (15..61-bit primes, for which the affine reference applies, and certified \
         primes of 63..500 bits): 15..500 bits, 1..8 words, prime and composite, incl. n < 2^64 and 2^64 < n < 2^128 (both \
         implementations). Curves: Curve::from_point(3k+5,4k+5) and generated (x,y) < 2^31; Suyama-11 elements for seeds \
         2..2^16 and 32-bit seeds. Points P = mG. Checks: chain64/chain1024 (opcode lists evaluated on the integer \
         level; exhaustive for small k, every k within 64 of 2^64, 2^j, 2^j+-1, all-ones, real SmoothBase blocks, \
         generated); law (all add/double formulas: closure, agreement, reference mod q); mul64 / mul1024 (chain \
         multiplications vs double-and-add vs 128-bit implementation vs reference k P mod q). Operations that are \
         exceptional for a formula modulo a small prime factor are decided by the reference and skipped. Non-trivial = \
         k >= 2^32 or a 1024-bit scalar on a multiword modulus (for law: any pair on a multiword modulus); distinct by \
         (n, curve, multipliers, k).",
    );
    ctx.assume("native u64/u128/i128 arithmetic and bnum 0.8 + - * / % << >> are correct");
    ctx.assume("primes >= 2^62 of the moduli are certified (Pocklington) or well-known primes; exceptional events modulo them (probability < 2^-50 per case) do not occur");
    ctx.assume("for moduli without small prime factor the oracle is closure (is_valid) + agreement between independent formulas only");
    if let Err(e) = ec::self_test() {
        ctx.selfcheck_failed(&format!("oracle::ec self-test: {}", e));
        return;
    }
    let mut l = Local::new();

    // --- SmoothBase blocks (also a fixture of the generators)
    match build_blocks() {
        Ok(b) => {
            l.label_n("blocks:u64", b.0.len() as u64);
            l.label_n("blocks:1024", b.1.len() as u64);
            let _ = BLOCKS.set(b);
        }
        Err(f) => {
            ctx.violation("blocks", &f, json!({}));
        }
    }
    let (b64, b1024) = blocks().clone();
    timing(ctx, "blocks built");
    let _ = big_pool();
    timing(ctx, "prime pool built");

    // --- chains, integer level: fixed part
    for k in special_scalars().into_iter().chain(b64.iter().cloned()) {
        if ctx.fixed_case("chain64", &ChainCase { k }, &mut l, check_chain64) && k >= 1 << 32 {
            l.nontrivial_of(&("chain64", k));
        }
    }
    for k in special_scalars_1024().into_iter().chain(b1024.iter().cloned()) {
        ctx.fixed_case("chain1024", &ChainLongCase { k }, &mut l, check_chain1024);
    }
    ctx.merge(l);
    // exhaustive sweep of small k
    {
        use rayon::prelude::*;
        let top: u64 = ctx.n(1 << 21, 1 << 29);
        let chunk = 1u64 << 16;
        let nchunks = (top + chunk - 1) / chunk;
        (0..nchunks).into_par_iter().for_each(|ci| {
            let mut l = Local::new();
            let mut scratch = Local::new();
            let (lo, hi) = (ci * chunk, ((ci + 1) * chunk).min(top));
            for k in lo..hi {
                if let Err(f) = check_chain64(&ChainCase { k }, &mut scratch) {
                    ctx.violation("chain64", &f, json!({"k": k.to_string()}));
                }
            }
            l.cases(hi - lo);
            l.label_n("chain64:exhaustive-small-k", hi - lo);
            ctx.merge(l);
        });
    }
    // generated
    ctx.par_prop("chain64", 16, ctx.n(400_000, 40_000_000), || edgy64().prop_map(|k| ChainCase { k }), |c, l| {
        let r = check_chain64(c, l);
        if c.k >= 1 << 32 {
            l.nontrivial_of(&("chain64", c.k));
        }
        r
    });
    ctx.par_prop("chain64", 16, ctx.n(400_000, 40_000_000), || any::<u64>().prop_map(|k| ChainCase { k }), |c, l| {
        let r = check_chain64(c, l);
        l.nontrivial_of(&("chain64", c.k));
        r
    });
    ctx.par_prop(
        "chain1024",
        16,
        ctx.n(200_000, 20_000_000),
        || k1024_strategy().prop_map(|k| ChainLongCase { k }),
        check_chain1024,
    );

    timing(ctx, "chains done");
    // --- fixed curves: small scalars exhaustively, special scalars, blocks
    {
        use rayon::prelude::*;
        let setups = fixed_setups();
        let specials = special_scalars();
        let small_top: u64 = ctx.pick(4096, 1 << 16);
        let specials1024 = special_scalars_1024();
        let mut laws: Vec<LawCase> = vec![];
        let mut m64: Vec<Mul64Case> = vec![];
        let mut m1024: Vec<Mul1024Case> = vec![];
        for (si, (m, cs)) in setups.iter().enumerate() {
            // group law on the first multiples
            for m1 in 1..=ctx.pick(12u64, 40) {
                for m2 in 1..=ctx.pick(12u64, 40) {
                    laws.push(LawCase {
                        modulus: m.clone(),
                        curve: cs.clone(),
                        m1,
                        m2,
                    });
                }
            }
            let mk = |k: u64, base: u64| Mul64Case {
                modulus: m.clone(),
                curve: cs.clone(),
                m: base,
                k,
                ord_mult: 0,
            };
            // all small scalars (quick: on the first five setups, which have a reference)
            if si < 5 || !ctx.quick() {
                m64.extend((0..small_top).map(|k| mk(k, 1)));
            }
            m64.extend(specials.iter().map(|&k| mk(k, 1)));
            // every stage-1 block on two setups, a slice elsewhere
            let step = if si == 3 || si == 6 || !ctx.quick() { 1 } else { 16 };
            m64.extend(b64.iter().step_by(step).map(|&k| mk(k, 3)));
            let step = if ctx.quick() { 16 } else { 1 };
            for k in specials1024.iter().skip(si % step).step_by(step) {
                m1024.push(Mul1024Case {
                    modulus: m.clone(),
                    curve: cs.clone(),
                    m: 1,
                    k: *k,
                });
            }
            let step = if ctx.quick() { 24 } else { 2 };
            for k in b1024.iter().skip(si % step).step_by(step) {
                m1024.push(Mul1024Case {
                    modulus: m.clone(),
                    curve: cs.clone(),
                    m: 1,
                    k: *k,
                });
            }
        }
        // Suyama-11 seeds 2..2^16 (quick: 2..2^12) on two fixed moduli: construction + one law case each
        let top: u32 = ctx.pick(1 << 12, 1 << 16);
        let mods = [
            Modulus { factors: vec![p_u(602768606663711), p_u(957629686686973)] },
            Modulus { factors: vec![p_u(1000003), certified_prime(130, 0)] },
        ];
        for seed in 2..top {
            laws.push(LawCase {
                modulus: mods[(seed % 2) as usize].clone(),
                curve: CurveSpec::suyama(seed),
                m1: 1,
                m2: 2 + (seed as u64 % 5),
            });
        }
        if ctx.is_chk() {
            // the fixed part is seed independent: under the (slower) chk profile keep every 4th case,
            // but all scalars next to 2^64
            let near = |k: u64| k >= u64::MAX - 63;
            laws = laws.into_iter().step_by(4).collect();
            let mut i = 0usize;
            m64.retain(|c| {
                i += 1;
                near(c.k) || i % 4 == 0
            });
            m1024 = m1024.into_iter().step_by(4).collect();
        }
        l_fixed_counts(ctx, laws.len(), m64.len(), m1024.len());
        laws.par_chunks(32).for_each(|ch| {
            let mut l = Local::new();
            for c in ch {
                ctx.fixed_case("law", c, &mut l, check_law);
            }
            ctx.merge(l);
        });
        timing(ctx, "fixed law");
        m64.par_chunks(64).for_each(|ch| {
            let mut l = Local::new();
            for c in ch {
                ctx.fixed_case("mul64", c, &mut l, check_mul64);
            }
            ctx.merge(l);
        });
        timing(ctx, "fixed mul64");
        m1024.par_chunks(4).for_each(|ch| {
            let mut l = Local::new();
            for c in ch {
                ctx.fixed_case("mul1024", c, &mut l, check_mul1024);
            }
            ctx.merge(l);
        });
        timing(ctx, "fixed mul1024");
    }

    // --- generated search
    ctx.par_prop("law", 32, ctx.n(200_000, 15_000_000), law_strategy, check_law);
    timing(ctx, "generated law");
    ctx.par_prop("mul64", 32, ctx.n(60_000, 6_000_000), mul64_strategy, check_mul64);
    timing(ctx, "generated mul64");
    ctx.par_prop("mul1024", 32, ctx.n(3_000, 300_000), mul1024_strategy, check_mul1024);
    timing(ctx, "generated mul1024");

    ctx.extra("fixed_setups", json!(fixed_setups().len()));
    ctx.extra("smoothbase_b1_values", json!(B1S.to_vec()));
    for (lab, min) in [
        ("law:with-reference", 1000),
        ("law:add", 1000),
        ("law:addext", 1000),
        ("law:double", 1000),
        ("law:sub", 1000),
        ("law:ecm128-add", 200),
        ("law:ecm128-double", 200),
        ("law:ecm128-dbladd", 200),
        ("law:is_valid-negative", 200),
        ("mul64:with-reference", 1000),
        ("mul64:ecm128", 200),
        ("mul64:hits-neutral-mod-q", 5),
        ("k:within-64-of-2^64", 64),
        ("k:zero", 5),
        ("k:all-ones", 20),
        ("k:chain-of-maximal-length", 20),
        ("mul1024:with-reference", 50),
        ("mul1024:k-words=16", 50),
        ("curve:twisted(a=-1)", 1000),
        ("curve:untwisted(a=1)", 1000),
        ("ecm128:words=1", 100),
        ("ecm128:words=2", 100),
        ("chain64:exhaustive-small-k", 1000),
        ("blocks:u64", 100),
        ("blocks:1024", 100),
    ] {
        ctx.essential(lab, min);
    }
    for w in 1..=8 {
        ctx.essential(&format!("words={}", w), 100);
    }
}

fn replay(_ctx: &Ctx, check_name: &str, case: &Value) -> Result<(), Fail> {
    match check_name {
        "chain64" => replay_as::<ChainCase>(case, check_chain64),
        "chain1024" => replay_as::<ChainLongCase>(case, check_chain1024),
        "law" => replay_as::<LawCase>(case, check_law),
        "mul64" => replay_as::<Mul64Case>(case, check_mul64),
        "mul1024" => replay_as::<Mul1024Case>(case, check_mul1024),
        _ => Err(Fail::new("HARNESS|unknown-check", check_name.to_string())),
    }
}
