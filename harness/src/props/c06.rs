//! C06 — primality decisions (DESIGN.md section 2, C06).
//!
//! `isprime64` must answer exactly on all 64-bit integers: exhaustive comparison with an
//! Eratosthenes sieve on [0, 2^24] (quick) / [0, 2^32] (thorough), complete scans of the
//! neighbourhoods of the base-set thresholds 2^20 and 2^40 (and of 2^32, 2^48) against a window
//! sieve, the psi_k table and published strong pseudoprimes, the constructible families
//! (k+1)(rk+1), p, a(p-1)+1, b(p-1)+1, Chernick U_3/U_4 (all members with small k, generated
//! members beyond), and edge-biased / uniform / constructed 64-bit values against an
//! independent 7-base Miller-Rabin (`ref_isprime64`, u128 `%` arithmetic).
//!
//! `pseudoprime` (<= 512 bits) is one-sided above 64 bits: primes known by construction
//! (Pocklington, Proth, well-known primes) must be accepted; even numbers != 2 must be
//! rejected; below 2^64 it must agree with `isprime64`; composites that the *reference*
//! classifies as Carmichael (Korselt, from the known factorisation) or as strong pseudoprimes
//! to the bases {2}, {2,3}, ... must be rejected.  Generic composites are evaluated and
//! counted but acceptance would not be a violation of the statement.
//!
//! Even inputs of `isprime64` (defect F2 on the pinned tree: the 2-adic inverse of an even
//! number is searched forever) are first probed under a 10 s watchdog in a child process of
//! this binary (DESIGN 0.4); if a probe does not return, the violation
//! `isprime64|nonterminating-primitive` is recorded for the smallest such even p and even
//! inputs of isprime64 are excluded by construction for the rest of the run (counted).

use std::collections::BTreeMap;
use std::io::{BufRead, BufReader, Write};
use std::process::{Child, ChildStdin, Command, Stdio};
use std::sync::atomic::{AtomicU64, Ordering};
use std::sync::mpsc::{channel, Receiver, RecvTimeoutError};
use std::sync::{Mutex, OnceLock};
use std::time::Duration;

use proptest::prelude::*;
use rayon::prelude::*;
use serde::{Deserialize, Serialize};
use serde_json::{json, Value};

use crate::engine::{catch, guard, hash64, replay_as, Ctx, Fail, Local, PropDef};
use crate::gen::{edgy, edgy64, pick_idx};
use crate::oracle::int::{
    certified_prime, famous_primes, powmod64, prime64, ref_isprime64, ref_sieve, ref_sieve_segment, SplitMix, U1024,
};
use crate::oracle::prim::{
    chernick, chernick_from, edge_prime, korselt, proth_prime, ref_fermat, ref_sprp, sieve_window, sprp_prefix,
    sprp_prefix64, triple_family, twin_family, EXTRA_SPSP, PSI, PSI_FACTORS,
};
use yamaquasi::Uint;

pub const DEF: PropDef = PropDef {
    id: "C06",
    level: "exploration",
    chk_child: true,
    run,
    replay,
};

// ---------------------------------------------------------------------------
// Shared support (also used by C08): DESIGN 0.1 rule for panics that only the chk profile has.

/// Path of the sibling binary built with the other profile.
fn sibling_binary(profile: &str) -> Option<std::path::PathBuf> {
    let exe = std::env::current_exe().ok()?;
    let p = exe.parent()?.parent()?.join(profile).join("yqv");
    p.exists().then_some(p)
}

/// Does the opt build pass this case?  (Runs `opt/yqv <prop> --replay <tmp>`.)
fn opt_passes<C: Serialize>(prop: &str, check: &str, case: &C) -> Option<bool> {
    let bin = sibling_binary("opt")?;
    let body = json!({"property": prop, "check": check, "case": case});
    let path = std::env::temp_dir().join(format!(
        "yqv-{}-optq-{}-{:016x}.json",
        prop,
        std::process::id(),
        hash64(&body.to_string())
    ));
    std::fs::write(&path, body.to_string()).ok()?;
    let st = Command::new(bin)
        .arg(prop)
        .arg("--replay")
        .arg(&path)
        .stdout(Stdio::null())
        .stderr(Stdio::null())
        .status();
    let _ = std::fs::remove_file(&path);
    match st.ok()?.code()? {
        0 => Some(true),
        1 => Some(false),
        _ => None,
    }
}

/// DESIGN 0.1: under the chk profile a library panic (debug assertion, overflow check) on an
/// in-domain input is a violation of an *arithmetic* property only if the opt build
/// misbehaves on the same case too; otherwise it belongs to C03 (`class=debug-only`): it is
/// counted, sampled into the evidence and not reported here.
pub fn chk_filter<C: Serialize>(
    prop: &str,
    check: &str,
    c: &C,
    l: &mut Local,
    r: Result<(), Fail>,
) -> Result<(), Fail> {
    match r {
        Err(f) if cfg!(debug_assertions) && f.class.contains("|panic@") => {
            // at most 3 questions to the opt build per failure class; afterwards the class keeps its verdict
            // (the opt run evaluates the same generated cases itself and reports wrong values on its own)
            static VERDICTS: Mutex<BTreeMap<String, (u32, bool)>> = Mutex::new(BTreeMap::new());
            let key = format!("{}|{}|{}", prop, check, f.class);
            let cached = VERDICTS.lock().unwrap().get(&key).copied();
            let opt_fails = match cached {
                Some((n, any)) if any || n >= 3 => any,
                _ => {
                    let fails = opt_passes(prop, check, c) != Some(true);
                    let mut g = VERDICTS.lock().unwrap();
                    let e = g.entry(key).or_insert((0, false));
                    e.0 += 1;
                    e.1 |= fails;
                    fails
                }
            };
            if opt_fails {
                return Err(f);
            }
            l.label("chk-only-panic(C03 class=debug-only)");
            l.label(&format!("chk-only:{}", f.class));
            let (cl, wh) = (f.class.clone(), f.what.clone());
            l.sample("chk-only-panic", || json!({"class": cl, "what": wh, "case": c}));
            Ok(())
        }
        r => r,
    }
}

// ---------------------------------------------------------------------------
// Watchdog for the single primitive call isprime64(p) (DESIGN 0.4)

pub const WD_SECS: u64 = 10;
const NONTERM: &str = "isprime64|nonterminating-primitive";

struct Server {
    child: Child,
    stdin: ChildStdin,
    rx: Receiver<String>,
}

static SERVER: Mutex<Option<Server>> = Mutex::new(None);

enum Wd {
    Value(bool),
    Panic(String, String),
    Hang,
}

fn spawn_server() -> Option<Server> {
    if std::env::var("YQV_WD_THREAD").is_ok() {
        return None;
    }
    let exe = std::env::current_exe().ok()?;
    let path = std::env::temp_dir().join(format!("yqv-c06-wd-{}.json", std::process::id()));
    std::fs::write(&path, r#"{"property":"C06","check":"isprime64_server","case":{}}"#).ok()?;
    let mut child = Command::new(exe)
        .arg("C06")
        .arg("--replay")
        .arg(&path)
        .stdin(Stdio::piped())
        .stdout(Stdio::piped())
        .stderr(Stdio::null())
        .spawn()
        .ok()?;
    let stdin = child.stdin.take()?;
    let out = child.stdout.take()?;
    let (tx, rx) = channel();
    std::thread::spawn(move || {
        for line in BufReader::new(out).lines().map_while(Result::ok) {
            if tx.send(line).is_err() {
                break;
            }
        }
    });
    // Start-up (exec + kit self-test) is not part of the measured call: generous limit.
    let ready = loop {
        match rx.recv_timeout(Duration::from_secs(180)) {
            Ok(l) if l == "READY" => break true,
            Ok(_) => continue,
            Err(_) => break false,
        }
    };
    let _ = std::fs::remove_file(&path);
    if !ready {
        let _ = child.kill();
        let _ = child.wait();
        return None;
    }
    Some(Server { child, stdin, rx })
}

/// Child side: evaluate isprime64 for each integer read from stdin.
fn serve() -> Result<(), Fail> {
    #[cfg(target_os = "linux")]
    unsafe {
        libc::prctl(libc::PR_SET_PDEATHSIG, libc::SIGKILL);
    }
    let stdin = std::io::stdin();
    let mut out = std::io::stdout();
    let _ = writeln!(out, "READY");
    let _ = out.flush();
    for line in stdin.lock().lines() {
        let Ok(line) = line else { break };
        let Ok(p) = line.trim().parse::<u64>() else { continue };
        // never outlive the parent's patience by much, whatever happens to the parent
        unsafe {
            libc::alarm((WD_SECS * 3 + 30) as u32);
        }
        let r = catch(|| yamaquasi::isprime64(p));
        unsafe {
            libc::alarm(0);
        }
        let _ = match r {
            Ok(b) => writeln!(out, "R {} {}", p, b as u8),
            Err(pi) => writeln!(out, "P {} {} {}", p, pi.short_loc(), pi.msg_class().replace('\n', " ")),
        };
        let _ = out.flush();
    }
    Ok(())
}

fn wd_thread(p: u64) -> Wd {
    let (tx, rx) = channel();
    std::thread::spawn(move || {
        let r = catch(|| yamaquasi::isprime64(p));
        let _ = tx.send(r);
    });
    match rx.recv_timeout(Duration::from_secs(WD_SECS)) {
        Ok(Ok(b)) => Wd::Value(b),
        Ok(Err(pi)) => Wd::Panic(pi.short_loc(), pi.msg),
        // the helper thread is abandoned (it spins until the process exits)
        Err(_) => Wd::Hang,
    }
}

/// A hang verdict is only believed if it repeats: the second attempt uses a fresh child, three times the
/// limit, and counts observed 250 ms polls instead of clock readings (a pause of the whole machine or a
/// starved scheduler is then not mistaken for a non-terminating call).
fn wd_call(p: u64) -> Wd {
    match wd_call_once(p, WD_SECS * 4) {
        Wd::Hang => wd_call_once(p, WD_SECS * 4 * 3),
        r => r,
    }
}

/// `limit_polls`: number of 250 ms polls without an answer after which the call counts as hanging
fn wd_call_once(p: u64, limit_polls: u64) -> Wd {
    let mut g = SERVER.lock().unwrap();
    if g.is_none() {
        *g = spawn_server();
    }
    let Some(s) = g.as_mut() else {
        drop(g);
        return wd_thread(p);
    };
    if writeln!(s.stdin, "{}", p).and_then(|_| s.stdin.flush()).is_err() {
        let _ = s.child.kill();
        let _ = s.child.wait();
        *g = None;
        drop(g);
        return wd_thread(p);
    }
    let mut polls = 0u64;
    loop {
        match s.rx.recv_timeout(Duration::from_millis(250)) {
            Ok(line) => {
                let mut it = line.splitn(4, ' ');
                let (tag, q) = (it.next().unwrap_or(""), it.next().unwrap_or(""));
                if q.parse::<u64>().ok() != Some(p) {
                    continue;
                }
                match tag {
                    "R" => return Wd::Value(it.next() == Some("1")),
                    "P" => {
                        return Wd::Panic(it.next().unwrap_or("?").to_string(), it.next().unwrap_or("").to_string())
                    }
                    _ => continue,
                }
            }
            Err(RecvTimeoutError::Timeout) => {
                polls += 1;
                if polls <= limit_polls {
                    continue;
                }
                let _ = s.child.kill();
                let _ = s.child.wait();
                *g = None;
                return Wd::Hang;
            }
            Err(RecvTimeoutError::Disconnected) => {
                let _ = s.child.kill();
                let st = s.child.wait();
                *g = None;
                return Wd::Panic("process-died".into(), format!("watchdog child died: {:?}", st));
            }
        }
    }
}

fn shutdown_server() {
    if let Ok(mut g) = SERVER.lock() {
        if let Some(mut s) = g.take() {
            drop(s.stdin);
            let _ = s.child.wait();
        }
    }
}

/// isprime64 under the watchdog.
fn wd_isprime64(p: u64) -> Result<bool, Fail> {
    match wd_call(p) {
        Wd::Value(b) => Ok(b),
        Wd::Panic(loc, msg) => Err(Fail::new(
            format!("isprime64|panic@{}", loc),
            format!("isprime64({}) panicked at {}: {}", p, loc, msg),
        )),
        Wd::Hang => Err(Fail::new(
            NONTERM,
            format!(
                "isprime64({}) did not return within {} s (a returning call costs < 10 us: the test does not answer)",
                p, WD_SECS
            ),
        )),
    }
}

// State of the even inputs in this process.
const EVEN_UNPROBED: u64 = u64::MAX;
const EVEN_OK: u64 = u64::MAX - 1;
/// any other value b: even p >= b are excluded by construction (a probe did not return)
static EVEN_STATE: AtomicU64 = AtomicU64::new(EVEN_UNPROBED);
/// every even value below this bound is probed
const DENSE_PROBE: u64 = 4096;
/// values <= this bound are covered (and counted) by the exhaustive sweep of this run
static SWEEP_HI: AtomicU64 = AtomicU64::new(0);

fn even_excluded(p: u64) -> bool {
    let s = EVEN_STATE.load(Ordering::Relaxed);
    p & 1 == 0 && s < EVEN_OK && p >= s
}

/// Call the library's isprime64; None = excluded by construction (even input after F2 was detected).
fn lib_isprime64(p: u64, l: &mut Local) -> Result<Option<bool>, Fail> {
    if p & 1 == 0 {
        let s = EVEN_STATE.load(Ordering::Relaxed);
        if s == EVEN_UNPROBED {
            return wd_isprime64(p).map(Some);
        }
        if s != EVEN_OK && p >= s {
            l.label("excluded:even-input-of-isprime64(nonterminating)");
            l.excluded += 1;
            return Ok(None);
        }
    }
    guard("isprime64", || yamaquasi::isprime64(p)).map(Some)
}

// ---------------------------------------------------------------------------
// 64-bit cases

#[derive(Clone, Debug, Serialize, Deserialize)]
pub struct P64Case {
    #[serde(with = "crate::ser::u64s")]
    pub p: u64,
    #[serde(default)]
    pub origin: String,
}

fn near_threshold(p: u64) -> bool {
    [1u64 << 20, 1 << 40].iter().any(|&c| p.abs_diff(c) <= 4096)
}

/// Compare the library's answers for p with the ground truth `truth`.
fn judge(p: u64, truth: bool, origin: &str, l: &mut Local) -> Result<(), Fail> {
    // classification (from the reference only)
    l.label(&format!("origin:{}", origin));
    let tier = if p >> 20 == 0 {
        "size:<2^20(bases 2,3)"
    } else if p >> 40 == 0 {
        "size:<2^40(bases ..11)"
    } else {
        "size:>=2^40(bases ..37)"
    };
    l.label(tier);
    let mut nt = truth || near_threshold(p);
    if truth {
        l.label("class:prime");
    } else if p & 1 == 0 {
        l.label("class:even");
    } else if p > 2 {
        let r = sprp_prefix64(p);
        if r >= 1 {
            l.label(&format!("class:spsp-to-first-{}-primes", r.min(12)));
            l.label("class:spsp(2)");
            l.sample("class:spsp(2)", || json!({"p": p.to_string(), "bases": r, "origin": origin}));
            nt = true;
        } else if powmod64(2, p - 1, p) == 1 {
            l.label("class:fermat-psp(2)");
            nt = true;
        } else {
            l.label("class:odd-composite");
        }
    }
    if nt && p > SWEEP_HI.load(Ordering::Relaxed) {
        l.nontrivial_of(&("p64", p));
    }
    // the library
    let got = lib_isprime64(p, l)?;
    if let Some(g) = got {
        if g != truth {
            let class = if g { "isprime64|accepts-composite" } else { "isprime64|rejects-prime" };
            return Err(Fail::new(
                class,
                format!("isprime64({}) = {} but {} is {}", p, g, p, if truth { "prime" } else { "not prime" }),
            ));
        }
    }
    let pp = guard("pseudoprime", || yamaquasi::pseudoprime(Uint::from(p)))?;
    match got {
        Some(g) => ensure!(
            pp == g,
            "pseudoprime|disagrees-with-isprime64-below-2^64",
            "pseudoprime({}) = {} but isprime64({}) = {}",
            p,
            pp,
            p,
            g
        ),
        None => ensure!(
            pp == (p == 2),
            "pseudoprime|wrong-on-even",
            "pseudoprime({}) = {} for an even number",
            p,
            pp
        ),
    }
    Ok(())
}

pub fn check_p64(c: &P64Case, l: &mut Local) -> Result<(), Fail> {
    l.case();
    let r = judge(c.p, ref_isprime64(c.p), if c.origin.is_empty() { "replay" } else { &c.origin }, l);
    chk_filter("C06", "isprime64", c, l, r)
}

fn small_primes() -> &'static Vec<u32> {
    static S: OnceLock<Vec<u32>> = OnceLock::new();
    S.get_or_init(|| ref_sieve(200))
}

fn known_spsp() -> Vec<u64> {
    let mut v: Vec<u64> = PSI.iter().filter_map(|s| s.parse::<u64>().ok()).collect();
    v.extend_from_slice(&EXTRA_SPSP);
    v.sort();
    v.dedup();
    v
}

fn build_p64(kind: u8, e: u64, r: u64, bits: u32, mult: u64, off: u32) -> P64Case {
    let mk = |o: &str, p: u64| P64Case { p, origin: o.to_string() };
    let mut rng = SplitMix(r);
    match kind {
        0..=4 => mk("edgy", e),
        5 | 6 => mk("uniform", r),
        7 => mk("uniform-odd", r | 1),
        8 | 9 => mk("constructed-prime", prime64(bits, &mut rng)),
        10 => {
            let bits = bits.max(4);
            let b1 = 2 + (r % (bits as u64 - 3)) as u32;
            let (p, q) = (prime64(b1, &mut rng), prime64(bits - b1, &mut rng));
            mk("semiprime", p * q)
        }
        11 => {
            let p = prime64((bits / 2).max(2), &mut rng);
            mk("prime-square", p * p)
        }
        12 | 13 => {
            let pb = 8 + bits % 23;
            let p0 = (r >> (64 - pb)) | (1 << (pb - 1));
            match twin_family(p0, mult, 5000).and_then(|(p, q)| p.checked_mul(q)) {
                Some(n) => mk("family:(k+1)(rk+1)", n),
                None => mk("edgy", e),
            }
        }
        14 => {
            let pb = 6 + bits % 15;
            let p0 = (r >> (64 - pb)) | (1 << (pb - 1));
            let (a, b) = (mult, mult + 1 + (r % 5));
            match triple_family(p0, a, b, 20000).and_then(|(p, q, s)| p.checked_mul(q)?.checked_mul(s)) {
                Some(n) => mk("family:p,a(p-1)+1,b(p-1)+1", n),
                None => mk("edgy", e),
            }
        }
        15 => {
            // two close primes (difference below 2^12): Fermat-factorable semiprimes
            let p = prime64((bits / 2).max(3).min(31), &mut rng);
            let mut q = p + 2 + 2 * (r % 2048);
            while !ref_isprime64(q) {
                q += 2;
            }
            mk("close-semiprime", p * q)
        }
        16 | 17 => {
            let centres = [1u64 << 20, 1 << 40, 1 << 32, 1 << 63, 0, 1 << 16, 199, 1 << 48];
            let c = centres[(r % centres.len() as u64) as usize];
            mk("threshold-window", c.wrapping_sub(4096).wrapping_add(off as u64))
        }
        18 => {
            let p = prime64(bits.min(56).max(2), &mut rng);
            let sp = small_primes();
            let s = sp[(r % sp.len() as u64) as usize] as u64;
            mk("prime*small-prime", p * s)
        }
        _ => {
            if r % 16 == 0 {
                let v = known_spsp();
                mk("known-spsp", v[((r >> 8) % v.len() as u64) as usize])
            } else {
                // the middle tier (2^20, 2^41) is thin among uniform 64-bit values
                let b = 21 + bits % 21;
                mk("uniform-mid-tier", (r >> (64 - b)) | (1 << (b - 1)) | (off as u64 & 1))
            }
        }
    }
}

pub fn p64_strategy() -> impl Strategy<Value = P64Case> {
    (0u8..20, edgy64(), any::<u64>(), 2u32..=64, 2u64..=16, 0u32..8192)
        .prop_map(|(kind, e, r, bits, mult, off)| build_p64(kind, e, r, bits, mult, off))
}

// ---------------------------------------------------------------------------
// pseudoprime above 64 bits

#[derive(Clone, Debug, Serialize, Deserialize)]
pub struct BigCase {
    /// "prime" (one part, prime by construction), "product" (>= 2 prime parts), "even" (one part)
    pub kind: String,
    #[serde(default)]
    pub origin: String,
    #[serde(with = "crate::ser::dec_vec")]
    pub parts: Vec<U1024>,
}

fn part_is_prime(p: &U1024) -> bool {
    if p.bits() <= 64 {
        ref_isprime64(p.digits()[0])
    } else {
        // primes above 64 bits are certified where they are built; here only a sanity test
        p.bit(0) && p.bits() <= 512 && ref_sprp(p, 2) && ref_sprp(p, 3)
    }
}

fn check_big_inner(c: &BigCase, l: &mut Local) -> Result<(), Fail> {
    let bad = |t: &str| Err(Fail::new("HARNESS|bad-case", format!("{}: {:?}", t, c)));
    if c.parts.is_empty() {
        return bad("no parts");
    }
    let mut n = U1024::ONE;
    let mut bits = 0;
    for p in &c.parts {
        bits += p.bits();
        if bits > 520 {
            return bad("product too wide");
        }
        n *= *p;
    }
    if n.bits() > 512 {
        return Err(Fail::new("HARNESS|out-of-domain", "pseudoprime input wider than 512 bits"));
    }
    l.label(&format!("big:origin:{}", c.origin));
    l.label(&format!("big:words:{}", (n.bits() + 63) / 64));
    let call = || guard("pseudoprime", || yamaquasi::pseudoprime(n));
    match c.kind.as_str() {
        "prime" => {
            if c.parts.len() != 1 || !part_is_prime(&n) {
                return bad("claimed prime fails the reference tests");
            }
            l.label("big:prime");
            if n.bits() > 64 {
                l.label("big:prime>64bits");
                l.sample("big:prime>64bits", || json!({"n": n.to_string(), "origin": c.origin}));
            }
            l.nontrivial_of(&("big", n.digits()));
            let got = call()?;
            ensure!(
                got,
                "pseudoprime|rejects-prime",
                "pseudoprime({}) = false but the number is prime by construction ({})",
                n,
                c.origin
            );
        }
        "even" => {
            if c.parts.len() != 1 || n.bit(0) {
                return bad("not even");
            }
            l.label("big:even");
            let got = call()?;
            ensure!(
                got == (n == U1024::from(2u64)),
                "pseudoprime|wrong-on-even",
                "pseudoprime({}) = {} for an even number",
                n,
                got
            );
        }
        "product" => {
            if c.parts.len() < 2 || c.parts.iter().any(|p| p.bits() < 2 || !p.bit(0) || !part_is_prime(p)) {
                return bad("parts must be odd primes");
            }
            if n.bits() <= 64 {
                // belongs to the 64-bit check (exact there)
                return judge(n.digits()[0], false, &c.origin, l);
            }
            let carm = korselt(&c.parts);
            let r = sprp_prefix(&n);
            let fermat = r >= 1 || carm || ref_fermat(&n, 2);
            if fermat {
                l.nontrivial_of(&("big", n.digits()));
            }
            let got = call()?;
            if carm {
                l.label("big:carmichael");
                l.sample("big:carmichael", || json!({"n": n.to_string(), "origin": c.origin, "factors": c.parts.len()}));
                ensure!(
                    !got,
                    "pseudoprime|accepts-carmichael",
                    "pseudoprime({}) = true for a Carmichael number ({} prime factors, Korselt verified)",
                    n,
                    c.parts.len()
                );
            }
            if r >= 1 {
                l.label("big:spsp(2)");
                l.label(&format!("big:spsp-to-first-{}-primes", r));
                l.sample("big:spsp(2)", || json!({"n": n.to_string(), "origin": c.origin, "bases": r}));
                ensure!(
                    !got,
                    "pseudoprime|accepts-strong-pseudoprime",
                    "pseudoprime({}) = true for a composite that is a strong pseudoprime to the first {} prime bases",
                    n,
                    r
                );
            }
            if !carm && r == 0 {
                // not claimed by the property (one-sided above 64 bits): counted only
                l.label("big:generic-composite");
                if got {
                    l.label("big:generic-composite-accepted(not claimed by the property)");
                    l.sample("big:generic-composite-accepted", || json!({"n": n.to_string()}));
                }
            }
        }
        _ => return bad("unknown kind"),
    }
    Ok(())
}

pub fn check_big(c: &BigCase, l: &mut Local) -> Result<(), Fail> {
    l.case();
    let r = check_big_inner(c, l);
    chk_filter("C06", "pseudoprime", c, l, r)
}

const GRID: [u32; 42] = [
    65, 66, 67, 70, 80, 96, 100, 120, 127, 128, 129, 130, 150, 160, 190, 191, 192, 193, 200, 224, 250, 255, 256, 257,
    260, 300, 319, 320, 321, 350, 383, 384, 385, 400, 447, 448, 449, 480, 500, 510, 511, 512,
];
const POOL: u32 = 2;

/// Primes above 64 bits known by construction, with the name of the construction.
struct Fixtures {
    primes: Vec<(String, U1024)>,
    /// Chernick numbers with 5 and 6 prime factors (search is too slow per case)
    chernick_big: Vec<Vec<u64>>,
}

fn fixtures() -> &'static Fixtures {
    static F: OnceLock<Fixtures> = OnceLock::new();
    F.get_or_init(|| {
        let mut jobs: Vec<(u8, u32, u32, u32)> = vec![];
        for &b in GRID.iter() {
            for i in 0..POOL {
                jobs.push((0, b, i, 0));
            }
        }
        for &(e, kb) in [
            (65u32, 2u32),
            (65, 33),
            (66, 2),
            (70, 64),
            (96, 8),
            (127, 31),
            (128, 63),
            (129, 64),
            (160, 16),
            (192, 64),
            (200, 33),
            (256, 64),
            (300, 40),
            (400, 64),
            (410, 64),
        ]
        .iter()
        {
            for s in 0..2 {
                jobs.push((1, e, kb, s));
            }
        }
        for &b in [128u32, 129, 192, 193, 256, 257, 320, 321, 384, 448, 511, 512].iter() {
            for below in 0..2 {
                jobs.push((2, b, below, 0));
            }
        }
        for m in [5u32, 6] {
            for j in 0..4 {
                jobs.push((3, m, j, 0));
            }
        }
        let res: Vec<(Option<(String, U1024)>, Option<Vec<u64>>)> = jobs
            .par_iter()
            .map(|&(t, a, b, s)| {
                let t0 = std::time::Instant::now();
                let r = fixture_job(t, a, b, s);
                if std::env::var("YQV_TRACE").is_ok() {
                    eprintln!("[C06 fixture {:?} {:.2}s]", (t, a, b, s), t0.elapsed().as_secs_f64());
                }
                r
            })
            .collect();
        fn fixture_job(t: u8, a: u32, b: u32, s: u32) -> (Option<(String, U1024)>, Option<Vec<u64>>) {
            match t {
                0 => (Some(("pocklington".to_string(), certified_prime(a, b))), None),
                1 => (Some(("proth".to_string(), proth_prime(a, b, s as u64))), None),
                2 => (Some((format!("edge-{}", if b == 1 { "below-2^k" } else { "above-2^k" }), edge_prime(a, b == 1, 0))), None),
                _ => {
                    let k0 = 1u64 << (16 + 9 * b);
                    (None, chernick_from(k0, a, 60_000_000).map(|(_, f)| f))
                }
            }
        }
        let mut primes = vec![];
        let mut chernick_big = vec![];
        for (p, c) in res {
            if let Some(p) = p {
                primes.push(p);
            }
            if let Some(c) = c {
                chernick_big.push(c);
            }
        }
        for p in famous_primes() {
            primes.push(("well-known".to_string(), p));
        }
        Fixtures { primes, chernick_big }
    })
}

fn u(x: u64) -> U1024 {
    U1024::from(x)
}

fn build_big(kind: u8, i1: u16, i2: u16, r: u64, e: U1024, mult: u64, bits: u32) -> BigCase {
    let fx = fixtures();
    let mk = |k: &str, o: &str, parts: Vec<U1024>| BigCase {
        kind: k.to_string(),
        origin: o.to_string(),
        parts,
    };
    let pool_prime = |i: u16, maxbits: u32| -> (String, U1024) {
        let cand: Vec<&(String, U1024)> = fx.primes.iter().filter(|p| p.1.bits() <= maxbits).collect();
        cand[pick_idx(i, cand.len())].clone()
    };
    match kind {
        0..=4 => {
            let (o, p) = pool_prime(i1, 512);
            mk("prime", &o, vec![p])
        }
        5 => {
            let (_, p) = pool_prime(i1, 440);
            let (_, q) = pool_prime(i2, 512 - p.bits());
            mk("product", "p*q", vec![p, q])
        }
        6 => {
            let (_, p) = pool_prime(i1, 256);
            if p.bits() <= 170 && r & 1 == 1 {
                mk("product", "p^3", vec![p, p, p])
            } else {
                mk("product", "p^2", vec![p, p])
            }
        }
        7 | 8 => {
            // Chernick U_m(k), m = 3 or 4, factors below 2^64
            let m = 3 + (r & 1) as u32;
            let kb = 18 + bits % (if m == 3 { 42 } else { 41 });
            let k0 = (r >> (64 - kb)) | (1 << (kb - 1));
            match chernick_from(k0, m, 400_000) {
                Some((_, f)) => mk("product", &format!("chernick-U{}", m), f.iter().map(|&x| u(x)).collect()),
                None => match chernick_from(k0, 3, 4_000_000) {
                    Some((_, f)) => mk("product", "chernick-U3", f.iter().map(|&x| u(x)).collect()),
                    None => mk("even", "even", vec![e & !U1024::ONE]),
                },
            }
        }
        9 => {
            if fx.chernick_big.is_empty() {
                mk("even", "even", vec![e & !U1024::ONE])
            } else {
                let f = &fx.chernick_big[pick_idx(i1, fx.chernick_big.len())];
                mk("product", &format!("chernick-U{}", f.len()), f.iter().map(|&x| u(x)).collect())
            }
        }
        10 | 11 => {
            // (k+1)(rk+1) with 64-bit prime factors: 66..128-bit strong-pseudoprime candidates
            let pb = 33 + bits % 28;
            let p0 = (r >> (64 - pb)) | (1 << (pb - 1));
            match twin_family(p0, mult, 40_000) {
                Some((p, q)) => mk("product", "family:(k+1)(rk+1)", vec![u(p), u(q)]),
                None => mk("even", "even", vec![e & !U1024::ONE]),
            }
        }
        12 => {
            let pb = 23 + bits % 36;
            let p0 = (r >> (64 - pb)) | (1 << (pb - 1));
            let (a, b) = (mult, mult + 1 + (r % 5));
            match triple_family(p0, a, b, 400_000) {
                Some((p, q, s)) => mk("product", "family:p,a(p-1)+1,b(p-1)+1", vec![u(p), u(q), u(s)]),
                None => mk("even", "even", vec![e & !U1024::ONE]),
            }
        }
        13 | 14 => {
            let n = match r % 8 {
                0 => u(2),
                1 => U1024::ZERO,
                2 => {
                    let (_, p) = pool_prime(i1, 511);
                    p << 1u32
                }
                3 => U1024::ONE << (1 + (r >> 8) % 511) as u32,
                _ => e & !U1024::ONE,
            };
            mk("even", "even", vec![n])
        }
        _ => {
            let i = 11 + (r & 1) as usize;
            mk("product", "psi_12/13", PSI_FACTORS[i].iter().map(|&x| u(x)).collect())
        }
    }
}

pub fn big_strategy() -> impl Strategy<Value = BigCase> {
    (0u8..16, any::<u16>(), any::<u16>(), any::<u64>(), edgy::<16>(512), 2u64..=12, 0u32..4096)
        .prop_map(|(kind, i1, i2, r, e, mult, bits)| build_big(kind, i1, i2, r, e, mult, bits))
}

// ---------------------------------------------------------------------------
// Run

/// Probe even inputs under the watchdog, in ascending order (the first probe that does not
/// return is the smallest such even number below DENSE_PROBE).
fn probe_evens(ctx: &Ctx) {
    let mut list: Vec<u64> = (0..DENSE_PROBE).step_by(2).collect();
    for k in 12..64u32 {
        let b = 1u64 << k;
        list.extend_from_slice(&[b - 2, b, b + 2, b + (b >> 1), 6 * (b >> 2)]);
    }
    list.extend_from_slice(&[u64::MAX - 1, u64::MAX - 3, u64::MAX - 57, 1u64 << 63]);
    let mut rng = SplitMix(0xe7e2 ^ ctx.seed);
    for _ in 0..64 {
        let x = rng.next();
        list.push((x >> (x % 50)) & !1);
    }
    list.sort();
    list.dedup();
    let mut l = Local::new();
    let mut state = EVEN_OK;
    for &p in &list {
        l.label("even-probe:under-watchdog");
        let c = P64Case { p, origin: "even-probe".into() };
        match check_p64(&c, &mut l) {
            Ok(()) => {}
            Err(f) => {
                let hang = f.class == NONTERM;
                ctx.violation("isprime64", &f, serde_json::to_value(&c).unwrap());
                if hang {
                    // exclude the finding by construction for the rest of the run
                    state = p.min(DENSE_PROBE);
                    break;
                }
            }
        }
    }
    ctx.merge(l);
    EVEN_STATE.store(state, Ordering::Relaxed);
    shutdown_server();
    ctx.extra(
        "even_inputs",
        if state == EVEN_OK {
            json!({"probed_under_watchdog": list.len(), "status": "all probes returned; even inputs are part of every sweep"})
        } else {
            json!({"probed_under_watchdog": list.len(), "status": "a probe did not return",
                   "excluded_by_construction": format!("even p >= {} as inputs of isprime64", state)})
        },
    );
}

/// Exhaustive comparison with the sieve on [0, hi].
fn sweep(ctx: &Ctx, hi: u64) {
    let base = ref_sieve(70_000);
    let chunk = 1u64 << 18;
    let nchunks = (hi + chunk) / chunk;
    let found: Mutex<BTreeMap<String, (u64, Fail)>> = Mutex::new(BTreeMap::new());
    (0..nchunks).into_par_iter().for_each(|ci| {
        let lo = ci * chunk;
        let end = (lo + chunk).min(hi + 1);
        let mut flags = vec![false; (end - lo) as usize];
        let primes = ref_sieve_segment(lo, end, &base);
        for &q in &primes {
            flags[(q - lo) as usize] = true;
        }
        let mut l = Local::new();
        // fast path: plain loop; any disagreement or panic is re-examined value by value
        let fast = catch(|| {
            let mut bad = vec![];
            let mut skipped = 0u64;
            for v in lo..end {
                let t = flags[(v - lo) as usize];
                let pp = yamaquasi::pseudoprime(Uint::from(v));
                if even_excluded(v) {
                    skipped += 1;
                    if pp != t {
                        bad.push(v);
                    }
                    continue;
                }
                if yamaquasi::isprime64(v) != t || pp != t {
                    bad.push(v);
                }
            }
            (bad, skipped)
        });
        let suspects: Vec<u64> = match fast {
            Ok((bad, skipped)) => {
                l.label_n("excluded:even-input-of-isprime64(nonterminating)", skipped);
                l.excluded += skipped;
                bad
            }
            Err(_) => (lo..end).collect(),
        };
        let mut reported = 0;
        for v in suspects {
            if reported >= 16 {
                break; // ascending order: the smallest failing values of the chunk are kept
            }
            let t = flags[(v - lo) as usize];
            if t != ref_isprime64(v) {
                ctx.selfcheck_failed(&format!("oracle kit: sieve and ref_isprime64 disagree on {}", v));
                continue;
            }
            let mut tmp = Local::new();
            let c = P64Case { p: v, origin: "exhaustive".into() };
            let r = judge(v, t, "exhaustive", &mut tmp);
            if let Err(f) = chk_filter("C06", "isprime64", &c, &mut l, r) {
                reported += 1;
                let mut g = found.lock().unwrap();
                let e = g.entry(f.class.clone()).or_insert((v, f.clone()));
                if v < e.0 {
                    *e = (v, f);
                }
            }
        }
        // sampled cross-check of the two references
        for v in (lo..end).filter(|v| v % 1021 == 0) {
            if flags[(v - lo) as usize] != ref_isprime64(v) {
                ctx.selfcheck_failed(&format!("oracle kit: sieve and ref_isprime64 disagree on {}", v));
            }
        }
        let n = end - lo;
        l.cases(n);
        l.label_n("exhaustive:values", n);
        l.label_n("exhaustive:primes", primes.len() as u64);
        let near = (lo..end).filter(|&v| near_threshold(v) && !flags[(v - lo) as usize]).count() as u64;
        l.nontrivial_bulk(primes.len() as u64 + near);
        ctx.merge(l);
    });
    // the smallest failing value of each class
    for (_, (v, f)) in found.into_inner().unwrap() {
        ctx.violation(
            "isprime64",
            &f,
            serde_json::to_value(&P64Case { p: v, origin: "exhaustive".into() }).unwrap(),
        );
    }
}

/// Complete scan of [c - 2^12, c + 2^12] against the window sieve.
fn window(ctx: &Ctx, c: u64, name: &str, base: &[u32]) {
    let lo = c - 4096;
    let flags = sieve_window(lo, 8193, base);
    let mut l = Local::new();
    for (i, &t) in flags.iter().enumerate() {
        let v = lo + i as u64;
        if t != ref_isprime64(v) {
            ctx.selfcheck_failed(&format!("oracle kit: window sieve and ref_isprime64 disagree on {}", v));
            continue;
        }
        let c = P64Case { p: v, origin: format!("window:{}", name) };
        // (ground truth = window sieve, which was just checked to coincide with the replay oracle)
        ctx.fixed_case("isprime64", &c, &mut l, check_p64);
    }
    ctx.merge(l);
}

fn fixed_p64(ctx: &Ctx) {
    let mut cases: Vec<P64Case> = vec![];
    let mk = |o: &str, p: u64| P64Case { p, origin: o.to_string() };
    for (i, s) in PSI.iter().enumerate() {
        if let Ok(p) = s.parse::<u64>() {
            cases.push(mk("psi", p));
            // neighbours and the prime factors themselves
            for &f in PSI_FACTORS[i] {
                cases.push(mk("psi-factor", f));
            }
            cases.push(mk("psi-neighbour", p - 2));
            cases.push(mk("psi-neighbour", p + 2));
        }
    }
    for &p in &EXTRA_SPSP {
        cases.push(mk("known-spsp", p));
    }
    // all Chernick U_3(k) and U_4(k) below 2^64
    for k in 1..242_000u64 {
        if let Some(f) = chernick(k, 3) {
            if let Some(n) = f[0].checked_mul(f[1]).and_then(|x| x.checked_mul(f[2])) {
                cases.push(mk("family:chernick", n));
            }
        }
        if k < 4500 {
            if let Some(f) = chernick(k, 4) {
                if let Some(n) = f.iter().try_fold(1u64, |a, &x| a.checked_mul(x)) {
                    cases.push(mk("family:chernick", n));
                }
            }
        }
    }
    // (k+1)(rk+1) for every prime k+1 < 2^18 and r = 2..=10; top of the range
    let pr = ref_sieve(1 << 18);
    for &p in &pr {
        let p = p as u64;
        for r in 2..=10u64 {
            let q = r * (p - 1) + 1;
            if ref_isprime64(q) {
                cases.push(mk("family:(k+1)(rk+1)", p * q));
            }
        }
    }
    // largest members p(2p-1) below 2^64 and primes / composites at the top of the range
    let mut p = 3_037_000_499u64; // floor(sqrt(2^63))
    let mut cnt = 0;
    while cnt < 50 {
        if ref_isprime64(p) && ref_isprime64(2 * p - 1) {
            if let Some(n) = p.checked_mul(2 * p - 1) {
                cases.push(mk("family:(k+1)(rk+1)", n));
                cnt += 1;
            }
        }
        p -= 2;
    }
    for d in 0..4096u64 {
        cases.push(mk("top-of-range", u64::MAX - d));
        cases.push(mk("window:2^63", (1u64 << 63) - 2048 + d));
    }
    let locals: Vec<Local> = cases
        .par_chunks(2048)
        .map(|ch| {
            let mut l = Local::new();
            for c in ch {
                ctx.fixed_case("isprime64", c, &mut l, check_p64);
            }
            l
        })
        .collect();
    for l in locals {
        ctx.merge(l);
    }
}

const ARNAULT: &[(&str, u64, u64)] = &[
    ("770521943283756959269292011", 61, 73),
    ("722480109295156401983016669811", 61, 73),
    ("27589394425076139487486909498483", 61, 73),
    ("31987319855272034270968516489655971", 61, 73),
    ("23185970176241853720621862712977617611", 61, 73),
    ("1062153062258718176602327767106336702146971", 61, 73),
    ("22389228916230130809569345654770516198206288491", 61, 73),
    ("784528335679859389703298139054291", 61, 73),
    ("616055197783116803109680849284234719203", 61, 73),
    ("23200508615571364976579971291", 101, 109),
    ("411150449970754249958791888880131", 101, 109),
    ("388263976484054817844689836007031051", 101, 109),
    ("503518221337441057594184889860928731971", 101, 109),
    ("16994788137077012041647916704569017690734331", 101, 109),
    ("576032388437820692430434348915665479793166011", 101, 109),
    ("576599494207019628647166432176222689702644567331", 101, 109),
];

fn fixed_big(ctx: &Ctx) {
    let fx = fixtures();
    let mut cases: Vec<BigCase> = vec![];
    for (o, p) in &fx.primes {
        cases.push(BigCase { kind: "prime".into(), origin: o.clone(), parts: vec![*p] });
        if p.bits() < 512 {
            cases.push(BigCase { kind: "even".into(), origin: "2*prime".into(), parts: vec![*p << 1u32] });
        }
    }
    for f in &fx.chernick_big {
        cases.push(BigCase {
            kind: "product".into(),
            origin: format!("chernick-U{}", f.len()),
            parts: f.iter().map(|&x| u(x)).collect(),
        });
    }
    for i in 11..13 {
        cases.push(BigCase {
            kind: "product".into(),
            origin: "psi_12/13".into(),
            parts: PSI_FACTORS[i].iter().map(|&x| u(x)).collect(),
        });
    }
    // Arnault-type Carmichael numbers n = p1 (k2 (p1-1) + 1) (k3 (p1-1) + 1), p1 chosen by the Chinese remainder
    // theorem so that n is a strong pseudoprime to the first 16..18 prime bases, 280..490 bits (the family that
    // defeats implementations which lower the number of Miller-Rabin rounds for large inputs).  Only (p1, k2, k3)
    // is stored: the three parts are certified prime, Korselt's criterion and the number of fooled bases are
    // re-established by the reference tests in `check_big` before the library is asked.
    for (p1, k2, k3) in ARNAULT {
        let p1 = U1024::from_str_radix(p1, 10).expect("decimal");
        let one = U1024::ONE;
        let p2 = (p1 - one) * u(*k2) + one;
        let p3 = (p1 - one) * u(*k3) + one;
        cases.push(BigCase { kind: "product".into(), origin: "arnault".into(), parts: vec![p1, p2, p3] });
    }
    for k in 0..=512u32 {
        let n = if k == 512 { U1024::ZERO } else { U1024::ONE << k };
        if !n.bit(0) {
            cases.push(BigCase { kind: "even".into(), origin: "even".into(), parts: vec![n] });
        }
    }
    let locals: Vec<Local> = cases
        .par_chunks(16)
        .map(|ch| {
            let mut l = Local::new();
            for c in ch {
                ctx.fixed_case("pseudoprime", c, &mut l, check_big);
            }
            l
        })
        .collect();
    for l in locals {
        ctx.merge(l);
    }
}

fn trace(ctx: &Ctx, what: &str) {
    if std::env::var("YQV_TRACE").is_ok() {
        eprintln!("[C06 {} {:.1}s] {}", ctx.profile, ctx.elapsed(), what);
    }
}

fn run(ctx: &Ctx) {
    ctx.set_rule(
        "isprime64: exhaustive sweep of [0, 2^24] (quick) / [0, 2^32] (thorough) against an Eratosthenes sieve (both \
         isprime64 and pseudoprime on every value); complete windows +-2^12 around 2^20, 2^32, 2^40, 2^48 against a \
         window sieve and around 2^63, 2^64 against a 7-base Miller-Rabin on u128; psi_k table, published strong \
         pseudoprimes, every Chernick U_3/U_4 number below 2^64, every (k+1)(rk+1) with k+1 < 2^18 prime and r <= 10; \
         proptest strategy over edge-biased / uniform / constructed primes, semiprimes, prime squares, the families \
         above with generated parameters, threshold windows.  pseudoprime above 64 bits: proptest strategy over primes \
         known by construction (Pocklington pool on a 42-step bit-length grid 65..512, Proth primes k*2^e+1 with e >= 65, \
         Pocklington primes hugging 2^k from below/above, well-known primes), even values <= 512 bits, Chernick \
         Carmichael numbers U_3..U_6 with 64-bit prime factors (66..330 bits), (k+1)(rk+1) and three-factor families \
         with 64-bit prime factors (classified by a reference strong test), psi_12, psi_13, p*q, p^2, p^3.  Non-trivial \
         = prime, or composite passing a base-2 Fermat test, or value within 2^12 of 2^20 / 2^40; distinct by value \
         (sweep: counted in bulk = primes + window composites, generated values inside the swept range are not counted again).",
    );
    ctx.assume("native u64/u128 arithmetic and bnum 0.8 integer arithmetic (+ - * / %) are correct");
    ctx.assume("the 7-base set {2,325,9375,28178,450775,9780504,1795265022} is a deterministic Miller-Rabin certificate below 2^64 (published; cross-checked here against sieves on every swept value that is examined and on all windows)");
    ctx.assume("Pocklington / Proth certificates are evaluated with reference arithmetic; well-known primes are taken from the literature");
    ctx.assume("pseudoprime accepts inputs up to 512 bits only (ZmodN asserts that)");
    if let Err(e) = crate::oracle::prim::self_test() {
        ctx.selfcheck_failed(&format!("oracle kit (prim): {}", e));
        return;
    }

    trace(ctx, "self-test done");
    // 0. even inputs under the watchdog
    probe_evens(ctx);

    trace(ctx, "even probe done");
    // 1. exhaustive sweep
    let hi = ctx.n(1 << 24, 1 << 32);
    SWEEP_HI.store(hi, Ordering::Relaxed);
    sweep(ctx, hi);
    ctx.extra("exhaustive_range", json!(format!("[0, {}] (profile {})", hi, ctx.profile)));

    trace(ctx, "sweep done");
    // 2. complete threshold windows
    let base = ref_sieve((1 << 24) + 4096);
    for (c, name) in [(1u64 << 20, "2^20"), (1 << 32, "2^32"), (1 << 40, "2^40"), (1 << 48, "2^48")] {
        window(ctx, c, name, &base);
    }
    drop(base);

    trace(ctx, "windows done");
    // 3. tables and complete small families
    fixed_p64(ctx);

    trace(ctx, "fixed p64 done");
    // 4. generated 64-bit values
    ctx.par_prop("isprime64", 32, ctx.n(2_000_000, 200_000_000), p64_strategy, check_p64);

    trace(ctx, "generated p64 done");
    // 5. pseudoprime above 64 bits
    fixtures();
    trace(ctx, "fixtures done");
    fixed_big(ctx);
    trace(ctx, "fixed big done");
    ctx.par_prop("pseudoprime", 32, ctx.n(24_000, 2_400_000), big_strategy, check_big);

    for (e, min) in [
        ("exhaustive:values", 1 << 20),
        ("origin:psi", 9),
        ("origin:window:2^20", 8000),
        ("origin:window:2^40", 8000),
        ("origin:family:chernick", 100),
        ("origin:family:(k+1)(rk+1)", 1000),
        ("origin:constructed-prime", 1000),
        ("class:prime", 10_000),
        ("class:even", 10_000),
        ("class:spsp(2)", 1000),
        ("class:spsp-to-first-4-primes", 1),
        ("class:spsp-to-first-5-primes", 1),
        ("class:spsp-to-first-11-primes", 1),
        ("size:<2^40(bases ..11)", 10_000),
        ("size:>=2^40(bases ..37)", 10_000),
        ("big:prime>64bits", 500),
        ("big:even", 500),
        ("big:carmichael", 200),
        ("big:spsp(2)", 100),
        ("big:origin:proth", 20),
        ("big:origin:psi_12/13", 2),
        ("big:words:8", 100),
    ] {
        ctx.essential(e, min);
    }
    shutdown_server();
}

fn replay(_ctx: &Ctx, check_name: &str, case: &Value) -> Result<(), Fail> {
    let r = match check_name {
        "isprime64" => replay_as::<P64Case>(case, check_p64),
        "pseudoprime" => replay_as::<BigCase>(case, check_big),
        // child side of the watchdog (not a test case)
        "isprime64_server" => serve(),
        _ => Err(Fail::new("HARNESS|unknown-check", check_name.to_string())),
    };
    shutdown_server();
    r
}
