//! C12 — sieving polynomials: defining identities and per-prime root tables
//! (DESIGN.md section 2, C12).
//!
//! Checks (each with its own replayable case type):
//!   * `siqs`     — `select_siqs_factors` / `select_a` / `prepare_a` / `Poly::first` / `Poly::next`
//!                  driven exactly like `siqs::sieve_a` and `classgroup::sieve_a` (negative n, nfacs = 0),
//!                  walking the Gray-code family and checking every factor-base prime;
//!   * `mpqs`     — `sieve_for_polys` windows -> `make_poly` -> batch inversion -> `prepare_prime`;
//!   * `mpqs_run` — the (D, r, roots) triples observed at the hand-off to `Sieve::new` in a real `mpqs()` run;
//!   * `qs`       — forward/backward root tables of the classical sieve (`prepare_prime_fwd/bck`);
//!   * `qs_run`   — the root tables observed in a real `qsieve()` run, initially and after every
//!                  large-block shift (the `next_lgblock` closure).
//!
//! Oracle (oracle/qpoly.rs): identities evaluated exactly in a 1024-bit signed integer; for every
//! factor-base prime p the polynomial is reduced mod p limb by limb and evaluated at
//! `start_offset + r` for both table entries; the number of distinct entries must be the root
//! count of the quadratic (1 + Jacobi symbol, 1 for p | A, 1 for p | n); for p < 2000 on sampled
//! polynomials additionally the complete root set by trying every residue; for p = 2 the table
//! must contain every true residue.

use bnum::cast::CastFrom;
use proptest::prelude::*;
use serde::{Deserialize, Serialize};
use serde_json::Value;

use crate::engine::{catch, guard, hash64, replay_as, Ctx, Fail, Local, PropDef};
use crate::oracle::int::{
    gcd128, jacobi64, prime64, ref_isprime64, ref_isqrt, widen, Ref, SplitMix, U1024,
};
use crate::oracle::qpoly::{
    brute_roots, is_prime_24, mod_i64, mod_int, mod_uint, quad_mod, root_count, same_set, split_i256, w_from_i, w_from_u, PCtx, W,
};

use yamaquasi::arith::{I256, U256};
use yamaquasi::fbase::{self, FBase};
use yamaquasi::{classgroup, mpqs, params, qsieve, siqs};
use yamaquasi::{Int, Preferences, Uint, Verbosity};

pub const DEF: PropDef = PropDef {
    id: "C12",
    level: "exploration",
    chk_child: true,
    run,
    replay,
};

const BLOCK: u64 = 32768;
const BRUTE_BOUND: u64 = 2000;

// ---------------------------------------------------------------------------
// Shared: factor-base view with independent residues

struct FbInfo {
    ctx: Vec<PCtx>,
    /// n mod p (n signed)
    nmod: Vec<u64>,
    /// some odd prime of the base divides n
    divides_n: bool,
}

/// Independent view of the factor base for the (signed) integer n = sign * nabs:
/// stored primes are increasing primes below 2^24, every stored square root satisfies
/// r^2 = n (mod p), r < p.
fn fb_info(entry: &str, fb: &FBase, nabs: &U1024, neg: bool) -> Result<FbInfo, Fail> {
    let len = fb.primes.len();
    ensure!(
        len > 0 && fb.sqrts.len() == len && fb.divs.len() == len,
        format!("{}|fbase-shape", entry),
        "factor base of {} primes has {} roots and {} dividers",
        len,
        fb.sqrts.len(),
        fb.divs.len()
    );
    let mut ctx = Vec::with_capacity(len);
    let mut nmod = Vec::with_capacity(len);
    let mut prev = 0u64;
    let mut divides_n = false;
    for i in 0..len {
        let p = fb.primes[i] as u64;
        let r = fb.sqrts[i] as u64;
        ensure!(
            p > prev && p < (1 << 24) && is_prime_24(p),
            format!("{}|fbase-prime", entry),
            "factor base entry {} = {} is not an increasing prime below 2^24 (previous {})",
            i,
            p,
            prev
        );
        prev = p;
        let m = mod_uint(nabs, p);
        let m = if neg && m != 0 { p - m } else { m };
        ensure!(
            r < p && (r * r) % p == m,
            format!("{}|fbase-sqrt", entry),
            "FBase::new(n={}{}): stored root r={} for p={} but n mod p = {}",
            if neg { "-" } else { "" },
            nabs,
            r,
            p,
            m
        );
        if m == 0 && p > 2 {
            divides_n = true;
        }
        ctx.push(PCtx::new(p));
        nmod.push(m);
    }
    Ok(FbInfo { ctx, nmod, divides_n })
}

fn to_int(nabs: &U1024, neg: bool) -> Int {
    let v = Int::cast_from(*nabs);
    if neg {
        -v
    } else {
        v
    }
}

fn w_from_u128(d: u128) -> W {
    W::from(d as u64) + (W::from((d >> 64) as u64) << 64)
}

fn w_n(nabs: &U1024, neg: bool) -> W {
    let v = w_from_u(nabs);
    if neg {
        -v
    } else {
        v
    }
}

fn silent_prefs() -> Preferences {
    let mut p = Preferences::default();
    p.verbosity = Verbosity::Silent;
    p
}

/// Is this panic one of the library's documented parameter sanity assertions (the caller chose
/// parameters the polynomial selection cannot work with)?  Only consulted for *generated*
/// parameters; with the library's own parameter choice every panic is reported.
fn is_param_assert(msg: &str) -> bool {
    msg.contains("cannot sample")
        || msg.contains("root=")
        || msg.contains("f.target.bits() < 60")
        || msg.contains("a.a.bits() + 2 * mlog < 255")
        || msg.contains("pol.b.bits() + mlog < 255")
        || msg.contains("pol.c.abs().bits() < 255")
        || msg.contains("target.bits() < 256")
        || msg.contains("a.bits() < 255")
        || msg.contains("div >= 3")
}

// ---------------------------------------------------------------------------
// Generators shared by the checks

const MULTS: [u32; 16] = [1, 1, 1, 3, 5, 7, 11, 13, 15, 17, 21, 23, 29, 35, 43, 105];
const SMALL_ODD: [u64; 14] = [3, 5, 7, 11, 13, 17, 19, 23, 29, 31, 97, 127, 193, 199];

/// Bit sizes: uniform plus the breakpoints of the parameter functions.
fn bits_strategy(lo: u32, hi: u32) -> BoxedStrategy<u32> {
    const EDGES: [u32; 40] = [
        20, 24, 32, 33, 48, 49, 63, 64, 65, 71, 72, 80, 81, 89, 90, 96, 97, 100, 110, 119, 120, 128, 129, 140, 149,
        150, 160, 169, 170, 180, 181, 199, 200, 224, 225, 250, 256, 257, 300, 400,
    ];
    let edges: Vec<u32> = EDGES.iter().copied().filter(|&b| b >= lo && b <= hi).collect();
    if edges.is_empty() {
        return (lo..=hi).boxed();
    }
    prop_oneof![
        3 => lo..=hi,
        1 => (0..edges.len(), 0u32..3).prop_map(move |(i, d)| (edges[i] + d).saturating_sub(1).clamp(lo, hi)),
    ]
    .boxed()
}

/// Build a positive integer of exactly `bits` bits.  Returns (n, shape).
fn build_n(bits: u32, cls: u8, shape: u8, seed: u64) -> (U1024, &'static str) {
    let bits = bits.clamp(8, 1000);
    let mut rng = SplitMix(seed ^ 0x5eed_c12);
    let one = U1024::ONE;
    let force = |x: U1024| -> U1024 {
        // exactly `bits` bits, residue class 2*cls+1 mod 8
        let x = (x & ((one << bits) - one)) | (one << (bits - 1));
        (x & !U1024::from(7u64)) | U1024::from((2 * (cls as u64 % 4)) + 1)
    };
    match shape % 10 {
        4 | 5 if bits <= 124 => {
            let b1 = (bits / 2).max(4);
            let b2 = (bits - b1).max(4);
            let p = prime64(b1, &mut rng);
            let q = prime64(b2, &mut rng);
            (U1024::from(p) * U1024::from(q), "semiprime")
        }
        6 => {
            // odd prime factor <= 199 times a random odd cofactor
            let s = SMALL_ODD[(rng.next() % SMALL_ODD.len() as u64) as usize];
            let sb = 64 - s.leading_zeros();
            if bits < sb + 6 {
                return (force(rng.bits::<16>(bits)), "random");
            }
            let m = rng.bits::<16>(bits - sb) | one | (one << (bits - sb - 1));
            (U1024::from(s) * m, "smallfac")
        }
        7 => {
            let c = U1024::from(rng.next() % 64);
            if seed & 1 == 0 {
                (force((one << bits) - one - (c << 1)), "pow2-edge")
            } else {
                (force((one << (bits - 1)) + one + (c << 1)), "pow2-edge")
            }
        }
        8 if bits <= 126 => {
            let p = prime64((bits / 2).clamp(4, 63), &mut rng);
            (U1024::from(p) * U1024::from(p), "square")
        }
        _ => (force(rng.bits::<16>(bits)), "random"),
    }
}

fn semiprime(bits: u32, seed: u64) -> U1024 {
    let mut rng = SplitMix(seed ^ 0x51e7e);
    let b1 = bits / 2;
    let b2 = bits - b1;
    let p = prime64(b1.clamp(12, 64), &mut rng);
    let mut q = prime64(b2.clamp(12, 64), &mut rng);
    while q == p {
        q = prime64(b2.clamp(12, 64), &mut rng);
    }
    U1024::from(p) * U1024::from(q)
}

// ---------------------------------------------------------------------------
// SIQS (and class-group use of the same machinery)

#[derive(Clone, Debug, Serialize, Deserialize)]
pub struct SiqsCase {
    /// |n| before the multiplier; the library sees sign * k * nabs
    #[serde(with = "crate::ser::dec")]
    pub nabs: U1024,
    /// negative n: class-group use (n = D or D/4)
    pub neg: bool,
    /// multiplier; 0 = ask `select_multiplier`
    pub k: u32,
    /// requested factor-base size; None = the library's parameter function
    pub fb: Option<u32>,
    /// interval size in blocks of 32768; None = the library's parameter function
    pub blocks: Option<u32>,
    /// number of prime factors of A; None = the library's parameter function
    pub nfacs: Option<u32>,
    /// number of A values requested from `select_a` (capped by the parameter function's count)
    pub want: u32,
    /// monotone index of the first A that is walked
    pub a_first: u16,
    /// number of consecutive A values walked
    pub a_num: u32,
    /// maximal number of polynomials walked per A; 0 = the whole Gray-code family
    pub walk: u32,
    /// upper bound on checked (polynomial, prime) pairs; the checking stride is derived from it
    pub budget: u64,
    /// start_offset = 0 instead of -M/2 (only honoured when A = 1, as in classgroup::sieve_a)
    pub start0: bool,
    /// seed for derived choices (generated x values, sampled indices)
    pub pick: u64,
    pub shape: String,
}

struct ACtx<'a> {
    fbi: &'a FbInfo,
    n: W,
    type2: bool,
    start: i64,
    mm: u64,
    /// A mod p
    amod: Vec<u64>,
    /// start_offset mod p
    omod: Vec<u64>,
    a: W,
    tag: String,
}

fn pow2_neighbour(idx: usize) -> bool {
    idx < 3 || idx.is_power_of_two() || (idx + 1).is_power_of_two() || (idx > 1 && (idx - 1).is_power_of_two())
}

/// Check one polynomial of the family against the oracle.
fn check_siqs_poly(
    ac: &ACtx,
    pol: &siqs::Poly,
    idx: usize,
    brute: bool,
    pick: u64,
    l: &mut Local,
) -> Result<(), Fail> {
    let stage = if idx == 0 { "siqs.first" } else { "siqs.next" };
    let (a, b, c) = pol.verif_abc();
    let (wa, wb, wc) = (w_from_i(&a), w_from_i(&b), w_from_i(&c));
    ensure!(
        pol.verif_idx() == idx && wa == ac.a && pol.verif_is_type2() == ac.type2,
        format!("{}|poly-header", stage),
        "{}: polynomial says idx={} A={} type2={} but the walk is at idx={} A={} type2={}",
        ac.tag,
        pol.verif_idx(),
        a,
        pol.verif_is_type2(),
        idx,
        ac.a,
        ac.type2
    );
    // --- defining identity, exact
    let four = W::from(4i64);
    let two = W::from(2i64);
    let nmul = if ac.type2 { ac.n } else { ac.n * four };
    let mut rng = SplitMix(pick ^ (idx as u64).wrapping_mul(0x9e37));
    let xs = [0i64, ac.start, ac.start + ac.mm as i64 - 1, ac.start + rng.below(ac.mm.max(1)) as i64];
    for x in xs {
        let (v, y) = guard("siqs::Poly::eval", || pol.verif_eval(x))?;
        let (wv, wy, wx) = (w_from_i(&v), w_from_i(&y), W::from(x));
        // value from the stored coefficients
        let lin = if ac.type2 { wb } else { wb * two };
        let direct = (wa * wx + lin) * wx + wc;
        ensure!(
            wv == direct,
            format!("{}|eval-vs-coefficients", stage),
            "{} idx={}: eval({}) = {} but A x^2 + {}B x + C = {} (A={} B={} C={})",
            ac.tag,
            idx,
            x,
            v,
            if ac.type2 { "" } else { "2" },
            direct,
            a,
            b,
            c
        );
        // y^2 - n (type 2) / y^2 - 4n (type 1) == 4 A P(x), y = P'(x)
        let ywant = if ac.type2 { wa * wx * two + wb } else { (wa * wx + wb) * two };
        ensure!(
            wy * wy - nmul == four * wa * wv && wy == ywant,
            format!("{}|identity", stage),
            "{} idx={}: x={} y={} P(x)={}: y^2 - {}n = {} but 4 A P(x) = {} (A={} B={} C={})",
            ac.tag,
            idx,
            x,
            y,
            v,
            if ac.type2 { "" } else { "4" },
            wy * wy - nmul,
            four * wa * wv,
            a,
            b,
            c
        );
    }
    // --- root tables
    let (r1p, r2p) = pol.verif_roots();
    let len = ac.fbi.ctx.len();
    ensure!(
        r1p.len() >= len && r2p.len() >= len,
        format!("{}|table-length", stage),
        "{}: root tables have {} / {} entries for {} primes",
        ac.tag,
        r1p.len(),
        r2p.len(),
        len
    );
    let (bneg, bd) = split_i256(&b);
    let (cneg, cd) = split_i256(&c);
    let mut div_a = 0u64;
    for i in 0..len {
        let pc = &ac.fbi.ctx[i];
        let p = pc.p;
        let (r1, r2) = (r1p[i] as u64, r2p[i] as u64);
        let am = ac.amod[i];
        let bm = pc.mod_i256(bneg, &bd);
        let cm = pc.mod_i256(cneg, &cd);
        let lin = if ac.type2 { bm } else { (2 * bm) % p };
        let o = ac.omod[i];
        if p == 2 {
            // the table must contain every true residue
            for x in 0..2u64 {
                let is_root = quad_mod(am, lin, cm, (o + x) % 2, 2) == 0;
                ensure!(
                    !is_root || x == r1 || x == r2,
                    format!("{}|p=2-root-missing", stage),
                    "{} idx={}: P(start+{}) is even but the table for p=2 is ({}, {}) (A={} B={} C={} start={})",
                    ac.tag,
                    idx,
                    x,
                    r1,
                    r2,
                    a,
                    b,
                    c,
                    ac.start
                );
            }
            continue;
        }
        ensure!(
            r1 < p && r2 < p,
            format!("{}|root-range", stage),
            "{} idx={}: table entries ({}, {}) for p={} are not residues",
            ac.tag,
            idx,
            r1,
            r2,
            p
        );
        let kind = if am == 0 { "p|A" } else { "p" };
        for r in [r1, r2] {
            let v = quad_mod(am, lin, cm, (o + r) % p, p);
            ensure!(
                v == 0,
                format!("{}|root-not-zero:{}", stage, kind),
                "{} idx={}: P(start + {}) = {} mod p={} (pidx {}, table ({}, {}), A={} B={} C={} start={})",
                ac.tag,
                idx,
                r,
                v,
                p,
                i,
                r1,
                r2,
                a,
                b,
                c,
                ac.start
            );
        }
        // discriminant of the quadratic: 4n (type 1) or n (type 2)
        let disc = if ac.type2 { ac.fbi.nmod[i] } else { (4 * ac.fbi.nmod[i]) % p };
        let rho = root_count(am, lin, cm, disc, p);
        let distinct = if r1 == r2 { 1 } else { 2 };
        ensure!(
            rho == Some(distinct),
            format!("{}|root-count:{}", stage, kind),
            "{} idx={}: table ({}, {}) for p={} has {} distinct entries, the polynomial has {:?} roots (A={} B={} C={})",
            ac.tag,
            idx,
            r1,
            r2,
            p,
            distinct,
            rho,
            a,
            b,
            c
        );
        if am == 0 {
            div_a += 1;
        }
        if brute && p < BRUTE_BOUND {
            let set = brute_roots(am, lin, cm, o, p);
            ensure!(
                same_set(r1, r2, &set),
                format!("{}|root-set:{}", stage, kind),
                "{} idx={}: table ({}, {}) for p={} but the residues with P(start+x)=0 are {:?}",
                ac.tag,
                idx,
                r1,
                r2,
                p,
                set
            );
            l.label("siqs:brute-prime");
        }
    }
    l.case();
    l.label_n("siqs:prime-checks", len as u64);
    if idx >= 1 {
        l.label("siqs:idx>=1");
    }
    if div_a > 0 {
        l.label("siqs:poly-with-p|A");
    }
    Ok(())
}

pub fn check_siqs(c: &SiqsCase, l: &mut Local) -> Result<(), Fail> {
    let t0 = std::time::Instant::now();
    let r = check_siqs_inner(c, l);
    if t0.elapsed().as_secs_f64() > 1.0 && std::env::var("YQV_C12_TIMING").is_ok() {
        eprintln!("[c12 slow] {:.1}s {:?}", t0.elapsed().as_secs_f64(), c);
    }
    r
}

fn check_siqs_inner(c: &SiqsCase, l: &mut Local) -> Result<(), Fail> {
    // ---- domain
    if c.nabs.bits() < 2 || c.nabs.bits() > 420 {
        return Err(Fail::new("HARNESS|out-of-domain", "n outside 2..420 bits"));
    }
    let k = if c.neg {
        1
    } else if c.k == 0 {
        let n = c.nabs;
        guard("fbase::select_multiplier", move || fbase::select_multiplier(n))?.0
    } else {
        c.k
    };
    let nabs = c.nabs * U1024::from(k as u64);
    if nabs.bits() > 420 {
        return Err(Fail::new("HARNESS|out-of-domain", "k*n wider than 420 bits"));
    }
    let nint = to_int(&nabs, c.neg);
    let type2 = {
        // n = 1 mod 4 as a signed integer
        let m = nabs.digits()[0] & 3;
        if c.neg {
            m == 3
        } else {
            m == 1
        }
    };
    // ---- parameters
    let (t_fb, t_mm, t_nfacs, t_count) = if c.neg {
        // the discriminant classgroup() was called with: D = n if n = 1 mod 4, else 4n
        let d = if type2 { nint } else { nint << 2 };
        let (_adj, fb, mm, a_count, nfacs) = guard("classgroup::params", || classgroup::verif_c12_params(&d))?;
        (fb, mm, nfacs, a_count as usize)
    } else {
        let use_double = nabs.bits() > 256;
        guard("siqs::params", || siqs::verif_c12_params(&nabs, use_double))?
    };
    let generated = c.fb.is_some() || c.blocks.is_some() || c.nfacs.is_some();
    let fb = c.fb.unwrap_or(t_fb).max(8);
    let mm = c.blocks.map(|b| b as u64 * BLOCK).unwrap_or(t_mm as u64);
    let nfacs = c.nfacs.unwrap_or(t_nfacs) as usize;
    if nfacs == 1 || nfacs > 16 || mm == 0 || mm % BLOCK != 0 || mm > (1 << 24) {
        // nfacs <= 16: select_a indexes a u64 bit mask with 4*nfacs candidates (nfactors() reaches 17
        // only at 425 bits, beyond the 400-bit domain)
        return Err(Fail::new("HARNESS|out-of-domain", "nfacs = 1, nfacs > 16 or bad interval"));
    }
    if nfacs == 0 && nabs.bits() >= 128 {
        return Err(Fail::new("HARNESS|out-of-domain", "A = 1 needs |n| < 2^128"));
    }
    let want = (c.want.max(1) as usize).min(t_count.max(1));
    let start: i64 = if nfacs == 0 && c.start0 { 0 } else { -(mm as i64) / 2 };
    let tag0 = format!(
        "n={}{} k={} fb={} M={} nfacs={}",
        if c.neg { "-" } else { "" },
        c.nabs,
        k,
        fb,
        mm,
        nfacs
    );

    // ---- library objects
    let fbase = guard("FBase::new", || FBase::new(nint, fb))?;
    let fbi = fb_info("FBase::new", &fbase, &nabs, c.neg)?;
    let prefs = silent_prefs();
    let s = guard("siqs::SieveSIQS::new", || {
        siqs::SieveSIQS::new(nint, &fbase, fbase.bound() as u64, 0, mm as usize, &prefs)
    })?;
    // select_a samples products at random until it has `want` candidates near the target: when the
    // factor base is too short for select_siqs_factors to centre its window of 4*nfacs primes on
    // target^(1/nfacs) ("suboptimal choice of A factors") that loop need not terminate.  Such
    // combinations are outside the domain (the library's own sizes never produce them where the
    // random sampler is used).
    if nfacs > 0 {
        let half = U1024::from(mm / 2);
        let target = (if type2 { ref_isqrt(&(nabs >> 1)) } else { ref_isqrt(&(nabs << 1)) } / half).max(U1024::from(2000u64));
        let idx = fbase.primes.partition_point(|&p| U1024::from(p as u64).pow(nfacs as u32) < target);
        let pool = (1..fbase.len().min(2 * idx + 4 * nfacs)).filter(|&i| fbi.nmod[i] != 0).count();
        let suboptimal = idx + 4 * nfacs >= pool;
        if suboptimal {
            l.label("siqs:suboptimal-factor-pool");
            if nfacs >= 6 || target.bits() > 64 {
                l.label("siqs:skipped-suboptimal-pool");
                return Ok(());
            }
        }
    }
    // Polynomial selection.  With generated parameters the library's sanity assertions may
    // refuse the combination: that is a rejected case, not a violation.
    macro_rules! lib {
        ($entry:expr, $f:expr) => {
            match catch($f) {
                Ok(v) => v,
                Err(p) => {
                    if generated && is_param_assert(&p.msg) {
                        l.label("siqs:rejected-by-assertion");
                        return Ok(());
                    }
                    return Err(Fail::new(
                        format!("{}|panic@{}", $entry, p.short_loc()),
                        format!("{}: {} panicked at {}: {}", tag0, $entry, p.loc, crate::engine::truncate(&p.msg, 300)),
                    ));
                }
            }
        };
    }
    let factors = lib!("siqs::select_siqs_factors", || siqs::select_siqs_factors(
        &fbase,
        &nint,
        nfacs,
        mm as usize,
        Verbosity::Silent
    ));
    let a_ints = lib!("siqs::select_a", || siqs::select_a(&factors, want, Verbosity::Silent));
    ensure!(
        !a_ints.is_empty(),
        "siqs::select_a|no-A",
        "{}: select_a returned no leading coefficient (want {})",
        tag0,
        want
    );
    // labels of the case
    l.label(if type2 { "siqs:type2" } else { "siqs:type1" });
    l.label(&format!("siqs:n%8={}", if c.neg { 8 - (nabs.digits()[0] & 7) } else { nabs.digits()[0] & 7 } % 8));
    l.label(&format!("siqs:shape:{}", c.shape));
    l.label(if generated { "siqs:params-generated" } else { "siqs:params-table" });
    if c.neg {
        l.label("siqs:negative-n");
    }
    if nfacs == 0 {
        l.label("siqs:nfacs=0");
    }
    if k > 1 {
        l.label("siqs:multiplier>1");
    }
    if c.k == 0 && !c.neg {
        l.label("siqs:multiplier-selected");
    }
    if fbi.divides_n {
        l.label("siqs:p|n-in-base");
    }
    l.label(&format!("siqs:bits/50={}", nabs.bits() / 50));

    // ---- walk
    let first = crate::gen::pick_idx(c.a_first, a_ints.len());
    let fblen = fbi.ctx.len() as u64;
    let family: usize = if nfacs == 0 { 1 } else { 1usize << (nfacs - 1) };
    // walking is cheap (one pass over the base per step) but not free: at most 2e9 table updates
    let walk_cap = ((2_000_000_000u64 / fblen).max(64)) as usize;
    let npolys = if c.walk == 0 { family.min(walk_cap) } else { family.min(c.walk as usize) };
    let allowed = (c.budget / fblen).max(6);
    let a_avail = a_ints.len() - first;
    let a_num = if npolys <= 128 {
        // small families (nfacs <= 8): every index is checked; fewer A values if the budget is short
        (c.a_num.max(1) as usize).min(a_avail).min(((allowed as usize) / npolys).max(1))
    } else {
        // every A costs the boundary indices (about 30 polynomials) whatever the stride
        (c.a_num.max(1) as usize).min(a_avail).min(((c.budget / (30 * fblen)).max(1)) as usize)
    };
    if npolys == family && nfacs > 0 {
        l.label("siqs:whole-family");
    }
    let total = (a_num * npolys) as u64;
    let stride = ((total + allowed - 1) / allowed).max(1) as usize;
    if stride == 1 && npolys == family && nfacs > 0 {
        l.label("siqs:whole-family-every-index");
    }
    let omod: Vec<u64> = fbi.ctx.iter().map(|pc| mod_i64(start, pc.p)).collect();
    for ai in first..first + a_num {
        let a_int = a_ints[ai];
        let a = lib!("siqs::prepare_a", || siqs::prepare_a(&factors, &a_int, &fbase, start));
        // A is the product of `nfacs` distinct odd primes of the base which do not divide n
        let ps = a.verif_factor_primes();
        let mut prod = U1024::ONE;
        let mut ok = ps.len() == nfacs && a.verif_a() == a_int;
        for (j, &p) in ps.iter().enumerate() {
            prod = prod * U1024::from(p);
            let pos = fbase.primes.iter().position(|&q| q as u64 == p);
            ok &= p > 2 && !ps[..j].contains(&p) && pos.map(|i| fbi.nmod[i] != 0).unwrap_or(false);
        }
        ensure!(
            ok && prod == a_int,
            "siqs::prepare_a|factors-of-A",
            "{}: A={} but its recorded factors are {:?} (want {} distinct odd base primes not dividing n)",
            tag0,
            a_int,
            ps,
            nfacs
        );
        let ac = ACtx {
            fbi: &fbi,
            n: w_n(&nabs, c.neg),
            type2,
            start,
            mm,
            amod: fbi.ctx.iter().map(|pc| mod_uint(&a_int, pc.p)).collect(),
            omod: omod.clone(),
            a: w_from_u(&a_int),
            tag: format!("{} A={}", tag0, a_int),
        };
        let mut pol = lib!("siqs::Poly::first", || siqs::Poly::first(&s, &a));
        let phase = (hash64(&(c.pick, ai)) % stride as u64) as usize;
        for idx in 0..npolys {
            if idx > 0 {
                lib!("siqs::Poly::next", || pol.next(&s, &a));
            }
            let checked = stride == 1 || idx + 2 >= npolys || pow2_neighbour(idx) || (idx + phase) % stride == 0;
            if !checked {
                continue;
            }
            let brute = idx < 2 || idx + 1 == npolys || hash64(&(c.pick, ai, idx)) % 16 == 0;
            check_siqs_poly(&ac, &pol, idx, brute, c.pick, l)?;
            l.nontrivial_of(&(c.neg, nabs.digits(), a_int.digits(), idx, start));
        }
        l.label("siqs:A-walked");
    }
    l.sample(if c.neg { "siqs:negative-n" } else { "siqs" }, || serde_json::to_value(c).unwrap());
    Ok(())
}

pub fn siqs_strategy(maxbits: u32, budget: u64, neg_share: u32) -> impl Strategy<Value = SiqsCase> {
    (
        (bits_strategy(20, maxbits), 0u8..4, 0u8..10, any::<u64>()),
        (0u32..100, 0usize..MULTS.len(), 0u32..100),
        (0u32..10, 1u32..400, 0u32..10, 0u32..6),
        (any::<u16>(), 0u32..100, 0u32..10, any::<u64>(), any::<bool>()),
    )
        .prop_map(move |((bits, cls, shape, seed), (negp, ki, kmode), (pmode, fbx, blk, nfd), (a_first, anum, walk, pick, start0))| {
            let neg = negp < neg_share;
            // class-group discriminants start much lower than factoring inputs
            let bits = if neg { (bits * 3 / 4).max(8) } else { bits };
            let (nabs, shape) = build_n(bits, cls, if neg { shape % 8 } else { shape }, seed);
            let nabs = if neg && seed % 7 == 0 { nabs << ((seed >> 8) % 3) as u32 } else { nabs };
            let k = if neg {
                1
            } else if kmode < 45 {
                0
            } else {
                MULTS[ki]
            };
            // parameters: mostly the library's own, sometimes generated
            let (fb, blocks, nfacs) = if pmode < 7 {
                (None, None, None)
            } else {
                // generated factor-base size: a multiple (1/4 .. 4) of a size-typical value
                let typical = 16 + (bits as u64 * bits as u64 * bits as u64 / 2400) as u32;
                let fb = (typical as u64 * fbx as u64 / 100).clamp(8, 60_000) as u32;
                let blocks = match blk {
                    0..=3 => None,
                    4 => Some(1),
                    5 => Some(2),
                    6 => Some(3),
                    7 => Some(8),
                    8 => Some(16),
                    _ => Some(5),
                };
                let nf = match nfd {
                    0 => Some(-1i32),
                    1 => Some(1),
                    _ => None,
                };
                (Some(fb), blocks, nf)
            };
            // nfacs override is relative to the size-typical count and resolved here
            let nfacs = nfacs.map(|d| {
                let base = match bits {
                    0..=64 => 2,
                    65..=89 => 3,
                    90..=119 => 4,
                    120..=149 => 5,
                    150..=169 => 6,
                    170..=199 => 7,
                    _ => bits / 25,
                } as i32;
                // select_a keeps its choice of factors in a 64-bit mask over 4*nfacs candidates
                (base + d).clamp(2, 16) as u32
            });
            let nfacs = if neg && bits <= 40 && seed % 3 != 0 { Some(0) } else { nfacs };
            let want = if anum < 70 { 40 } else { 200 };
            let a_num = match anum % 10 {
                0..=5 => 1 + anum % 4,
                6 | 7 => 8,
                _ => 40,
            };
            let walk = match walk {
                0..=5 => 0, // whole family (bounded by the budget through the stride)
                6 | 7 => 600,
                _ => 130,
            };
            // whole families beyond 2^12 polynomials only for a single A
            let a_num = if bits >= 300 { 1 } else { a_num };
            SiqsCase {
                nabs,
                neg,
                k,
                fb,
                blocks,
                nfacs,
                want,
                a_first: if anum % 3 == 0 { 0 } else { a_first },
                a_num,
                walk,
                budget,
                start0,
                pick,
                shape: shape.to_string(),
            }
        })
}

// ---------------------------------------------------------------------------
// MPQS

#[derive(Clone, Debug, Serialize, Deserialize)]
pub struct MpqsCase {
    #[serde(with = "crate::ser::dec")]
    pub n: U1024,
    /// multiplier; 0 = ask `select_multiplier`
    pub k: u32,
    pub fb: Option<u32>,
    pub blocks: Option<u32>,
    /// 0: a whole `process_poly_block` window; 1: tiny sub-window; 2: composite pseudo-squares D
    pub kind: u8,
    /// window number (as `blkno` in mpqs())
    pub blk: u32,
    pub sub_off: u32,
    pub width: u32,
    pub max_polys: u32,
    pub pick: u64,
    pub shape: String,
}

struct MpqsSetup {
    n: U1024,
    k: u32,
    fb: u32,
    mm: u64,
    d_target: u128,
    polybase: u128,
    polystride: u128,
}

/// Parameters as computed at the top of `mpqs()` (re-derived: generator side only).
fn mpqs_setup(n0: &U1024, k: u32, fb: Option<u32>, blocks: Option<u32>) -> Result<MpqsSetup, Fail> {
    let k = if k == 0 {
        let n = *n0;
        guard("fbase::select_multiplier", move || fbase::select_multiplier(n))?.0
    } else {
        k
    };
    let n = *n0 * U1024::from(k as u64);
    let use_double = n.bits() > 224;
    let t_fb = guard("params::mpqs_fb_size", || params::mpqs_fb_size(n0.bits(), use_double))?;
    let t_mm = guard("mpqs::interval_size", || mpqs::verif_c12_interval_size(&n))? as u64;
    let fb = fb.unwrap_or(t_fb).max(8);
    let mm = blocks.map(|b| b as u64 * BLOCK).unwrap_or(t_mm);
    let half = U1024::from(mm / 2);
    let a_target = if n.digits()[0] % 4 == 1 { ref_isqrt(&(n >> 1)) / half } else { ref_isqrt(&(n << 1)) / half };
    let d_target = ref_isqrt(&a_target).max(U1024::from(3u64));
    if d_target.bits() >= 120 {
        return Err(Fail::new("HARNESS|out-of-domain", "D target too wide"));
    }
    let dbits = d_target.bits() as u128;
    let polystride: u128 = match n.bits() {
        0..=32 => 200,
        33..=256 => 50 * 20 / 7 * dbits,
        _ => 200 * 20 / 7 * dbits,
    };
    let d_target = d_target.digits()[0] as u128 | ((d_target.digits()[1] as u128) << 64);
    let mut polybase = d_target;
    if polybase >= 20 {
        polybase -= (polybase / 10).min(polystride);
    }
    Ok(MpqsSetup { n, k, fb, mm, d_target, polybase, polystride })
}

/// Check one MPQS polynomial and its root tables.
#[allow(clippy::too_many_arguments)]
fn check_mpqs_poly(
    entry: &str,
    tag: &str,
    fbi: &FbInfo,
    n: &U1024,
    pol: &mpqs::Poly,
    d: u128,
    start: i64,
    mm: u64,
    r1p: &[u32],
    r2p: &[u32],
    brute: bool,
    pick: u64,
    l: &mut Local,
) -> Result<(), Fail> {
    let wn = w_from_u(n);
    let wd = w_from_u128(d);
    let wa = w_from_u(&pol.a);
    let wb = w_from_u(&pol.b);
    let mod4_1 = n.digits()[0] % 4 == 1;
    ensure!(
        wa == wd * wd && pol.d == d,
        format!("{}|A-not-D^2", entry),
        "{}: D={} but A={} d={}",
        tag,
        d,
        pol.a,
        pol.d
    );
    let (c_priv, _bb, _dinv) = pol.verif_private();
    let four = W::from(4i64);
    let two = W::from(2i64);
    let mut rng = SplitMix(pick ^ d as u64);
    let xs = [0i64, start, start + mm as i64 - 1, start + rng.below(mm.max(1)) as i64];
    let nref: Ref = widen(n);
    let mut c0 = I256::ZERO;
    for x in xs {
        let (v, y) = guard("mpqs::Poly::eval", || pol.eval(x))?;
        if x == 0 {
            c0 = v;
        }
        let (wv, wx) = (w_from_i(&v), W::from(x));
        // exact: n = 1 mod 4: (2Ax+B)^2 - n = 4A P(x); otherwise (Ax + B/2)^2 - n = A P(x)
        let ok = if mod4_1 {
            let t = wa * wx * two + wb;
            t * t - wn == four * wa * wv
        } else {
            let t = wa * wx + wb / two;
            (wb % two).is_zero() && t * t - wn == wa * wv
        };
        ensure!(
            ok,
            format!("{}|identity", entry),
            "{}: D={} x={}: P(x)={} does not satisfy the defining identity (A={} B={} n mod 4 = {})",
            tag,
            d,
            x,
            v,
            pol.a,
            pol.b,
            n.digits()[0] % 4
        );
        // the square root handed to the relation: y^2 = P(x) (mod n)
        let yr: Ref = widen(&y);
        let lhs = (yr * yr) % nref;
        let vabs: Ref = widen(&U256::cast_from(v.unsigned_abs()));
        let vm = vabs % nref;
        let rhs = if v.is_negative() && !vm.is_zero() { nref - vm } else { vm };
        ensure!(
            lhs == rhs,
            format!("{}|sqrt-identity", entry),
            "{}: D={} x={}: y={} but y^2 mod n = {} and P(x) mod n = {}",
            tag,
            d,
            x,
            y,
            lhs,
            rhs
        );
    }
    ensure!(
        c0 == c_priv,
        format!("{}|eval-vs-coefficients", entry),
        "{}: D={}: eval(0) = {} but c = {}",
        tag,
        d,
        c0,
        c_priv
    );
    // --- roots
    let len = fbi.ctx.len();
    ensure!(
        r1p.len() == len && r2p.len() == len,
        format!("{}|table-length", entry),
        "{}: root tables have {} / {} entries for {} primes",
        tag,
        r1p.len(),
        r2p.len(),
        len
    );
    let (cneg, cd) = split_i256(&c0);
    let bd = *pol.b.digits();
    let mut d_in_base = false;
    for i in 0..len {
        let pc = &fbi.ctx[i];
        let p = pc.p;
        let (r1, r2) = (r1p[i] as u64, r2p[i] as u64);
        let dm = (d % p as u128) as u64;
        let am = (dm * dm) % p;
        let bm = pc.mod4(&bd);
        let cm = pc.mod_i256(cneg, &cd);
        let o = mod_i64(start, p);
        if p == 2 {
            for x in 0..2u64 {
                let is_root = quad_mod(am, bm, cm, (o + x) % 2, 2) == 0;
                ensure!(
                    !is_root || x == r1 || x == r2,
                    format!("{}|p=2-root-missing", entry),
                    "{}: D={}: P(start+{}) is even but the table for p=2 is ({}, {})",
                    tag,
                    d,
                    x,
                    r1,
                    r2
                );
            }
            continue;
        }
        let kind = if am == 0 { "p|D" } else { "p" };
        ensure!(
            r1 < p && r2 < p,
            format!("{}|root-range:{}", entry, kind),
            "{}: D={}: table entries ({}, {}) for p={} are not residues",
            tag,
            d,
            r1,
            r2,
            p
        );
        for r in [r1, r2] {
            let v = quad_mod(am, bm, cm, (o + r) % p, p);
            ensure!(
                v == 0,
                format!("{}|root-not-zero:{}", entry, kind),
                "{}: D={}: P(start + {}) = {} mod p={} (pidx {}, table ({}, {}), A={} B={} C={} start={})",
                tag,
                d,
                r,
                v,
                p,
                i,
                r1,
                r2,
                pol.a,
                pol.b,
                c0,
                start
            );
        }
        let disc = if mod4_1 { fbi.nmod[i] } else { (4 * fbi.nmod[i]) % p };
        let rho = root_count(am, bm, cm, disc, p);
        let distinct = if r1 == r2 { 1 } else { 2 };
        ensure!(
            rho == Some(distinct),
            format!("{}|root-count:{}", entry, kind),
            "{}: D={}: table ({}, {}) for p={} has {} distinct entries, the polynomial has {:?} roots",
            tag,
            d,
            r1,
            r2,
            p,
            distinct,
            rho
        );
        if am == 0 {
            d_in_base = true;
            if !c0.is_negative() {
                l.label("mpqs:p|D-and-C>=0");
            }
        }
        if brute && p < BRUTE_BOUND {
            let set = brute_roots(am, bm, cm, o, p);
            ensure!(
                same_set(r1, r2, &set),
                format!("{}|root-set:{}", entry, kind),
                "{}: D={}: table ({}, {}) for p={} but the residues with P(start+x)=0 are {:?}",
                tag,
                d,
                r1,
                r2,
                p,
                set
            );
        }
    }
    l.case();
    l.label_n("mpqs:prime-checks", len as u64);
    if d_in_base {
        l.label("mpqs:D-shares-prime-with-base");
    }
    if mod4_1 {
        l.label("mpqs:n%4=1");
    } else {
        l.label("mpqs:n%4=3");
    }
    Ok(())
}

/// (D, r) pairs as returned by `sieve_for_polys`: D = 3 mod 4 inside the window, coprime to n,
/// r^2 = n (mod D).
fn check_dr(tag: &str, n: &U1024, bmin: u128, width: usize, drs: &[(u128, Uint)]) -> Result<(), Fail> {
    for (d, r) in drs {
        let wd = w_from_u128(*d);
        let wr = w_from_u(r);
        let wn = w_from_u(n);
        let g = {
            let nm = wn % wd;
            let nm = nm.to_bits().digits()[0] as u128 | ((nm.to_bits().digits()[1] as u128) << 64);
            gcd128(nm, *d)
        };
        ensure!(
            *d >= bmin && *d < bmin + width as u128 && d % 4 == 3 && g == 1 && (wr * wr - wn) % wd == W::ZERO && wr < wd,
            "mpqs::sieve_for_polys|bad-D",
            "{}: window [{}, +{}): D={} r={} (D mod 4 = {}, gcd(D,n) = {}, r^2-n mod D = {})",
            tag,
            bmin,
            width,
            d,
            r,
            d % 4,
            g,
            (wr * wr - wn) % wd
        );
    }
    Ok(())
}

pub fn check_mpqs(c: &MpqsCase, l: &mut Local) -> Result<(), Fail> {
    if c.n.bits() < 18 || c.n.bits() > 420 {
        return Err(Fail::new("HARNESS|out-of-domain", "n outside 18..420 bits"));
    }
    let su = mpqs_setup(&c.n, c.k, c.fb, c.blocks)?;
    if su.n.bits() > 440 {
        return Err(Fail::new("HARNESS|out-of-domain", "k*n too wide"));
    }
    let n = su.n;
    let tag = format!("n={} k={} fb={} M={}", c.n, su.k, su.fb, su.mm);
    // ---- the window
    let base = su.polybase + c.blk as u128 * su.polystride;
    let (bmin, width): (u128, usize) = match c.kind {
        0 => (base, su.polystride as usize),
        1 => (base + (c.sub_off as u128 % su.polystride), c.width.clamp(1, 64) as usize),
        _ => (0, 0),
    };
    let mut drs: Vec<(u128, Uint)> = vec![];
    let mut composite = false;
    if c.kind <= 1 {
        // D^2 < n is the documented precondition of make_poly
        let dmax = U1024::from_digits({
            let mut dd = [0u64; 16];
            let t = bmin + width as u128;
            dd[0] = t as u64;
            dd[1] = (t >> 64) as u64;
            dd
        });
        if dmax * dmax >= n {
            l.label("mpqs:skipped-D^2>=n");
            return Ok(());
        }
        drs = guard("mpqs::sieve_for_polys", || mpqs::sieve_for_polys(&n, bmin, width))?;
        check_dr(&tag, &n, bmin, width, &drs)?;
    } else {
        // composite pseudo-squares D = q (2q - 1), q = 3 mod 4: accepted by sieve_for_polys iff
        // n^((D+1)/4) happens to be a square root of n mod D
        let lo = su.polybase.max(211 * 421);
        let hi = (2 * su.d_target).max(lo + lo / 2);
        let q_lo = (crate::oracle::int::isqrt_u128(lo / 2) + 1) as u64;
        let q_hi = crate::oracle::int::isqrt_u128(hi / 2) as u64;
        if q_hi <= q_lo + 8 || q_hi >= (1 << 62) {
            l.label("mpqs:no-composite-range");
            return Ok(());
        }
        let mut rng = SplitMix(c.pick);
        let mut q = (q_lo + rng.below(q_hi - q_lo)) | 3;
        let mut tries = 0;
        while q < q_hi && tries < 4000 && drs.len() < 3 {
            tries += 1;
            if ref_isprime64(q) && ref_isprime64(2 * q - 1) {
                let d = q as u128 * (2 * q as u128 - 1);
                let dd = U1024::from(q) * U1024::from(2 * q - 1);
                if dd * dd < n {
                    let got = guard("mpqs::sieve_for_polys", || mpqs::sieve_for_polys(&n, d, 1))?;
                    check_dr(&tag, &n, d, 1, &got)?;
                    drs.extend(got);
                }
            }
            q += 4;
        }
        if drs.is_empty() {
            l.label("mpqs:no-composite-found");
            return Ok(());
        }
        composite = true;
    }
    if drs.is_empty() {
        l.label("mpqs:empty-window");
        return Ok(());
    }
    if drs.len() > c.max_polys.max(1) as usize {
        // keep a contiguous run (batch inversion works on chunks of 16 consecutive D)
        let off = (c.pick % (drs.len() - c.max_polys.max(1) as usize + 1) as u64) as usize;
        drs = drs[off..off + c.max_polys.max(1) as usize].to_vec();
    }
    // ---- library: factor base, polynomials, roots
    let nint = to_int(&n, false);
    let fbase = guard("FBase::new", || FBase::new(nint, su.fb))?;
    let fbi = fb_info("FBase::new", &fbase, &n, false)?;
    let (start, polys) = guard("mpqs::make_poly+prepare_prime", || {
        mpqs::verif_c12_poly_roots(&n, &fbase, &drs, su.mm as i64)
    })?;
    ensure!(
        start == -(su.mm as i64) / 2 && polys.len() == drs.len(),
        "mpqs|setup",
        "{}: start offset {} for interval {}, {} polynomials for {} D values",
        tag,
        start,
        su.mm,
        polys.len(),
        drs.len()
    );
    for (j, (pol, r1, r2)) in polys.iter().enumerate() {
        let d = drs[j].0;
        let brute = j < 2 || hash64(&(c.pick, j)) % 4 == 0;
        check_mpqs_poly("mpqs", &tag, &fbi, &n, pol, d, start, su.mm, r1, r2, brute, c.pick, l)?;
        l.nontrivial_of(&("mpqs", n.digits(), d));
        if composite {
            l.label("mpqs:D-composite");
        } else if d < fbase.bound() as u128 {
            l.label("mpqs:D-below-base-bound");
        }
    }
    l.label(&format!("mpqs:kind={}", c.kind));
    l.label(&format!("mpqs:shape:{}", c.shape));
    l.label(&format!("mpqs:bits/50={}", n.bits() / 50));
    if fbi.divides_n {
        l.label("mpqs:p|n-in-base");
    }
    if su.k > 1 {
        l.label("mpqs:multiplier>1");
    }
    l.sample(if composite { "mpqs:D-composite" } else { "mpqs" }, || serde_json::to_value(c).unwrap());
    Ok(())
}

pub fn mpqs_strategy(maxbits: u32) -> impl Strategy<Value = MpqsCase> {
    (
        (bits_strategy(20, maxbits), 0u8..4, 0u8..10, any::<u64>()),
        (0usize..MULTS.len(), 0u32..100, 0u32..10, 1u32..400, 0u32..10),
        (0u32..10, 0u32..4, any::<u32>(), 1u32..64, any::<u64>()),
    )
        .prop_map(|((bits, cls, shape, seed), (ki, kmode, pmode, fbx, blk), (kind, blkno, sub_off, width, pick))| {
            // small inputs: no prime factor inside the first window of D values (the library prints a
            // warning for each of them)
            let (n, shape) = build_n(bits, cls, if bits <= 64 { 4 } else { shape }, seed);
            let k = if bits < 72 {
                1
            } else if kmode < 40 {
                0
            } else {
                MULTS[ki]
            };
            let (fb, blocks) = if pmode < 7 {
                (None, None)
            } else {
                let typical = 16 + (bits as u64 * bits as u64 * bits as u64 / 2400) as u32;
                let fb = (typical as u64 * fbx as u64 / 100).clamp(8, 60_000) as u32;
                let blocks = match blk {
                    0..=4 => None,
                    5 => Some(1),
                    6 => Some(2),
                    7 => Some(4),
                    8 => Some(16),
                    _ => Some(3),
                };
                (Some(fb), blocks)
            };
            let kind = match kind {
                0..=4 => 0,
                5..=7 => 1,
                _ => 2,
            };
            MpqsCase {
                n,
                k,
                fb,
                blocks,
                kind,
                blk: blkno,
                sub_off,
                width,
                max_polys: if bits > 200 { 6 } else { 40 },
                pick,
                shape: shape.to_string(),
            }
        })
}

/// Polynomials observed at the hand-off to the sieve inside a real `mpqs()` run.
#[derive(Clone, Debug, Serialize, Deserialize)]
pub struct MpqsRunCase {
    #[serde(with = "crate::ser::dec")]
    pub n: U1024,
    pub k: u32,
    pub cap: u32,
    pub pick: u64,
}

/// A panic inside a whole-algorithm run (relation store, cofactor assertions, linear algebra, sieve)
/// is not decided here: the tables observed before it are still checked, and the polynomial code
/// itself is exercised under `guard` by the direct checks `mpqs` and `qs` in both profiles.
fn run_panic(entry: &str, _tag: &str, _p: &crate::engine::PanicInfo, l: &mut Local) {
    l.label(&format!("{}:panic-ignored", entry));
}

pub fn check_mpqs_run(c: &MpqsRunCase, l: &mut Local) -> Result<(), Fail> {
    if c.n.bits() < 20 || c.n.bits() > 130 || c.k == 0 {
        return Err(Fail::new("HARNESS|out-of-domain", "mpqs_run wants 20..130 bits and an explicit multiplier"));
    }
    let su = mpqs_setup(&c.n, c.k, None, None)?;
    let n = su.n;
    let tag = format!("mpqs() n={} k={}", c.n, c.k);
    let mut prefs = silent_prefs();
    // stop after the first block of polynomials, before the linear algebra
    prefs.should_abort = Some(Box::new(|| true));
    mpqs::verif_poly_log_start(c.cap.clamp(1, 256) as usize);
    let n0 = c.n;
    let k = c.k;
    let r = catch(|| mpqs::mpqs(n0, k, &prefs, None));
    let log = mpqs::verif_poly_log_take();
    if let Err(p) = r {
        run_panic("mpqs_run", &tag, &p, l);
    }
    if log.is_empty() {
        l.label("mpqs_run:nothing-observed");
        return Ok(());
    }
    let nint = to_int(&n, false);
    let fbase = guard("FBase::new", || FBase::new(nint, su.fb))?;
    let fbi = fb_info("FBase::new", &fbase, &n, false)?;
    for (j, (d, r, start, nblocks, r1, r2)) in log.iter().enumerate() {
        ensure!(
            *start == -(su.mm as i64) / 2 && *nblocks as u64 * BLOCK == su.mm,
            "mpqs::mpqs|interval",
            "{}: polynomial D={} sieved from {} over {} blocks, expected interval {}",
            tag,
            d,
            start,
            nblocks,
            su.mm
        );
        check_dr(&tag, &n, *d, 1, &[(*d, *r)])?;
        let pol = guard("mpqs::make_poly", || mpqs::make_poly(&n, *d, r))?;
        let brute = j < 2 || hash64(&(c.pick, j)) % 8 == 0;
        check_mpqs_poly("mpqs::mpqs", &tag, &fbi, &n, &pol, *d, *start, su.mm, r1, r2, brute, c.pick, l)?;
        l.nontrivial_of(&("mpqs_run", n.digits(), *d));
        l.label("mpqs_run:poly");
    }
    l.sample("mpqs_run", || serde_json::to_value(c).unwrap());
    Ok(())
}

pub fn mpqs_run_strategy() -> impl Strategy<Value = MpqsRunCase> {
    (24u32..=112, any::<u64>(), 0usize..MULTS.len(), any::<u64>()).prop_map(|(bits, seed, ki, pick)| MpqsRunCase {
        n: semiprime(bits, seed),
        // small inputs keep k = 1: a multiplier would put its prime factors into the first window of D
        k: if bits < 72 { 1 } else { MULTS[ki] },
        cap: 48,
        pick,
    })
}

// ---------------------------------------------------------------------------
// Classical quadratic sieve

#[derive(Clone, Debug, Serialize, Deserialize)]
pub struct QsCase {
    #[serde(with = "crate::ser::dec")]
    pub n: U1024,
    /// multiplier; 0 = ask `select_multiplier`
    pub k: u32,
    pub fb: Option<u32>,
    pub use_double: Option<bool>,
    pub pick: u64,
    pub shape: String,
}

struct QsPoly {
    /// R mod p is computed per prime from this
    r: U1024,
    /// 2 in "only odds" mode, else 1
    m: u64,
}

impl QsPoly {
    /// value of the polynomial sieved at absolute position t, modulo p
    fn val(&self, rm: u64, nm: u64, t: u64, bck: bool, p: u64) -> u64 {
        // forward x = m t, backward x = -m (t + 1)
        let mt = (self.m % p) * (t % p) % p;
        let y = if !bck { (rm + mt) % p } else { (rm + 2 * p - mt - self.m % p) % p };
        (y * y + p - nm) % p
    }
}

/// Check one pair of root tables of the classical sieve: positions `off + r`.
#[allow(clippy::too_many_arguments)]
fn check_qs_tables(
    entry: &str,
    tag: &str,
    fbi: &FbInfo,
    qp: &QsPoly,
    bck: bool,
    off: i64,
    r1p: &[u32],
    r2p: &[u32],
    brute: bool,
    l: &mut Local,
) -> Result<(), Fail> {
    let len = fbi.ctx.len();
    let dir = if bck { "bck" } else { "fwd" };
    ensure!(
        r1p.len() == len && r2p.len() == len,
        format!("{}|table-length", entry),
        "{}: {} tables have {} / {} entries for {} primes",
        tag,
        dir,
        r1p.len(),
        r2p.len(),
        len
    );
    for i in 0..len {
        let p = fbi.ctx[i].p;
        let (r1, r2) = (r1p[i] as u64, r2p[i] as u64);
        let rm = mod_uint(&qp.r, p);
        let nm = fbi.nmod[i];
        let o = mod_i64(off, p);
        if p == 2 {
            for x in 0..2u64 {
                let is_root = qp.val(rm, nm, o + x, bck, 2) == 0;
                ensure!(
                    !is_root || x == r1 || x == r2,
                    format!("{}|{}|p=2-root-missing", entry, dir),
                    "{}: offset {}: position {} has an even value but the table for p=2 is ({}, {})",
                    tag,
                    off,
                    x,
                    r1,
                    r2
                );
            }
            continue;
        }
        ensure!(
            r1 < p && r2 < p,
            format!("{}|{}|root-range", entry, dir),
            "{}: offset {}: table entries ({}, {}) for p={} are not residues",
            tag,
            off,
            r1,
            r2,
            p
        );
        for r in [r1, r2] {
            let v = qp.val(rm, nm, o + r, bck, p);
            ensure!(
                v == 0,
                format!("{}|{}|root-not-zero", entry, dir),
                "{}: offset {}: value at position {} is {} mod p={} (pidx {}, table ({}, {}), R={} step {})",
                tag,
                off,
                r,
                v,
                p,
                i,
                r1,
                r2,
                qp.r,
                qp.m
            );
        }
        let rho = (1 + jacobi64(nm, p)) as u64;
        let distinct = if r1 == r2 { 1 } else { 2 };
        ensure!(
            rho == distinct,
            format!("{}|{}|root-count", entry, dir),
            "{}: offset {}: table ({}, {}) for p={} has {} distinct entries, the polynomial has {} roots",
            tag,
            off,
            r1,
            r2,
            p,
            distinct,
            rho
        );
        if brute && p < BRUTE_BOUND {
            let set: Vec<u64> = (0..p).filter(|&x| qp.val(rm, nm, o + x, bck, p) == 0).collect();
            ensure!(
                same_set(r1, r2, &set),
                format!("{}|{}|root-set", entry, dir),
                "{}: offset {}: table ({}, {}) for p={} but the positions with value 0 are {:?}",
                tag,
                off,
                r1,
                r2,
                p,
                set
            );
        }
    }
    l.case();
    l.label_n("qs:prime-checks", len as u64);
    Ok(())
}

pub fn check_qs(c: &QsCase, l: &mut Local) -> Result<(), Fail> {
    if c.n.bits() < 18 || c.n.bits() > 400 {
        return Err(Fail::new("HARNESS|out-of-domain", "n outside 18..400 bits"));
    }
    let k = if c.k == 0 {
        let n = c.n;
        guard("fbase::select_multiplier", move || fbase::select_multiplier(n))?.0
    } else {
        c.k
    };
    let n = c.n * U1024::from(k as u64);
    if n.bits() > 400 {
        // qsieve() refuses these
        l.label("qs:skipped>400bits");
        return Ok(());
    }
    let use_double = c.use_double.unwrap_or(n.bits() > 200);
    let t_fb = guard("params::qs_fb_size", || params::qs_fb_size(c.n.bits(), use_double))?;
    let fb = c.fb.unwrap_or(t_fb).max(8);
    let tag = format!("n={} k={} fb={}", c.n, k, fb);
    let nint = to_int(&n, false);
    let fbase = guard("FBase::new", || FBase::new(nint, fb))?;
    let fbi = fb_info("FBase::new", &fbase, &n, false)?;
    let qs = guard("qsieve::SieveQS::new", || qsieve::SieveQS::new(n, &fbase, fbase.bound() as u64, use_double))?;
    let (r, r2n, only_odds) = qs.verif_poly_consts();
    // the polynomial is (R + x)^2 - n = x^2 + 2 R x + (R^2 - n): the stored constant must be exact
    let wr = w_from_i(&r);
    ensure!(
        w_from_i(&r2n) == wr * wr - w_from_u(&n) && !r.is_negative(),
        "qsieve::SieveQS::new|constant",
        "{}: R={} but stored R^2 - n = {}",
        tag,
        r,
        r2n
    );
    // only odd x + R are used: positions are x = 2t, and R must be odd
    ensure!(
        !only_odds || (r.bit(0) && n.digits()[0] % 2 == 1),
        "qsieve::SieveQS::new|only-odds",
        "{}: only_odds with R={}",
        tag,
        r
    );
    let qp = QsPoly { r: U1024::cast_from(r), m: if only_odds { 2 } else { 1 } };
    let (mut f1, mut f2, mut b1, mut b2) = (vec![], vec![], vec![], vec![]);
    for pidx in 0..fbase.len() {
        let (x1, x2) = guard("qsieve::prepare_prime_fwd", || qs.verif_roots_fwd(pidx))?;
        f1.push(x1);
        f2.push(x2);
        let (y1, y2) = guard("qsieve::prepare_prime_bck", || qs.verif_roots_bck(pidx))?;
        b1.push(y1);
        b2.push(y2);
    }
    check_qs_tables("qsieve::prepare_prime", &tag, &fbi, &qp, false, 0, &f1, &f2, true, l)?;
    check_qs_tables("qsieve::prepare_prime", &tag, &fbi, &qp, true, 0, &b1, &b2, true, l)?;
    l.nontrivial_of(&("qs", n.digits(), fb));
    l.label(if only_odds { "qs:only-odds" } else { "qs:all-x" });
    l.label(&format!("qs:n%8={}", n.digits()[0] % 8));
    l.label(&format!("qs:shape:{}", c.shape));
    l.label(&format!("qs:bits/50={}", n.bits() / 50));
    if fbi.divides_n {
        l.label("qs:p|n-in-base");
    }
    if k > 1 {
        l.label("qs:multiplier>1");
    }
    l.sample("qs", || serde_json::to_value(c).unwrap());
    Ok(())
}

pub fn qs_strategy(maxbits: u32) -> impl Strategy<Value = QsCase> {
    (
        (bits_strategy(20, maxbits), 0u8..4, 0u8..10, any::<u64>()),
        (0usize..MULTS.len(), 0u32..100, 0u32..10, 1u32..400, 0u32..6, any::<u64>()),
    )
        .prop_map(|((bits, cls, shape, seed), (ki, kmode, pmode, fbx, dbl, pick))| {
            let (n, shape) = build_n(bits, cls, shape, seed);
            let k = if kmode < 40 { 0 } else { MULTS[ki] };
            let fb = if pmode < 6 {
                None
            } else {
                let typical = 16 + (bits as u64 * bits as u64 * bits as u64 / 1500) as u32;
                Some((typical as u64 * fbx as u64 / 100).clamp(8, 80_000) as u32)
            };
            QsCase {
                n,
                k,
                fb,
                use_double: match dbl {
                    0 => Some(true),
                    1 => Some(false),
                    _ => None,
                },
                pick,
                shape: shape.to_string(),
            }
        })
}

/// Root tables observed inside a real `qsieve()` run: at `Sieve::new` and after each
/// large-block shift (`next_lgblock`).
#[derive(Clone, Debug, Serialize, Deserialize)]
pub struct QsRunCase {
    #[serde(with = "crate::ser::dec")]
    pub n: U1024,
    pub k: u32,
    /// number of large-block shifts to observe per direction
    pub shifts: u32,
    pub fb: Option<u32>,
}

pub fn check_qs_run(c: &QsRunCase, l: &mut Local) -> Result<(), Fail> {
    if c.n.bits() < 30 || c.n.bits() > 130 || c.k == 0 {
        return Err(Fail::new("HARNESS|out-of-domain", "qs_run wants 30..130 bits and an explicit multiplier"));
    }
    let n = c.n * U1024::from(c.k as u64);
    let use_double = n.bits() > 200;
    let t_fb = guard("params::qs_fb_size", || params::qs_fb_size(c.n.bits(), use_double))?;
    let fb = c.fb.unwrap_or(t_fb).max(8);
    let tag = format!("qsieve() n={} k={} fb={}", c.n, c.k, fb);
    let mut prefs = silent_prefs();
    prefs.fb_size = Some(fb);
    prefs.should_abort = Some(Box::new(qsieve::verif_root_log_full));
    qsieve::verif_root_log_start(2 + 2 * c.shifts.clamp(1, 64) as usize);
    let (n0, k) = (c.n, c.k);
    let r = catch(|| qsieve::qsieve(n0, k, &prefs, None));
    let log = qsieve::verif_root_log_take();
    if let Err(p) = r {
        run_panic("qs_run", &tag, &p, l);
    }
    if log.is_empty() {
        l.label("qs_run:nothing-observed");
        return Ok(());
    }
    let nint = to_int(&n, false);
    let fbase = guard("FBase::new", || FBase::new(nint, fb))?;
    let fbi = fb_info("FBase::new", &fbase, &n, false)?;
    // the polynomial of the classical sieve, re-derived: R = isqrt(n), made odd when n = 1 mod 8
    let only_odds = n.digits()[0] % 8 == 1;
    let mut rr = ref_isqrt(&n);
    if only_odds && !rr.bit(0) {
        rr += U1024::ONE;
    }
    let qp = QsPoly { r: rr, m: if only_odds { 2 } else { 1 } };
    let mut shifted = 0;
    for (j, (bck, off, r1, r2)) in log.iter().enumerate() {
        ensure!(
            *off >= 0 && (*off as u64) % BLOCK == 0,
            "qsieve::qsieve|offset",
            "{}: tables handed over at offset {}",
            tag,
            off
        );
        let entry = if *off == 0 { "qsieve::qsieve|initial" } else { "qsieve::qsieve|shifted" };
        check_qs_tables(entry, &tag, &fbi, &qp, *bck, *off, r1, r2, j < 4 || j % 5 == 0, l)?;
        if *off > 0 {
            shifted += 1;
            l.label("qs_run:shifted-table");
            l.nontrivial_of(&("qs_run", n.digits(), *bck, *off));
        }
    }
    if shifted == 0 {
        l.label("qs_run:no-shift-observed");
    }
    l.label(if only_odds { "qs_run:only-odds" } else { "qs_run:all-x" });
    l.sample("qs_run", || serde_json::to_value(c).unwrap());
    Ok(())
}

pub fn qs_run_strategy() -> impl Strategy<Value = QsRunCase> {
    (40u32..=104, any::<u64>(), 0usize..MULTS.len(), 1u32..10, 0u32..4, 20u32..200).prop_map(
        |(bits, seed, ki, shifts, fbm, fbv)| QsRunCase {
            n: semiprime(bits, seed),
            k: MULTS[ki],
            shifts,
            fb: if fbm == 0 { Some(fbv) } else { None },
        },
    )
}

// ---------------------------------------------------------------------------
// Fixed part

fn fixed_siqs() -> Vec<SiqsCase> {
    let mut out = vec![];
    let mk = |n: &str, neg: bool, k: u32, fb: Option<u32>, blocks: Option<u32>, nfacs: Option<u32>, a_num: u32, walk: u32| SiqsCase {
        nabs: crate::ser::from_dec::<16>(n).unwrap(),
        neg,
        k,
        fb,
        blocks,
        nfacs,
        want: 10,
        a_first: 0,
        a_num,
        walk,
        budget: 6_000_000,
        start0: true,
        pick: 12,
        shape: "fixed".into(),
    };
    // the modulus of the repository's test_poly_prepare (fb 10000, M = 2^20, 9 factors), whole family of 2 A
    out.push(mk(
        "1563849171863495214507949103370077342033765608728382665100245282240408041",
        false,
        1,
        Some(10000),
        Some(32),
        Some(9),
        2,
        0,
    ));
    // test_poly_prepare0: unit form for negative n
    out.push(mk("9781991", true, 1, Some(100), Some(32), Some(0), 1, 0));
    out.push(mk("12649733", true, 1, Some(100), Some(32), Some(0), 1, 0));
    // moduli of test_poly_a with the library's own parameters
    for n in [
        "1037510308142021112704792564947",
        "966900989857874724182183960752602697",
        "628343462775940766740025939587872832856351",
        "924749938828041082847054913126284372335960469233",
        "609717477947510609865834953348014542054334353064133851",
        "1499802708882526909122644146289721370711415544090318473858983",
    ] {
        out.push(mk(n, false, 1, None, None, None, 3, 0));
        out.push(mk(n, false, 0, None, None, None, 1, 0));
    }
    // one n per class mod 8 at the parameter breakpoints, as n and as a negative discriminant
    for bits in [20u32, 33, 48, 64, 65, 89, 90, 119, 120, 149, 150, 169, 170, 199, 200] {
        for cls in 0..4u8 {
            let (n, _) = build_n(bits, cls, 0, 1000 + bits as u64);
            let mut c = mk("3", false, 1, None, None, None, 2, 0);
            c.nabs = n;
            c.budget = 1_500_000;
            out.push(c.clone());
            if bits <= 120 {
                c.neg = true;
                out.push(c);
            }
        }
    }
    // tiny negative discriminants: A = 1, both start offsets, even n (D = 4n)
    for m in [3u64, 4, 7, 8, 11, 15, 20, 23, 24, 163, 232, 5923, 1000003, 4000000028] {
        for start0 in [true, false] {
            let mut c = mk("3", true, 1, Some(64), Some(16), Some(0), 1, 0);
            c.nabs = U1024::from(m);
            c.start0 = start0;
            out.push(c);
        }
    }
    out
}

fn fixed_mpqs() -> Vec<MpqsCase> {
    let mut out = vec![];
    for (n, kind) in [
        ("104567211693678450173299212092863908236097914668062065364632502155864426186497", 0u8),
        ("1290017141416619832024483521723784417815009599", 0),
        ("1290017141416619832024483521723784417815009599", 2),
        ("14113157", 0),
        ("1037510308142021112704792564947", 0),
        ("1037510308142021112704792564947", 2),
    ] {
        out.push(MpqsCase {
            n: crate::ser::from_dec::<16>(n).unwrap(),
            k: 1,
            fb: None,
            blocks: None,
            kind,
            blk: 0,
            sub_off: 0,
            width: 16,
            max_polys: 20,
            pick: 5,
            shape: "fixed".into(),
        });
    }
    // small inputs: D inside the factor base
    for bits in [20u32, 24, 28, 32, 36, 40, 48, 56, 64] {
        for cls in 0..4u8 {
            let (n, _) = build_n(bits, cls, 4, 77 + 4 * bits as u64 + cls as u64);
            out.push(MpqsCase {
                n,
                k: 1,
                fb: None,
                blocks: None,
                kind: 0,
                blk: 0,
                sub_off: 0,
                width: 16,
                max_polys: 64,
                pick: 9,
                shape: "fixed-small".into(),
            });
        }
    }
    out
}

/// Evaluate explicit cases in parallel, report in case order (deterministic output).
fn par_fixed<C: Serialize + Sync>(
    ctx: &Ctx,
    check: &str,
    cases: &[C],
    f: impl Fn(&C, &mut Local) -> Result<(), Fail> + Sync,
) {
    use rayon::prelude::*;
    let res: Vec<(Local, Result<(), Fail>)> = cases
        .par_iter()
        .map(|c| {
            let mut l = Local::new();
            let r = match catch(|| f(c, &mut l)) {
                Ok(r) => r,
                Err(p) => {
                    let loc = p.short_loc();
                    if loc.starts_with("src/") && !p.loc.contains("/harness/") {
                        Err(Fail::new(format!("unguarded|panic@{}", loc), format!("library panicked at {}: {}", p.loc, p.msg)))
                    } else {
                        Err(Fail::new(format!("HARNESS|panic@{}", loc), format!("harness panicked at {}: {}", p.loc, p.msg)))
                    }
                }
            };
            (l, r)
        })
        .collect();
    for (c, (l, r)) in cases.iter().zip(res) {
        ctx.merge(l);
        if let Err(fl) = r {
            if fl.class.starts_with("HARNESS|") {
                ctx.selfcheck_failed(&format!("{}: {}", check, fl.what));
            } else {
                ctx.violation(check, &fl, serde_json::to_value(c).unwrap_or(Value::Null));
            }
        }
    }
}

fn oracle_selftest() -> Result<(), String> {
    // limb reduction against bnum `%`, quadratic evaluation, brute-force roots, root count
    let mut rng = SplitMix(0xc12);
    for _ in 0..200 {
        let x = rng.bits::<4>(256);
        let p = prime64(2 + (rng.next() % 22) as u32, &mut rng);
        let want = (x % bnum::BUint::<4>::from(p)).digits()[0];
        if mod_uint(&x, p) != want || PCtx::new(p).mod4(x.digits()) != want {
            return Err(format!("limb reduction of {} mod {}", x, p));
        }
        let xi = bnum::BInt::<4>::from_bits(x);
        let want_i = {
            let pi = bnum::BInt::<4>::from(p as i64);
            let r = xi % pi;
            (if r.is_negative() { r + pi } else { r }).to_bits().digits()[0]
        };
        if mod_int(&xi, p) != want_i {
            return Err(format!("signed limb reduction of {} mod {}", xi, p));
        }
    }
    // x^2 - 2 mod 7 has roots 3, 4; mod 5 none; x^2 mod 3 one
    if brute_roots(1, 0, 5, 0, 7) != vec![3, 4] || root_count(1, 0, 5, 8 % 7, 7) != Some(2) {
        return Err("roots of x^2-2 mod 7".into());
    }
    if !brute_roots(1, 0, 3, 0, 5).is_empty() || root_count(1, 0, 3, 8 % 5, 5) != Some(0) {
        return Err("roots of x^2-2 mod 5".into());
    }
    if brute_roots(1, 0, 0, 2, 3) != vec![1] || root_count(1, 0, 0, 0, 3) != Some(1) || root_count(0, 2, 1, 4, 3) != Some(1) {
        return Err("double / linear roots mod 3".into());
    }
    for p in 0..20000u64 {
        if is_prime_24(p) != ref_isprime64(p) {
            return Err(format!("prime sieve at {}", p));
        }
    }
    for p in [16777213u64, 16777215, 16769023, 16777183] {
        if is_prime_24(p) != ref_isprime64(p) {
            return Err(format!("prime sieve at {}", p));
        }
    }
    Ok(())
}

fn run(ctx: &Ctx) {
    ctx.set_rule(
        "SIQS/class group: proptest strategy over (n of 20..maxbits bits in a forced class mod 8, shapes random / semiprime / \
         small prime factor / 2^k edge / square; sign; multiplier selected by select_multiplier or forced; factor-base size, \
         interval and number of factors from the library's parameter functions or generated; first A and number of A from \
         select_a; Gray-code walk of the whole family or a prefix); every walked polynomial is checked at every factor-base \
         prime (all steps when the work fits the per-case budget, otherwise boundary indices 0,1,2,2^j-1,2^j,2^j+1,last and a \
         seeded stride). MPQS: real sieve_for_polys windows (whole, tiny sub-windows, constructed composite pseudo-squares \
         D=q(2q-1)), plus polynomials observed inside real mpqs() runs. QS: forward/backward tables for n up to 400 bits, plus \
         tables observed inside real qsieve() runs initially and after every large-block shift. Non-trivial = polynomial with \
         Gray index >= 1, or a prime of A / of n in the base, or an MPQS/QS table; distinct by (n, A or D or offset, index).",
    );
    ctx.assume("bnum 0.8 integer arithmetic and native u64/u128 arithmetic are correct");
    ctx.assume(
        "n*k <= 420 bits (SIQS/MPQS), <= 400 bits (QS); for positive n only prime factors <= 199 may lie in the factor base \
         (siqs() refuses others through check_divisors); MPQS windows satisfy D^2 < n (make_poly's documented precondition)",
    );
    ctx.assume(
        "start_offset is -M/2 whenever A > 1 (SieveSIQS::offset_modp is derived from the interval size) and 0 or -M/2 for A = 1; \
         interval sizes are multiples of the 32768 block",
    );
    ctx.assume(
        "with generated (non-table) factor-base size / interval / nfacs a parameter sanity assertion of the polynomial \
         selection is a rejected case; with the library's own parameters every panic is reported",
    );
    if let Err(e) = oracle_selftest() {
        ctx.selfcheck_failed(&format!("C12 oracle self-test: {}", e));
        return;
    }
    // ---- fixed part
    par_fixed(ctx, "siqs", &fixed_siqs(), check_siqs);
    par_fixed(ctx, "mpqs", &fixed_mpqs(), check_mpqs);
    let timing = std::env::var("YQV_C12_TIMING").is_ok();
    let tm = |what: &str| {
        if timing {
            eprintln!("[c12 timing] {:>8.1}s after {}", ctx.elapsed(), what);
        }
    };
    tm("fixed");
    // ---- generated part
    let maxbits = ctx.pick(340, 400);
    let budget = ctx.pick(1_500_000u64, 10_000_000);
    ctx.par_prop("siqs", 64, ctx.n(2000, 6_000), || siqs_strategy(maxbits, budget, 22), check_siqs);
    tm("siqs");
    ctx.par_prop("mpqs", 32, ctx.n(1000, 18_000), || mpqs_strategy(maxbits), check_mpqs);
    tm("mpqs");
    ctx.par_prop("mpqs_run", 32, ctx.n(200, 9_000), mpqs_run_strategy, check_mpqs_run);
    tm("mpqs_run");
    ctx.par_prop("qs", 32, ctx.n(800, 9_000), || qs_strategy(maxbits.min(400)), check_qs);
    tm("qs");
    ctx.par_prop("qs_run", 32, ctx.n(300, 12_000), qs_run_strategy, check_qs_run);
    tm("qs_run");
    for (e, min) in [
        ("siqs:type1", 20),
        ("siqs:type2", 20),
        ("siqs:negative-n", 10),
        ("siqs:nfacs=0", 3),
        ("siqs:idx>=1", 500),
        ("siqs:poly-with-p|A", 500),
        ("siqs:whole-family", 20),
        ("siqs:whole-family-every-index", 20),
        ("siqs:multiplier-selected", 10),
        ("siqs:p|n-in-base", 5),
        ("mpqs:n%4=1", 20),
        ("mpqs:n%4=3", 20),
        ("mpqs:D-shares-prime-with-base", 1),
        ("mpqs:D-composite", 3),
        ("mpqs_run:poly", 50),
        ("qs:only-odds", 5),
        ("qs:all-x", 20),
        ("qs_run:shifted-table", 20),
    ] {
        ctx.essential(e, min);
    }
}

fn replay(_ctx: &Ctx, check_name: &str, case: &Value) -> Result<(), Fail> {
    match check_name {
        "siqs" => replay_as::<SiqsCase>(case, check_siqs),
        "mpqs" => replay_as::<MpqsCase>(case, check_mpqs),
        "mpqs_run" => replay_as::<MpqsRunCase>(case, check_mpqs_run),
        "qs" => replay_as::<QsCase>(case, check_qs),
        "qs_run" => replay_as::<QsRunCase>(case, check_qs_run),
        _ => Err(Fail::new("HARNESS|unknown-check", check_name.to_string())),
    }
}
