//! C03 — factoring is total: it answers or fails cleanly, never crashes (DESIGN.md C03).
//!
//! Every case runs in a worker subprocess under both build profiles (opt = release, chk =
//! release + debug assertions + overflow checks).  Oracle: the call returns Ok or
//! Err(FactoringFailure); a panic, abort, signal or stack exhaustion is a violation; inputs
//! above 512 bits must be refused (Err), not processed.

use serde_json::Value;

use crate::engine::{Ctx, Fail, Local, PropDef};
use crate::oracle::int::{certified_prime, ref_factor64, ref_isprime64, SplitMix, U1024};
use crate::props::factoring::*;

pub const DEF: PropDef = PropDef {
    id: "C03",
    level: "exploration",
    chk_child: false,
    run,
    replay,
};

fn case_known64(n: u64, shape: &str, algo: &str) -> FCase {
    FCase {
        n: U1024::from(n),
        factors: ref_factor64(n).into_iter().map(U1024::from).collect(),
        shape: shape.to_string(),
        algo: algo.to_string(),
        prefs: PrefSpec::default(),
    }
}

fn case_unknown(n: U1024, shape: &str, algo: &str) -> FCase {
    FCase { n, factors: vec![], shape: shape.to_string(), algo: algo.to_string(), prefs: PrefSpec::default() }
}

/// boundary classes named in the property (fixed part of the tier; independent of the seed)
fn boundary_cases(quick: bool) -> Vec<FCase> {
    let mut out = vec![];
    let one = U1024::ONE;
    // tiny composites p*q, p, q in [211, 4000]: every selector must cope with inputs far below its ideal range
    let small_primes: Vec<u64> = (211..4000u64).filter(|&p| ref_isprime64(p)).collect();
    let mut r = SplitMix(0xC03);
    let pairs = if quick { 400 } else { 6000 };
    for _ in 0..pairs {
        let p = small_primes[r.below(small_primes.len() as u64) as usize];
        let q = small_primes[r.below(small_primes.len() as u64) as usize];
        for a in ALGOS {
            out.push(case_known64(p * q, "tiny-pq", a));
        }
    }
    // squares and cubes of small primes
    for &p in small_primes.iter().step_by(if quick { 40 } else { 5 }) {
        for a in ALGOS {
            out.push(case_known64(p * p, "tiny-p2", a));
            out.push(case_known64(p * p * p, "tiny-p3", a));
        }
    }
    // 59..64-bit inputs for the 64-bit selectors, incl. the top of the u64 range
    let mut top = vec![];
    let mut n = u64::MAX;
    while top.len() < (if quick { 60 } else { 1200 }) {
        let fs = ref_factor64(n);
        if fs.len() >= 2 && fs[0] > 199 {
            top.push(n);
        }
        n -= 1;
    }
    for &n in &top {
        for a in ["rho", "squfof", "qs64", "auto", "ecm128"] {
            out.push(case_known64(n, "top-of-u64", a));
        }
    }
    for bits in 57..=64u32 {
        for i in 0..(if quick { 6 } else { 60 }) {
            let mut rr = SplitMix(bits as u64 * 1000 + i);
            let a = bits / 2;
            let p = crate::oracle::int::prime64(a, &mut rr);
            let q = crate::oracle::int::prime64(bits - a, &mut rr);
            if let Some(n) = p.checked_mul(q) {
                for alg in ["rho", "squfof", "qs64"] {
                    out.push(case_known64(n, "semiprime-57..64", alg));
                }
            }
        }
    }
    // values around 2^52 (rho / ECM128 switch), 2^64, 2^80, 2^128
    for (e, algos) in [
        (52u32, &["auto", "rho", "squfof", "qs64", "ecm128", "qs", "mpqs", "siqs", "pm1"][..]),
        (64, &["auto", "ecm128", "qs", "mpqs", "siqs", "pm1"][..]),
        (80, &["auto", "qs", "mpqs", "siqs", "pm1"][..]),
        (128, &["auto", "siqs", "pm1"][..]),
    ] {
        let span = if quick { 12u64 } else { 100 };
        for d in 0..span {
            for sign in [0u8, 1] {
                let n = if sign == 0 { (one << e) + U1024::from(d) } else { (one << e) - U1024::from(d + 1) };
                for a in algos {
                    if n.bits() <= max_bits(a) {
                        out.push(case_unknown(n, &format!("around-2^{}", e), a));
                    }
                }
            }
        }
    }
    // near the size limit: shapes that the strategy resolves without sieving
    let smooth = {
        let mut s = one;
        for p in [2u64, 3, 5, 7, 11, 13, 17, 19, 23, 29, 31, 37, 41, 43, 47, 53, 59, 61, 67, 71, 73, 79, 83, 89, 97, 101, 103, 107, 109, 113, 127, 131, 137, 139, 149, 151, 157, 163, 167, 173, 179, 181, 191, 193, 197, 199] {
            s = s * U1024::from(p);
        }
        s
    };
    for bits in [480u32, 496, 500, 505, 511, 512] {
        let p = certified_prime(bits, 0);
        for a in ["auto", "pm1", "ecm", "qs", "mpqs", "siqs"] {
            let mut c = mk_case("limit-prime", vec![p], a, PrefSpec::default());
            c.shape = format!("limit-prime-{}", bits);
            out.push(c);
        }
        // p^k with p^k near the limit
        for k in [2u32, 3, 5] {
            let q = certified_prime(bits / k, 0);
            for a in ["auto", "siqs", "ecm"] {
                out.push(mk_case("limit-prime-power", vec![q; k as usize], a, PrefSpec::default()));
            }
        }
        // smooth * prime
        let pb = bits - smooth.bits();
        let q = certified_prime(pb, 1);
        let mut primes = vec![q];
        for pp in [2u64, 3, 5, 7, 11, 13, 17, 19, 23, 29, 31, 37, 41, 43, 47, 53, 59, 61, 67, 71, 73, 79, 83, 89, 97, 101, 103, 107, 109, 113, 127, 131, 137, 139, 149, 151, 157, 163, 167, 173, 179, 181, 191, 193, 197, 199] {
            primes.push(U1024::from(pp));
        }
        for a in ["auto", "siqs", "pm1"] {
            out.push(mk_case("limit-smooth-times-prime", primes.clone(), a, PrefSpec::default()));
        }
    }
    // above the supported size: must be refused up front
    for bits in [513u32, 520, 600, 777, 1000, 1023] {
        let p = certified_prime(bits.min(900), 0) << (bits - bits.min(900));
        let p = p | one;
        let a = certified_prime(bits / 2, 0);
        let b = certified_prime(bits - bits / 2, 1);
        for alg in ["auto", "pm1", "ecm", "ecm128", "qs", "mpqs", "siqs"] {
            out.push(case_unknown(p, &format!("oversize-odd-{}", bits), alg));
            out.push(mk_case("oversize-semiprime", vec![a, b], alg, PrefSpec::default()));
            out.push(case_unknown(one << (bits - 1), "oversize-power-of-two", alg));
        }
        let sq = certified_prime(bits / 2 + 1, 2);
        out.push(mk_case("oversize-square", vec![sq, sq], "auto", PrefSpec::default()));
    }
    out
}

fn run(ctx: &Ctx) {
    ctx.set_rule(
        "every selector on every n in [0,2^17) (quick; 2^20 thorough) exhaustively; fixed boundary classes (tiny p*q, p^2, p^3 \
         with p,q in [211,4000) on all ten selectors; composites at the top of the u64 range and 57..64-bit semiprimes on the \
         64-bit selectors; all integers within a few units of 2^52, 2^64, 2^80, 2^128; 480..512-bit primes, prime powers, \
         smooth*prime; 513..1023-bit inputs that must be refused; every bit length 432..512 (200..512 thorough) as a 24..36-bit \
         prime times a prime on Ecm / Auto); plus proptest-generated composites of 14 shapes within each \
         selector's size precondition and time budget, default preferences, threads in {None,2} and use_double in {None,true,false}. Each case runs in a worker \
         subprocess under the opt and the chk profile. Non-trivial = the selector's algorithm ran (>= 2 prime factors above 199, \
         or unknown factorisation above 16 bits); distinct by (profile, selector, n, prefs).",
    );
    ctx.assume("termination is checked up to a per-case watchdog (120 s quick / 600 s thorough); a watchdog hit is inconclusive, not a violation");
    ctx.assume("preferences are the defaults plus threads in {None, 2} the documented double-large-prime switch in {None, true, false} and the verbosity level in {silent, info, verbose, debug}; tuning overrides (factor-base size, interval, large-prime multiplier) are outside the property");
    ctx.assume("the 501..512-bit band is probed: acceptance is recorded, only a panic or a wrong result is flagged");
    let quick = ctx.quick();
    let timeout = ctx.pick(120.0, 600.0);
    let mut l = Local::new();

    for profile in ["opt", "chk"] {
        let check = format!("factor@{}", profile);
        let prof = profile.to_string();
        let judge = move |c: &FCase, o: &Outcome| judge_c03(c, o, &prof);
        // 1. exhaustive small range, every selector
        let hi = ctx.pick(1u64 << 17, 1 << 20);
        for a in ALGOS {
            run_ranges(ctx, &check, profile, a, 0, hi, 1, "c03", &mut l);
        }
        // 2. boundary classes
        let b = boundary_cases(quick);
        l.label_n("boundary-cases", b.len() as u64);
        run_batch(ctx, &check, profile, &b, timeout, &judge, &mut l);
        // 3. generated composites per selector
        for (i, a) in ALGOS.iter().enumerate() {
            let per = ctx.n(if matches!(*a, "siqs" | "auto" | "mpqs" | "qs") { 1000 } else { 2500 }, 40_000) as usize;
            let per = if profile == "chk" { per / 2 } else { per };
            let strat = case_strategy(a, quick, false);
            let mut cases = ctx.sample_strategy(&check, i as u64, &strat, per);
            // threads in {None, 2} for the parallel selectors
            for (j, c) in cases.iter_mut().enumerate() {
                if j % 4 == 3 && matches!(*a, "siqs" | "auto" | "mpqs" | "qs" | "ecm") {
                    c.prefs.threads = Some(2);
                }
                // the double-large-prime switch is a documented user option (ymqs --use-double), not a tuning
                // override: both settings must be total (relation chains only appear with it at these sizes)
                if matches!(*a, "siqs" | "auto" | "mpqs" | "qs") {
                    c.prefs.use_double = match j % 5 {
                        1 | 2 => Some(true),
                        3 => Some(false),
                        _ => None,
                    };
                }
                // so is the verbosity level (ymqs -v): the progress / diagnostic code it switches on must be total too
                if j % 7 == 5 {
                    c.prefs.verbosity = Some(1 + ((j / 7) % 3) as u8);
                }
            }
            run_batch(ctx, &check, profile, &cases, timeout, &judge, &mut l);
        }
        // 3b. every bit length up to the limit on the group-order selectors and the automatic strategy: a factor within
        //     reach (24..36 bits) times a prime fills the size, so that the multiprecision arithmetic (Montgomery form,
        //     modular inverses, gcd, the curve and stage-2 code) runs with moduli of every word/bit alignment there
        {
            let lo = ctx.pick(432u32, 200);
            let reps = ctx.pick(1u32, 3);
            let mut r = crate::oracle::int::SplitMix(crate::engine::hash64(&(ctx.seed, "c03-sizes", profile)));
            let mut cases = vec![];
            for bits in lo..=512 {
                for _ in 0..reps {
                    let pb = 24 + r.below(13) as u32;
                    let p = gen_prime(pb, r.next());
                    let q = gen_prime(bits - pb, r.next());
                    // (Algo::Pm1 alone walks a schedule of minutes at these sizes when p-1 is not smooth: not used here)
                    // quick tier: the selectors alternate with the size, opposite phases under the two profiles
                    let algs: &[&str] = if !quick {
                        &["ecm", "auto"]
                    } else if (bits % 2 == 0) == (profile == "opt") {
                        &["ecm"]
                    } else {
                        &["auto"]
                    };
                    for alg in algs {
                        cases.push(mk_case("every-size-small-x-prime", vec![p, q], alg, PrefSpec::default()));
                    }
                }
            }
            run_batch(ctx, &check, profile, &cases, timeout, &judge, &mut l);
        }
    }
    // 4. general composites near the size limit on the sieve selectors: a complete run is out of every budget,
    //    but the start-up (parameter derivation, factor base, first polynomials) must not abort.  A run that is
    //    still going at the short watchdog is not judged (termination at these sizes cannot be observed).
    for profile in ["opt", "chk"] {
        let check = format!("factor@{}", profile);
        let mut cases = vec![];
        let sizes: &[u32] = if quick { &[280, 330, 400, 456, 464, 480, 512] } else { &[260, 280, 300, 330, 360, 400, 430, 448, 456, 463, 464, 470, 480, 496, 500, 506, 512] };
        for &bits in sizes {
            let a = bits / 2;
            let mut c = mk_case("limit-hard-semiprime", vec![certified_prime(a, 0), certified_prime(bits - a, 1)], "siqs", PrefSpec::default());
            for alg in ["qs", "mpqs", "siqs"] {
                c.algo = alg.to_string();
                c.prefs.verbosity = None;
                cases.push(c.clone());
                if bits % 16 == 0 {
                    // the start-up diagnostics (parameter report, polynomial statistics) at these sizes
                    c.prefs.verbosity = Some(2);
                    cases.push(c.clone());
                }
            }
        }
        let jobs: Vec<Value> = cases.iter().map(|c| c.job()).collect();
        let res = crate::worker::run_jobs(profile, &jobs, 24, &|_| if quick { 10.0 } else { 40.0 }).unwrap_or_default();
        for (c, r) in cases.iter().zip(res.iter()) {
            let o = Outcome::from_job(r);
            l.case();
            l.label(&format!("limit-hard:{}:{}", profile, o.tag()));
            l.nontrivial(crate::engine::hash64(&(profile, c.key())));
            l.sample("limit-hard-semiprime", || serde_json::to_value(c).unwrap());
            let verdict = match &o {
                Outcome::Panic { msg, loc, msg_class } => {
                    // signature by file and message class (line numbers move with unrelated edits)
                    let file = loc.split(':').next().unwrap_or(loc);
                    Err(Fail::new(
                        format!("factor[{}]|panic@{}|{}", c.algo, file, msg_class),
                        format!("factor({}-bit semiprime {}, {}) panicked at {} [{}]: {}", c.n.bits(), c.n, c.algo, loc, profile, msg),
                    )
                    .with_detail(format!("bits={}", c.n.bits())))
                }
                Outcome::Died(s) => Err(Fail::new(format!("factor[{}]|process-died", c.algo), format!("factor({}, {}) killed the process [{}]: {}", c.n, c.algo, profile, s))),
                _ => Ok(()),
            };
            if let Err(f) = verdict {
                ctx.violation(&check, &f, serde_json::to_value(c).unwrap());
            }
        }
    }
    ctx.merge(l);
    ctx.essential("outcome:opt:ok", 1000);
    ctx.essential("outcome:chk:ok", 1000);
    ctx.essential("shape:oversize-semiprime", 10);
    ctx.essential("shape:top-of-u64", 10);
    ctx.essential("shape:prime-power", 10);
    ctx.essential("prefs:verbose", 100);
    ctx.essential("shape:every-size-small-x-prime", 100);
}

fn replay(_ctx: &Ctx, check: &str, case: &Value) -> Result<(), Fail> {
    let profile = check.split('@').nth(1).unwrap_or("opt").to_string();
    replay_case(check, case, &move |c, o| judge_c03(c, o, &profile))
}
