//! C20 — parameter tables satisfy their consumers' preconditions at every size
//! (DESIGN.md section 2, C20).
//!
//! The configuration space is finite and is enumerated completely:
//!   params    all bit lengths 1..=520 (512 + the 8 bits a multiplier can add) x use_double x
//!             {qs, mpqs, siqs, clsgrp} x two residue classes of n, through the `verif_params`
//!             re-exports of the private parameter functions;
//!   stage2    every row of both stage-2 tables, every b2 on a geometric grid between and beyond
//!             the rows, every hard-wired b2;
//!   dispatch  convolve_modn for the modulus sizes at and around every breakpoint x every
//!             transform size (the dispatch decision is read through a recorder hook);
//!   strategy  every (bits -> curves, B1, B2) row of ecm_auto / ecm_only / ecm128 / pm1_quick /
//!             pm1_only (read through a recorder hook at the entry of the consumers).
//! Oracle: structural predicates read off the consumers' assertions and buffer arithmetic (each
//! predicate names the consuming line in its message), evaluated on the derived parameters with
//! an independent model of the factor base (Legendre symbols over the reference prime table).
//! Each predicate is validated against the consumer (`consumer` check): the real code is started
//! with the derived parameters on a generated n of that size (complete tiny runs, first large
//! block, first polynomial) and must not trip an assertion; the factor-base model is compared
//! with the real `FBase::new` there.

use std::collections::BTreeMap;

use bnum::cast::CastFrom;
use proptest::prelude::*;
use rayon::prelude::*;
use serde::{Deserialize, Serialize};
use serde_json::{json, Value};

use crate::engine::{catch, guard, hash64, replay_as, Ctx, Fail, Local, PropDef};
use crate::oracle::int::{jacobi64, prime64, ref_isqrt, SplitMix};
use crate::oracle::primes::{primes_below, ref_primes, Block};
use yamaquasi::arith_montgomery::{MInt, ZmodN};
use yamaquasi::fbase::FBase;
use yamaquasi::{arith_fft, classgroup, ecm, ecm128, mpqs, params, pollard_pm1, pp1, qsieve, siqs};
use yamaquasi::{Int, Preferences, Uint, Verbosity};

pub const DEF: PropDef = PropDef {
    id: "C20",
    level: "exploration",
    chk_child: true,
    run,
    replay,
};

const BLOCK: u64 = 32768;
/// Largest parameter-function argument: 512-bit input times a multiplier below 200.
const MAX_BITS: u32 = 520;
/// Sizes above this are refused by the consumer itself (explicit early return).
const QS_LIMIT: u32 = 400;
const MPQS_LIMIT: u32 = 448;
const SIQS_LIMIT: u32 = 448;
const FB_PRIME_LIMIT: u64 = 1 << 24;

fn bits64(x: u64) -> u32 {
    64 - x.leading_zeros()
}

// ---------------------------------------------------------------------------
// inputs

/// Residue classes of n that the consumers distinguish: n % 8 == 1 (type-2 polynomials, "only
/// odds" QS, fb_size of n>>2), n % 8 == 5 (type 2), n % 4 == 3 (type 1).
const RESIDUES: [u64; 3] = [1, 5, 3];

/// A `bits`-bit odd integer with the wanted residue mod 8 and no prime factor below 2000
/// (bits >= 16); for bits <= 128 a product of two primes (so that complete runs can finish).
pub fn gen_n(bits: u32, res: u64, seed: u64) -> Uint {
    let mut r = SplitMix(seed ^ ((bits as u64) << 40) ^ (res << 56) ^ 0xc20);
    if bits < 16 {
        // parameter functions only: any odd value of that length
        let x = (r.next() >> (64 - bits.max(1))) | 1 | (1u64 << (bits.max(1) - 1));
        return Uint::from(x);
    }
    if bits <= 128 {
        for _ in 0..100_000 {
            let pb = bits / 2;
            let qb = bits - pb;
            let p = prime64(pb.max(8), &mut r);
            let q = prime64(qb.max(8), &mut r);
            let n = p as u128 * q as u128;
            if p != q && p >= 211 && q >= 211 && 128 - n.leading_zeros() == bits && (n % 8) as u64 == res {
                return Uint::from(n);
            }
        }
    }
    let small = primes_below(2000);
    loop {
        let mut x: Uint = r.bits::<16>(bits);
        x |= Uint::ONE << (bits - 1);
        x = ((x >> 3u32) << 3u32) | Uint::from(res);
        if small.iter().skip(1).all(|&p| x.rem_small(p as u64) != 0) {
            return x;
        }
    }
}

/// A probable prime (Fermat bases 2 and 3 after trial division below 2000) with exactly
/// `bits` bits, the two top bits set and the given residue mod 8.  Only used to build
/// fixtures without small factors; primality is not part of any oracle.
fn probable_prime(bits: u32, mod8: u64, r: &mut SplitMix) -> Uint {
    let small = primes_below(2000);
    loop {
        let mut x: Uint = r.bits::<16>(bits);
        x |= (Uint::ONE << (bits - 1)) | (Uint::ONE << (bits - 2));
        x = ((x >> 3u32) << 3u32) | Uint::from(mod8);
        if small.iter().skip(1).any(|&p| x.rem_small(p as u64) == 0) {
            continue;
        }
        let e = x - Uint::ONE;
        if crate::oracle::int::powmod(&Uint::from(2u64), &e, &x).is_one() && crate::oracle::int::powmod(&Uint::from(3u64), &e, &x).is_one() {
            return x;
        }
    }
}

/// n = p*q with two probable primes of about half the size each, exactly `bits` bits
/// (bits >= 129) and n = res mod 8: no prime factor can fall into a factor base.
pub fn gen_semiprime(bits: u32, res: u64, seed: u64) -> Uint {
    if bits <= 128 {
        return gen_n(bits, res, seed);
    }
    let mut r = SplitMix(seed ^ ((bits as u64) << 40) ^ (res << 56) ^ 0x5e31);
    let pb = bits / 2;
    let qb = bits - pb;
    let pm = [1u64, 3, 5, 7][(r.next() % 4) as usize];
    let p = probable_prime(pb, pm, &mut r);
    // p*p = 1 mod 8, so q = res*p mod 8 gives p*q = res
    let q = probable_prime(qb, (res * pm) % 8, &mut r);
    p * q
}

/// A negative discriminant D with |D| of `bits` bits: |D| = 3 or 7 mod 8 (odd D = 1 mod 4) or
/// |D| = 4m, m = 1, 2 mod 4 (res 4); no odd prime factor below 2000 for bits >= 16.
pub fn gen_d(bits: u32, res: u64, seed: u64) -> Int {
    let mut r = SplitMix(seed ^ ((bits as u64) << 40) ^ (res << 56) ^ 0xd15c);
    let small = primes_below(2000);
    let bits = bits.max(3);
    for _ in 0..1_000_000 {
        let mut x: Uint = r.bits::<16>(bits);
        x |= Uint::ONE << (bits - 1);
        if res == 4 {
            // 4m with m = 1 or 2 mod 4
            let m = ((x >> 4u32) << 2u32) | Uint::from(1 + (r.next() & 1));
            x = m << 2u32;
            if x.bits() != bits {
                continue;
            }
        } else {
            x = ((x >> 3u32) << 3u32) | Uint::from(res);
        }
        if bits < 16 || small.iter().skip(1).all(|&p| x.rem_small(p as u64) != 0) {
            return -Int::cast_from(x);
        }
    }
    -Int::from(7i64)
}

// ---------------------------------------------------------------------------
// independent model of the factor base (FBase::new)

/// Reference indices (into the prime table) of the primes p < 2^24 modulo which n is a
/// square (or zero), and which of them divide n; computed lazily up to `examined` primes.
pub struct FbModel {
    n_abs: Uint,
    neg: bool,
    examined: usize,
    qidx: Vec<u32>,
    zero: Vec<bool>,
}

impl FbModel {
    pub fn new(n: &Int) -> FbModel {
        FbModel {
            n_abs: n.unsigned_abs(),
            neg: n.is_negative(),
            examined: 0,
            qidx: vec![],
            zero: vec![],
        }
    }
    fn extend(&mut self, upto: usize, primes: &[u32]) {
        // 32-bit half limbs, most significant first
        let halves: Vec<u64> = self
            .n_abs
            .digits()
            .iter()
            .rev()
            .flat_map(|&d| [d >> 32, d & 0xffff_ffff])
            .skip_while(|&h| h == 0)
            .collect();
        while self.examined < upto {
            let i = self.examined;
            let p = primes[i] as u64;
            // n mod p by Horner over half limbs with a Barrett reciprocal (p < 2^24, x < 2^56)
            let m = u64::MAX / p;
            let mut r: u64 = 0;
            for &h in &halves {
                let x = (r << 32) | h;
                let q = ((x as u128 * m as u128) >> 64) as u64;
                let mut y = x - q * p;
                while y >= p {
                    y -= p;
                }
                r = y;
            }
            debug_assert_eq!(r, self.n_abs.rem_small(p));
            let z = r == 0;
            if self.neg && r != 0 {
                r = p - r;
            }
            let ok = p == 2 || z || jacobi64(r, p) == 1;
            if ok {
                self.qidx.push(i as u32);
                self.zero.push(z);
            }
            self.examined += 1;
        }
    }
    /// (len, bound, number of factor-base primes dividing n) of FBase::new(n, size);
    /// len = 0 means the library would build an empty base.
    pub fn fbase(&mut self, size: u32, primes: &[u32]) -> (usize, u32, usize) {
        let nlim = primes.partition_point(|&p| (p as u64) < FB_PRIME_LIMIT);
        let m = ((2 * size as u64 + 40) as usize).min(nlim);
        self.extend(m, primes);
        let avail = self.qidx.partition_point(|&i| (i as usize) < m);
        let len = 8 * ((size as usize + 7) / 8).min(avail / 8);
        if len == 0 {
            return (0, 0, 0);
        }
        let bound = primes[self.qidx[len - 1] as usize];
        let zeros = self.zero[..len].iter().filter(|&&z| z).count();
        (len, bound, zeros)
    }
}

fn fb_primes() -> std::sync::Arc<Vec<u32>> {
    ref_primes(FB_PRIME_LIMIT + 1)
}

// ---------------------------------------------------------------------------
// probes: what the consumer code does with an out-of-range parameter (read from its behaviour,
// so that the predicates follow a repair of the consumer as well as a repair of the tables)

/// How many candidate primes `siqs::select_a` can tell apart.  The sampler marks the chosen
/// candidates in an integer bit mask: with `pool` > mask width the candidates g and g+64 alias
/// (release) or the shift overflows (checked build).  Probe: a hand-built `Factors` with 100
/// candidates and 25 factors per A (the largest pool any size needs); the candidates are kept
/// apart iff some returned A contains both candidate g and candidate g+64.
pub fn select_a_capacity() -> usize {
    static CAP: std::sync::OnceLock<usize> = std::sync::OnceLock::new();
    *CAP.get_or_init(|| {
        let n = gen_n(100, 3, 0x9a5c);
        let nint = Int::cast_from(n);
        let r = catch(|| {
            let fb = FBase::new(nint, 400);
            let pool: Vec<_> = (1..fb.len()).filter(|&i| fb.r(i) != 0).take(100).map(|i| fb.prime(i)).collect();
            assert_eq!(pool.len(), 100, "probe fixture");
            let mut target = yamaquasi::arith::U256::ONE;
            for pr in &pool[38..63] {
                target *= yamaquasi::arith::U256::from(pr.p);
            }
            let f = siqs::Factors {
                n: nint,
                target,
                nfacs: 25,
                factors: pool.clone(),
                inverses: vec![],
            };
            let a_s = siqs::select_a(&f, 400, Verbosity::Silent);
            let both = |a: &Uint, g: usize| a.rem_small(pool[g].p) == 0 && a.rem_small(pool[g + 64].p) == 0;
            a_s.iter().any(|a| (0..36).any(|g| both(a, g)))
        });
        match r {
            Ok(true) => 100,
            // aliasing (release) or shift overflow (checked build)
            Ok(false) | Err(_) => 64,
        }
    })
}

/// Does `qsieve::qsieve` bound the large-prime limit it hands to the relation store?  Probe: a
/// 64-bit input with a huge user-supplied large_factor; the value that reaches `SieveQS::new`
/// is read through the recorder hook.
pub fn qs_clamps_maxlarge() -> bool {
    static CLAMP: std::sync::OnceLock<bool> = std::sync::OnceLock::new();
    *CLAMP.get_or_init(|| {
        let n = gen_n(64, 3, 0xc1a3);
        let mut prefs = abort_after(0);
        prefs.large_factor = Some(1 << 36);
        params::VERIF_STRATEGY.with(|r| *r.borrow_mut() = Some(vec![]));
        let _ = catch(|| qsieve::qsieve(n, 1, &prefs, None));
        let rows = params::VERIF_STRATEGY.with(|r| r.borrow_mut().take()).unwrap_or_default();
        match rows.iter().find(|r| r.0 == "qs.maxlarge") {
            Some(r) => r.2 < 1 << 32,
            None => false,
        }
    })
}

// ---------------------------------------------------------------------------
// params: one configuration

#[derive(Clone, Debug, Serialize, Deserialize, PartialEq, Eq, Hash)]
pub struct ParamCase {
    /// "qs" | "mpqs" | "siqs" | "clsgrp"
    pub variant: String,
    /// bit length of the integer the parameter functions see (n*k, or |D|)
    pub bits: u32,
    pub use_double: bool,
    /// n mod 8 (1, 5, 3) or |D| mod 8 (3, 7) / 4 for D = 4m
    pub res: u64,
    #[serde(with = "crate::ser::u64s")]
    pub seed: u64,
}

/// Everything derived for one configuration (also written to the evidence samples).
#[derive(Clone, Debug, Default, Serialize)]
pub struct Derived {
    pub refused: bool,
    pub fb: u32,
    pub fb_len: usize,
    pub fb_bound: u32,
    pub interval: u64,
    pub nfacs: u32,
    pub a_count: u64,
    pub lpf: u64,
    pub dlf: u64,
    pub maxlarge: u64,
    pub max_cofactor: u64,
    pub target: i64,
    pub a_bits_min: u32,
    pub mlog: u32,
}

fn fail(variant: &str, pred: &str, what: String) -> Fail {
    Fail::new(format!("{}|{}", variant, pred), what)
}

fn fail_d(variant: &str, pred: &str, detail: &str, what: String) -> Fail {
    Fail::new(format!("{}|{}", variant, pred), what).with_detail(detail)
}

/// Input class used in the signature of the 256-bit polynomial limit: the I256 coefficients of
/// siqs::Poly cannot hold A, B, C for inputs from 464 bits on (sqrt(2n)/M reaches 215 bits with a
/// 20-bit interval); the same assertion below that size would be a different defect.
fn size_class(bits: u32) -> &'static str {
    if bits >= 464 {
        "bits>=464"
    } else {
        "bits<464"
    }
}

/// Evaluate every predicate of one configuration; returns the derived values and all failures.
pub fn eval_params(c: &ParamCase, model: Option<&mut FbModel>) -> Result<(Derived, Vec<Fail>), Fail> {
    eval_params_opt(c, model, true)
}

/// `fb_level = false` stops after the parameter-level predicates.
pub fn eval_params_opt(c: &ParamCase, model: Option<&mut FbModel>, fb_level: bool) -> Result<(Derived, Vec<Fail>), Fail> {
    let mut fails = vec![];
    let mut d = Derived::default();
    let v = c.variant.as_str();
    let bits = c.bits;
    if !(1..=MAX_BITS + 8).contains(&bits) {
        return Err(Fail::new("HARNESS|out-of-domain", "bits outside 1..=528"));
    }
    let primes = fb_primes();
    let is_cls = v == "clsgrp";
    if is_cls && bits < 4 {
        // the smallest discriminants are -3, -4, -7, -8: nothing to derive below 4 bits
        return Ok((d, fails));
    }
    let (n, dint): (Uint, Int) = if is_cls {
        let dd = gen_d(bits, c.res, c.seed);
        (dd.unsigned_abs(), dd)
    } else {
        let n = gen_n(bits, c.res, c.seed);
        (n, Int::cast_from(n))
    };
    if n.bits() != bits.max(if is_cls { 3 } else { 1 }) {
        return Err(Fail::new("HARNESS|gen", format!("generated integer has {} bits, wanted {}", n.bits(), bits)));
    }
    let entry = format!("{}::params(bits={},double={})", v, bits, c.use_double);
    // ---- the parameter functions themselves (must be total)
    let (fb, interval, nfacs, a_count, a_tol, lpf, dlf): (u32, u64, u32, u64, u64, u64, u64) = match v {
        "siqs" => {
            let (fb, nf, ac, at, mm, lpf, dlf) = guard(&entry, || siqs::verif_params(&n, c.use_double))?;
            (fb, mm as u64, nf, ac as u64, at as u64, lpf, dlf)
        }
        "mpqs" => {
            let fb = guard(&entry, || params::mpqs_fb_size(bits, c.use_double))?;
            let (mm, lpf, dlf) = guard(&entry, || mpqs::verif_params(&n))?;
            if mm <= 0 {
                fails.push(fail(v, "interval-positive", format!("{}: mpqs_interval_size = {}", entry, mm)));
            }
            (fb, mm.max(0) as u64, 1, 1, 3, lpf, dlf)
        }
        "qs" => {
            let fb = guard(&entry, || params::qs_fb_size(bits, c.use_double))?;
            let lpf = guard(&entry, || qsieve::large_prime_factor(&n))?;
            // nblocks is a method of the sieve object (only sizes the consumer accepts)
            let mut mm = BLOCK;
            if (16..=QS_LIMIT).contains(&bits) {
                let nb = guard(&entry, || {
                    let tiny = FBase::new(Int::cast_from(n), 8);
                    qsieve::SieveQS::new(n, &tiny, 0, false).verif_nblocks()
                })?;
                if nb == 0 || nb as u64 * BLOCK >= 1 << 32 {
                    fails.push(fail(v, "nblocks-range", format!("{}: nblocks = {} (sieve.rs:557/570 compute block offsets in u32)", entry, nb)));
                }
                mm = nb as u64 * BLOCK;
            }
            (fb, mm, 1, 1, 3, lpf, 2)
        }
        "clsgrp" => {
            let bias = guard(&entry, || classgroup::verif_smoothness_bias(&dint))?;
            let adj = std::cmp::max(1, bits as i64 - (2.5 * bias).round() as i64) as u32;
            let fb = guard(&entry, || params::clsgrp_fb_size(adj, c.use_double))?;
            let ((ac, nf), mm, lpf) = guard(&entry, || classgroup::verif_params(adj))?;
            let dlf = guard(&entry, || classgroup::verif_double_large_factor(&dint))?;
            (fb, mm as u64, nf, ac as u64, 3, lpf, dlf)
        }
        _ => return Err(Fail::new("HARNESS|variant", v.to_string())),
    };
    d.fb = fb;
    d.interval = interval;
    d.nfacs = nfacs;
    d.a_count = a_count;
    d.lpf = lpf;
    d.dlf = dlf;
    // the consumer refuses these sizes up front (explicit early return): nothing is consumed
    if (v == "qs" && bits > QS_LIMIT) || (v == "mpqs" && bits > MPQS_LIMIT) || (v == "siqs" && bits > SIQS_LIMIT) {
        d.refused = true;
        return Ok((d, fails));
    }
    // ---- factor base size: FBase::new(n, fb) calls primes(2*fb+40) whose size estimate is
    // computed in u32 (fbase.rs:328) and takes the first 8*ceil(fb/8) usable primes
    if fb == 0 {
        fails.push(fail(v, "fb-positive", format!("{}: factor base size 0 (FBase::bound() unwraps the last prime)", entry)));
    }
    let k = 2 * fb as u64 + 40;
    if k * bits64(k) as u64 >= 1 << 32 {
        fails.push(fail(
            v,
            "fb-fits-prime-table-estimate",
            format!("{}: primes({}) computes {}*{} in u32 (fbase.rs:328)", entry, k, k, bits64(k)),
        ));
    }
    // ---- interval: positive multiple of the block size; block offsets are computed in u32
    // (sieve.rs:557 checked_mul, sieve.rs:570) and start offsets are cast to i32
    if v != "qs" {
        if interval == 0 || interval % BLOCK != 0 {
            fails.push(fail(
                v,
                "interval-multiple-of-block",
                format!("{}: interval {} is not a positive multiple of {}", entry, interval, BLOCK),
            ));
        } else if interval >= 1 << 32 || interval / 2 >= 1 << 31 {
            fails.push(fail(v, "interval-fits-u32", format!("{}: interval {} does not fit the u32 block arithmetic", entry, interval)));
        }
    }
    // ---- A values (SIQS, class group)
    if v == "siqs" || is_cls {
        if v == "siqs" && nfacs == 0 {
            fails.push(fail(v, "nfactors-positive", format!("{}: nfactors = 0 (siqs.rs:78 computes 1 << (nfacs - 1))", entry)));
        }
        if nfacs >= 1 && nfacs - 1 >= usize::BITS {
            fails.push(fail(v, "nfactors-shift", format!("{}: 1 << ({} - 1) overflows usize", entry, nfacs)));
        }
        if a_count == 0 {
            fails.push(fail(v, "a-count-positive", format!("{}: 0 values of A requested (select_a computes iters % (100 * want))", entry)));
        }
        if a_tol < 3 {
            fails.push(fail(v, "a-tolerance", format!("{}: a_tolerance_divisor = {} (select_a asserts div >= 3)", entry, a_tol)));
        }
    }
    if lpf == 0 {
        fails.push(fail(v, "large-prime-factor-positive", format!("{}: large prime factor 0", entry)));
    }
    // maxprime < 2^24, so maxprime^2 * D fits u64 iff D < 2^16 ("B1*B2 must not exceed 2^16", siqs.rs:455)
    if (c.use_double || v == "mpqs") && v != "qs" && dlf >= 1 << 16 {
        fails.push(fail(v, "double-large-factor-fits", format!("{}: double_large_factor {} >= 2^16: maxprime^2 * D can exceed u64", entry, dlf)));
    }
    if bits < 16 || !fb_level {
        // below 211^2 no consumer is reachable: only the parameter functions are exercised
        return Ok((d, fails));
    }
    // ---- factor-base level predicates (independent model of FBase::new)
    let mut own;
    let model = match model {
        Some(m) => m,
        None => {
            own = FbModel::new(&if is_cls && n.digits()[0] & 3 == 0 { dint >> 2u32 } else { dint });
            &mut own
        }
    };
    let (len, bound, zeros) = model.fbase(fb.max(1), &primes);
    d.fb_len = len;
    d.fb_bound = bound;
    if len < 8 {
        fails.push(fail(v, "fb-nonempty", format!("{}: FBase::new(n, {}) keeps {} primes", entry, fb, len)));
        return Ok((d, fails));
    }
    let maxprime = bound as u64;
    let mm = interval;
    // the integer the sieve works on: n, or D/4 for D = 0 mod 4 (classgroup.rs:73)
    let n_sieve: Uint = if is_cls && n.digits()[0] & 3 == 0 { n >> 2u32 } else { n };
    // siqs::polytype: type 2 iff the signed value is 1 mod 4
    let type2 = if is_cls { n_sieve.digits()[0] % 4 == 3 } else { n.digits()[0] % 4 == 1 };
    match v {
        "qs" => {
            // qsieve.rs:68 does not clamp; relations.rs:284/291 assert that every large prime
            // fits in 32 bits and fbase.rs:532 squares maxlarge in u64
            let maxlarge = if qs_clamps_maxlarge() { (maxprime * lpf).min((1 << 32) - 1) } else { maxprime * lpf };
            d.maxlarge = maxlarge;
            if maxlarge > 1 << 32 {
                fails.push(fail(
                    v,
                    "maxlarge-fits-u32",
                    format!(
                        "{}: maxlarge = {} * {} = {} exceeds 2^32 and qsieve() passes it on unbounded (probe): RelationSet::add asserts \
                         p >> 32 == 0 for a partial relation with cofactor below maxlarge (relations.rs:284) and cofactor() computes \
                         maxlarge*maxlarge in u64 (fbase.rs:532)",
                        entry, maxprime, lpf, maxlarge
                    ),
                ));
            }
            let max_cof: u128 = if c.use_double {
                maxlarge as u128 * maxprime as u128 * 2
            } else if maxlarge > maxprime {
                maxlarge as u128
            } else {
                1
            };
            if max_cof >= 1 << 64 {
                fails.push(fail(v, "max-cofactor-fits-u64", format!("{}: maxlarge*maxprime*2 = {} overflows u64 (qsieve.rs:414)", entry, max_cof)));
            } else {
                d.max_cofactor = max_cof as u64;
                let only_odds = n.digits()[0] % 8 == 1;
                let magnitude = bits64(BLOCK) + only_odds as u32;
                let t = (bits / 2 + magnitude) as i64 - bits64(max_cof as u64) as i64;
                d.target = t;
                if !(1..256).contains(&t) {
                    fails.push(fail(v, "sieve-target-range", format!("{}: first-block threshold {} outside 1..=255 (qsieve.rs:425-427)", entry, t)));
                }
            }
        }
        "mpqs" => {
            let mut maxlarge = (maxprime * lpf).min(u32::MAX as u64);
            if c.use_double && maxlarge < 2 * maxprime {
                maxlarge = 2 * maxprime;
            }
            d.maxlarge = maxlarge;
            if maxlarge > u32::MAX as u64 {
                fails.push(fail(v, "maxlarge-fits-u32", format!("{}: maxlarge {} (mpqs.rs:707 asserts 32 bits)", entry, maxlarge)));
            }
            let max_cof = if c.use_double {
                maxprime * maxprime * dlf.min(1 << 16)
            } else if maxlarge > maxprime {
                maxlarge
            } else {
                1
            };
            d.max_cofactor = max_cof;
            let t = (bits / 2 + bits64(mm / 2)) as i64 - bits64(max_cof) as i64;
            d.target = t;
            if !(1..256).contains(&t) {
                fails.push(fail(v, "sieve-target-range", format!("{}: threshold {} outside 1..=255 (mpqs.rs:719 u32 subtraction, `as u8`)", entry, t)));
            }
            // D values: mpqs.rs:75 asserts d_target.bits() < 127
            let a_target = (if n.digits()[0] % 4 == 1 { ref_isqrt(&(n >> 1u32)) } else { ref_isqrt(&(n << 1u32)) }) / Uint::from((mm / 2).max(1));
            let d_target = ref_isqrt(&a_target).max(Uint::from(3u64));
            if d_target.bits() >= 127 {
                fails.push(fail(v, "d-target-fits", format!("{}: d_target has {} bits (mpqs.rs:75 asserts < 127)", entry, d_target.bits())));
            }
        }
        _ => {
            // siqs / clsgrp share SieveSIQS, select_siqs_factors, select_a, prepare_a, Poly
            let maxlarge = (maxprime * lpf).min((1 << 32) - 1);
            d.maxlarge = maxlarge;
            let maxdouble = if c.use_double { maxprime * maxprime * dlf.min(1 << 16) } else { 0 };
            let max_cof = if maxdouble > maxprime * maxprime {
                maxdouble
            } else if maxlarge > maxprime {
                maxlarge
            } else {
                1
            };
            d.max_cofactor = max_cof;
            let msize = if type2 { mm / 4 } else { mm / 2 };
            let t = (bits / 2 + bits64(msize)) as i64 - bits64(max_cof) as i64;
            d.target = t;
            if !(1..256).contains(&t) {
                fails.push(fail(
                    v,
                    "sieve-target-range",
                    format!("{}: threshold {} outside 1..=255 (siqs.rs:1381 / classgroup.rs:408: u32 subtraction, then `as u8`; smooths() computes threshold - 1)", entry, t),
                ));
            }
            if nfacs > 0 {
                // the pool of A factors: select_siqs_factors asserts more than nfacs candidates
                if len - 1 - zeros.min(len - 1) <= nfacs as usize {
                    fails.push(fail(v, "a-factor-pool", format!("{}: factor base of {} primes cannot supply more than {} factors of A (siqs.rs:613)", entry, len, nfacs)));
                }
                // A is about sqrt(2n)/M (type 1) or sqrt(n/2)/M (type 2), never below 2000
                let root = if type2 { ref_isqrt(&(n_sieve >> 1u32)) } else { ref_isqrt(&(n_sieve << 1u32)) };
                let tgt = (root / Uint::from((mm / 2).max(1))).max(Uint::from(2000u64));
                let amin = tgt - tgt / Uint::from(a_tol.max(3));
                let mlog = bits64(mm);
                d.a_bits_min = amin.bits();
                d.mlog = mlog;
                // siqs.rs:632 target.bits() < 256; siqs.rs:849 a.bits() < 255; siqs.rs:1258 a.bits() + 2*mlog < 255
                if amin.bits() + 2 * mlog >= 255 {
                    fails.push(fail_d(
                        v,
                        "a-fits-256-bit-polynomial",
                        size_class(bits),
                        format!(
                            "{}: every admissible A has at least {} bits and the interval {} has mlog = {}: a.bits() + 2*mlog >= 255 \
                             (assertion siqs.rs:1258; polynomial coefficients are I256)",
                            entry,
                            amin.bits(),
                            mm,
                            mlog
                        ),
                    ));
                }
                // select_a samples subsets of the 4*nfacs candidates with a u64 bit mask (siqs.rs:802-826)
                let exhaustive = nfacs <= 5 && tgt.bits() <= 66;
                let pool = (4 * nfacs as usize).min(len - 1);
                let capacity = select_a_capacity();
                if !exhaustive && pool > capacity {
                    fails.push(fail(
                        v,
                        "a-factor-pool-fits-mask",
                        format!(
                            "{}: {} factors per A give a pool of {} candidate primes but select_a can only tell {} apart (probe: its bit mask \
                             aliases candidate g with g+64 in release builds and the shift 1 << g overflows in checked builds, siqs.rs:802-826)",
                            entry, nfacs, pool, capacity
                        ),
                    ));
                }
                if is_cls && exhaustive {
                    // classgroup.rs:113 asserts a_ints.len() >= a_count; the exhaustive branch of
                    // select_a yields at most C(pool, nfacs) products
                    let mut comb: u128 = 1;
                    for i in 0..nfacs as u128 {
                        comb = comb * (pool as u128 - i) / (i + 1);
                    }
                    if comb < a_count as u128 {
                        fails.push(fail(v, "a-count-available", format!("{}: {} values of A wanted but only C({},{}) = {} products exist (classgroup.rs:113)", entry, a_count, pool, nfacs, comb)));
                    }
                }
            } else if is_cls && bits >= 128 {
                fails.push(fail(v, "unit-form-size", format!("{}: unit polynomial requires |D| < 2^128 (siqs.rs:1055)", entry)));
            }
        }
    }
    Ok((d, fails))
}

pub fn check_params(c: &ParamCase, l: &mut Local) -> Result<(), Fail> {
    l.case();
    let (_, fails) = eval_params(c, None)?;
    match fails.into_iter().next() {
        Some(f) => Err(f),
        None => Ok(()),
    }
}

/// Breakpoints of the piecewise formulas (collected from the match arms and tables by reading;
/// only used for the non-trivial label, the enumeration itself is complete).
const BREAKPOINTS: &[u32] = &[
    16, 32, 48, 50, 64, 70, 71, 72, 80, 89, 90, 92, 96, 100, 110, 119, 120, 128, 129, 130, 138, 140, 149, 150, 160, 169, 170, 180,
    189, 190, 199, 200, 209, 210, 219, 220, 229, 230, 240, 250, 255, 256, 259, 260, 270, 280, 289, 290, 300, 310, 319, 320, 330,
    340, 350, 360, 380, 390, 400, 425, 448, 450, 475, 500, 512,
];

fn near_breakpoint(bits: u32) -> bool {
    BREAKPOINTS.iter().any(|&b| bits.abs_diff(b) <= 1)
}

// ---------------------------------------------------------------------------
// stage 2 tables

#[derive(Clone, Debug, Serialize, Deserialize)]
pub struct Stage2Case {
    /// "ecm" (params::stage2_params: ECM, ecm128, P+1) or "pm1" (pollard_pm1 table)
    pub table: String,
    pub b2: f64,
}

fn phi(mut n: u64) -> u64 {
    let mut r = n;
    let mut p = 2;
    while p * p <= n {
        if n % p == 0 {
            while n % p == 0 {
                n /= p;
            }
            r -= r / p;
        }
        p += 1;
    }
    if n > 1 {
        r -= r / n;
    }
    r
}

fn stage2_row_fails(table: &str, row: (f64, u64, u64), ntt_primes: usize) -> Vec<Fail> {
    let (b2, d1, d2) = row;
    let mut f = vec![];
    let who = format!("{} row ({:e}, {}, {})", table, b2, d1, d2);
    let t = format!("stage2.{}", table);
    if !(b2.is_finite() && b2 > 0.0) {
        f.push(fail(&t, "b2-positive", format!("{}: label not a positive number", who)));
    }
    if d1 % 6 != 0 {
        f.push(fail(&t, "d1-multiple-of-6", format!("{}: d1 % 6 != 0 (asserted at pollard_pm1.rs:627 / pp1.rs:146)", who)));
    }
    if d1 < 4 || d1 >= 1 << 31 {
        f.push(fail(&t, "d1-range", format!("{}: d1 outside [4, 2^31) (baby steps b < d1/2 start at 1; capacities are usize casts)", who)));
    }
    if d2 < 2 {
        f.push(fail(&t, "d2-at-least-2", format!("{}: the giant steps push two points before the loop 2..d2", who)));
    }
    let ph = phi(d1.max(1));
    if table == "pm1" {
        if d2 & (d2.wrapping_sub(1)) != 0 || d2 == 0 {
            f.push(fail(&t, "d2-power-of-two", format!("{}: d2 is not a power of two (asserted at pollard_pm1.rs:682, NTT size)", who)));
        } else {
            // PolyRing::new(zn, d2/2) must enable the NTT (mzp().unwrap(), pollard_pm1.rs:689)
            if d2 / 2 < 28 {
                f.push(fail(&t, "d2-above-fft-threshold", format!("{}: d2/2 < FFT_THRESHOLD = 28: znx.mzp() is None", who)));
            }
            // p = from_roots(bsteps) has phi(d1)+2 coefficients, multiplied by negsteps[i], i < d2
            if ph + 2 > d2 {
                f.push(fail(&t, "phi-d1-fits-d2", format!("{}: phi(d1)+2 = {} coefficients but only {} giant steps (pollard_pm1.rs:691-697)", who, ph + 2, d2)));
            }
            let k = d2.trailing_zeros();
            // MultiZmodP::new(zn, k): roots of order 2^k from an element of order 2^32; w NTT primes
            if k > 32 {
                f.push(fail(&t, "ntt-order", format!("{}: transform size 2^{} exceeds the 2^32 roots of unity", who, k)));
            }
            let w = (2 * 512 + k as usize) / 58 + 1;
            if w > ntt_primes {
                f.push(fail(&t, "ntt-primes", format!("{}: a 512-bit modulus needs {} NTT primes, {} available", who, w, ntt_primes)));
            }
        }
    } else {
        // ecm.rs / ecm128.rs / pp1.rs: baby steps are the residues b < d1/2 coprime to d1; the gap
        // table is indexed by gap/2 - 1, so all gaps must be even (d1 even) and b = 1 is first
        if d1 % 2 != 0 {
            f.push(fail(&t, "d1-even", format!("{}: odd d1 gives odd gaps between baby steps (gaps[gap/2 - 1])", who)));
        }
        // polyeval path (d1 >= 4000 in ecm.rs, always in pp1.rs): roots_eval builds a PolyRing for
        // phi(d1)/2 points: transform size and NTT prime count as above
        let pts = (ph / 2).max(1);
        let logsize = 64 - (pts as u64 - 1).leading_zeros() + 1;
        if logsize > 32 {
            f.push(fail(&t, "ntt-order", format!("{}: {} baby steps need a 2^{} transform", who, pts, logsize)));
        }
        let w = (2 * 512 + logsize as usize) / 58 + 1;
        if w > ntt_primes {
            f.push(fail(&t, "ntt-primes", format!("{}: needs {} NTT primes, {} available", who, w, ntt_primes)));
        }
    }
    f
}

fn nearest_rows(table: &[(f64, u64, u64)], b2: f64) -> Vec<(f64, u64, u64)> {
    let best = table.iter().map(|r| (r.0 - b2).abs()).fold(f64::INFINITY, f64::min);
    table.iter().copied().filter(|r| (r.0 - b2).abs() == best).collect()
}

pub fn check_stage2(c: &Stage2Case, l: &mut Local) -> Result<(), Fail> {
    if !(c.b2.is_finite() && c.b2 >= 0.0) {
        return Err(Fail::new("HARNESS|out-of-domain", "b2 must be a non-negative finite number"));
    }
    l.case();
    let ntt = arith_fft::verif_ntt_primes().len();
    let (table, row): (&[(f64, u64, u64)], (f64, u64, u64)) = match c.table.as_str() {
        "ecm" => (params::verif_stage2_table(), guard("params::stage2_params", || params::stage2_params(c.b2))?),
        "pm1" => (
            pollard_pm1::verif_stage2_table(),
            guard("pollard_pm1::stage2_params", || pollard_pm1::verif_stage2_params(c.b2))?,
        ),
        _ => return Err(Fail::new("HARNESS|table", c.table.clone())),
    };
    let t = format!("stage2.{}", c.table);
    // nearest-row selection: the answer is a row of the table at minimal distance
    let near = nearest_rows(table, c.b2);
    if !near.contains(&row) {
        return Err(fail(&t, "nearest-row", format!("b2 = {:e} selects {:?}, nearest rows are {:?}", c.b2, row, near)));
    }
    if let Some(f) = stage2_row_fails(&c.table, row, ntt).into_iter().next() {
        return Err(f);
    }
    if table.iter().any(|r| r.0 == c.b2) {
        l.label(&format!("stage2:{}:row", c.table));
        l.nontrivial_of(&("stage2", c.table.as_str(), c.b2.to_bits()));
    }
    Ok(())
}

/// Every B2 that is hard-wired in a strategy (read from the sources).
const HARDWIRED_B2: &[f64] = &[
    660., 1080., 1920., 3e3, 7.7e3, 13.2e3, 20e3, 53e3, 81e3, 181e3, 554e3, 7700., 3000., 80e3, 126e3, 1.37e6, 19e6, 38e6, 2.6e9,
    32e9, 81e3, 156e6, 10e9, 136e9, 1500e9, 49e12, 40e3, 270e3, 8e6, 300e6, 1.2e9, 5e9, 18e9, 150e9, 2.5e12, 22e12, 450e3, 8e9,
    640e9, 1.4e12, 5e12, 10e12, 22.5e12,
];

// ---------------------------------------------------------------------------
// convolution dispatch

#[derive(Clone, Debug, Serialize, Deserialize)]
pub struct DispatchCase {
    pub bits: u32,
    pub logsize: u32,
}

fn odd_modulus(bits: u32) -> Uint {
    // 2^bits - c, odd, exactly `bits` bits
    if bits <= 6 {
        return (Uint::ONE << bits.max(2)) - Uint::ONE;
    }
    (Uint::ONE << bits) - Uint::from(17u64)
}

pub fn check_dispatch(c: &DispatchCase, l: &mut Local) -> Result<(), Fail> {
    if !(2..=500).contains(&c.bits) || !(1..=19).contains(&c.logsize) {
        return Err(Fail::new("HARNESS|out-of-domain", "bits in 2..=500, logsize in 1..=19"));
    }
    l.case();
    let n = odd_modulus(c.bits);
    let size = 1usize << c.logsize;
    let zn = ZmodN::new(n);
    // worst-case magnitudes: every input word pattern is n-1 (as stored representative), both
    // operands have size/2 coefficients (no wrap-around: 2*(size/2) - 1 <= size)
    let len = (size / 2).max(1);
    let big = {
        let mut m = MInt::default();
        m.0.copy_from_slice(&(n - Uint::ONE).digits()[..8]);
        m
    };
    let p1 = vec![big; len];
    let p2 = vec![big; len];
    // read the coefficients around the peak (index len-1 has `len` terms) and both ends
    let offset = len.saturating_sub(4);
    let mut res = vec![MInt::default(); 8.min(2 * len - 1 - offset)];
    let entry = format!("convolve_modn(bits={},size={})", c.bits, size);
    arith_fft::VERIF_DISPATCH.with(|r| *r.borrow_mut() = Some(vec![]));
    let out = guard(&entry, || arith_fft::convolve_modn(&zn, size, &p1, &p2, &mut res, offset));
    let rec = arith_fft::VERIF_DISPATCH.with(|r| r.borrow_mut().take()).unwrap_or_default();
    let t = "convolve_modn";
    if let Err(f) = out {
        // the table has no row for this (bits, size): documented domain is bits <= 500, size <= 2^19
        return Err(fail(t, "dispatch-panic", format!("{}: {}", entry, f.what)));
    }
    let Some(&(rbits, rsize, fsize, logpack, stride)) = rec.first() else {
        return Err(Fail::new("HARNESS|recorder", "dispatch recorder hook recorded nothing"));
    };
    if rbits != c.bits || rsize != size {
        return Err(Fail::new("HARNESS|recorder", "dispatch recorder saw other arguments"));
    }
    l.label(&format!("dispatch:F{}:A={}", fsize, 1u32 << logpack));
    let nw = fsize / 64; // words of an FFT element
    let a = 1usize << logpack;
    let who = format!("{} -> (F{}, A={}, stride={})", entry, fsize, a, stride);
    // element count: mulfft asserts l <= 256*N and l a power of two
    let elems = size >> logpack;
    if elems == 0 || elems > 256 * nw {
        return Err(fail(t, "transform-size-fits-roots", format!("{}: {} elements, F{} has roots of unity for at most {}", who, elems, fsize, 256 * nw)));
    }
    let need_bits = 2 * c.bits as usize + c.logsize as usize;
    if stride == 0 {
        if logpack != 0 {
            return Err(fail(t, "stride-zero-means-unpacked", format!("{}: stride 0 with packing", who)));
        }
        if need_bits > 64 * nw {
            return Err(fail(t, "coefficient-fits-element", format!("{}: coefficients need {} bits, element has {}", who, need_bits, 64 * nw)));
        }
        if nw > 16 {
            return Err(fail(t, "unpacked-copy-16-words", format!("{}: the unpacked path copies exactly 16 words (arith_fft.rs:178-179)", who)));
        }
    } else {
        // an output element holds 2A-1 coefficients of `stride` words
        if (2 * a - 1) * stride > nw {
            return Err(fail(t, "packed-slots-fit-element", format!("{}: (2A-1)*stride = {} words > {}", who, (2 * a - 1) * stride, nw)));
        }
        if need_bits > 64 * stride {
            return Err(fail(t, "coefficient-fits-slot", format!("{}: a result coefficient needs {} bits, a slot has {}", who, need_bits, 64 * stride)));
        }
        // inputs are copied as 8-word MInt at stride*j: the last one must stay inside the element
        if stride * (a - 1) + 8 > nw {
            return Err(fail(t, "input-copy-fits-element", format!("{}: input {} of a pack is copied to words {}..{} of {}", who, a - 1, stride * (a - 1), stride * (a - 1) + 8, nw)));
        }
        // redc_large takes fewer than 24 words
        if stride >= 24 {
            return Err(fail(t, "slot-fits-redc-large", format!("{}: redc_large requires fewer than 24 words", who)));
        }
    }
    // validation against the consumer: the convolution of two constant polynomials with
    // representative n-1 is (number of terms) * (n-1)^2 (in the Montgomery domain)
    let v = zn.to_int(big);
    let v2 = crate::oracle::int::mulmod(&v, &v, &n);
    for (i, r) in res.iter().enumerate() {
        let k = offset + i;
        let terms = (k + 1).min(2 * len - 1 - k) as u64;
        let want = crate::oracle::int::mulmod(&v2, &(Uint::from(terms) % n), &n);
        let got = zn.to_int(*r);
        if got != want {
            return Err(fail(
                t,
                "worst-case-product",
                format!("{}: coefficient {} of (n-1, …)^2 with {} terms is {} instead of {}", who, k, terms, got, want),
            ));
        }
    }
    if c.logsize >= 12 {
        l.nontrivial_of(&("dispatch", c.bits, c.logsize));
    }
    Ok(())
}

// ---------------------------------------------------------------------------
// strategy rows

#[derive(Clone, Debug, Serialize, Deserialize)]
pub struct StrategyCase {
    /// "ecm_auto" | "ecm_only" | "ecm128" | "ecm128_harder" | "pm1_quick" | "pm1_only"
    pub kind: String,
    pub bits: u32,
}

fn silent_prefs(abort: bool) -> Preferences {
    let mut p = Preferences::default();
    p.verbosity = Verbosity::Silent;
    if abort {
        p.should_abort = Some(Box::new(|| true));
    }
    p
}

/// Read the rows a strategy uses for an input of `bits` bits.  The consumers are entered with
/// an input that makes them stop right after the recorder line (an even modulus is rejected by
/// ZmodN::new; ECM curves observe the abort flag), so reading the table costs nothing.
fn strategy_rows(kind: &str, bits: u32) -> Result<Vec<(&'static str, u64, u64, f64)>, Fail> {
    let odd = gen_n(bits.max(16), 3, 0x57a7);
    let even = Uint::ONE << (bits - 1);
    params::VERIF_STRATEGY.with(|r| *r.borrow_mut() = Some(vec![]));
    let r = match kind {
        "ecm_auto" => catch(|| {
            let _ = ecm::ecm_auto(odd, &silent_prefs(true), None);
        }),
        "ecm_only" => catch(|| {
            let _ = ecm::ecm_only(odd, &silent_prefs(true), None);
        }),
        "ecm128" => catch(|| {
            let _ = ecm128::ecm128(even, false, &silent_prefs(false));
        }),
        "ecm128_harder" => catch(|| {
            let _ = ecm128::ecm128(even, true, &silent_prefs(false));
        }),
        "pm1_quick" => catch(|| {
            let _ = pollard_pm1::pm1_quick(&even, Verbosity::Silent);
        }),
        "pm1_only" => catch(|| {
            let _ = pollard_pm1::pm1_only(&even, Verbosity::Silent);
        }),
        _ => return Err(Fail::new("HARNESS|kind", kind.to_string())),
    };
    let rows = params::VERIF_STRATEGY.with(|r| r.borrow_mut().take()).unwrap_or_default();
    if let Err(p) = r {
        // expected: the even fixture is rejected by ZmodN::new (arith_montgomery.rs assert n odd)
        let expected = !kind.starts_with("ecm_") && p.msg.contains("n.bit(0)");
        if !expected {
            return Err(Fail::new(
                format!("strategy.{}|panic@{}", kind, p.short_loc()),
                format!("{}(bits={}) panicked at {}: {}", kind, bits, p.loc, p.msg),
            ));
        }
    }
    Ok(rows)
}

pub fn check_strategy(c: &StrategyCase, l: &mut Local) -> Result<(), Fail> {
    let maxbits = if c.kind.starts_with("ecm128") { 128 } else { 512 };
    // n = 1 never reaches a strategy (factor_impl returns first): start at 2 bits
    if c.bits < 2 || c.bits > maxbits {
        return Err(Fail::new("HARNESS|out-of-domain", "bits outside the strategy's domain"));
    }
    l.case();
    let rows = strategy_rows(&c.kind, c.bits)?;
    let t = format!("strategy.{}", c.kind);
    if rows.is_empty() {
        // ecm128 documents a single unsupported range ("Only numbers below 128 bits are supported") and its
        // callers (factor_impl below 80 bits with try_harder, the sieves' cofactor splitting) take None for
        // "no factor found": a size inside 2..=128 bits for which no (curves, B1, B2) row is selected at all
        // means zero curves are run, i.e. the derived curve count is not positive.  The other strategies
        // legitimately skip small sizes (ecm_auto, pm1_quick).
        if c.kind.starts_with("ecm128") {
            return Err(fail(&t, "row-for-every-size", format!("{}(bits={}) selects no (curves, B1, B2) row: no curve is run", c.kind, c.bits)));
        }
        l.label(&format!("strategy:{}:no-row", c.kind));
        return Ok(());
    }
    l.label(&format!("strategy:{}:rows", c.kind));
    let ecm_tab = params::verif_stage2_table();
    for &(who, curves, b1, b2) in &rows {
        let w = format!("{}(bits={}) -> {}(curves={}, B1={}, B2={:e})", c.kind, c.bits, who, curves, b1, b2);
        if curves == 0 {
            return Err(fail(&t, "curves-positive", format!("{}: zero curves", w)));
        }
        // pm1_impl / pp1 assert b1 > 3; SmoothBase::new and pm1_impl cast B1 to u32
        if b1 <= 3 {
            return Err(fail(&t, "b1-above-3", format!("{}: B1 <= 3 (asserted at pollard_pm1.rs:263)", w)));
        }
        if b1 >= 1 << 32 {
            return Err(fail(&t, "b1-fits-u32", format!("{}: B1 does not fit u32 (ecm.rs:516/528, pollard_pm1.rs:325)", w)));
        }
        if !(b2.is_finite() && b2 > 0.0) {
            return Err(fail(&t, "b2-positive", format!("{}: B2 not positive", w)));
        }
        match who {
            "pm1" => {
                // plain stage 2 below the multi-evaluation threshold compares primes with b2 as u32
                if b2 <= pollard_pm1::verif_multieval_threshold() && b2 >= 4294967296.0 {
                    return Err(fail(&t, "b2-fits-u32", format!("{}: plain stage 2 casts B2 to u32", w)));
                }
            }
            "ecm128" => {
                // ecm128::ecm_curve only has the quadratic stage 2: d2 * phi(d1)/2 products per curve
                let (_, d1, d2) = params::stage2_params(b2);
                l.label(if d1 < 4000 { "strategy:ecm128:quadratic-row" } else { "strategy:ecm128:polyeval-sized-row" });
                let _ = d2;
            }
            _ => {
                let (_, d1, _) = params::stage2_params(b2);
                l.label(if d1 < 4000 { "strategy:ecm:quadratic-row" } else { "strategy:ecm:polyeval-row" });
            }
        }
        let _ = ecm_tab;
    }
    l.nontrivial_of(&("strategy", c.kind.as_str(), c.bits));
    l.sample(&format!("strategy:{}", c.kind), || json!({"kind": c.kind, "bits": c.bits, "rows": rows.iter().map(|r| json!([r.0, r.1, r.2, r.3])).collect::<Vec<_>>()}));
    Ok(())
}

// ---------------------------------------------------------------------------
// consumer starts (validation of the predicates against the real code)

#[derive(Clone, Debug, Serialize, Deserialize)]
pub struct ConsumerCase {
    /// "qs" | "mpqs" | "siqs" | "clsgrp" | "fbase" | "stage2.pm1" | "stage2.ecm" | "stage2.pp1" | "qs-relset"
    pub what: String,
    pub bits: u32,
    pub use_double: bool,
    pub res: u64,
    #[serde(with = "crate::ser::u64s")]
    pub seed: u64,
    /// stage-2 rows: the requested b2
    #[serde(default)]
    pub b2: f64,
}

fn abort_after(calls: usize) -> Preferences {
    let mut p = Preferences::default();
    p.verbosity = Verbosity::Silent;
    let cnt = std::sync::atomic::AtomicUsize::new(0);
    p.should_abort = Some(Box::new(move || cnt.fetch_add(1, std::sync::atomic::Ordering::SeqCst) >= calls));
    p
}

/// In the checked build (debug assertions + overflow checks) the sieves themselves are not
/// run by this property: their debug assertions guard polynomial and sieve invariants (C12,
/// C13) and totality (C03) — e.g. `debug_assert!(o1 != o2)` in Sieve::new for a factor-base
/// prime with a double root, or the overflowing `x * x` inside a debug_assert of
/// mpqs::sieve_block_poly — and say nothing about the parameter tables.  What the checked
/// build adds for C20 is integer overflow in the parameter arithmetic and in the selection of
/// A (shifts, multiplications), which runs in both profiles.
fn checked_build() -> bool {
    cfg!(debug_assertions)
}

/// Like engine::guard, but the class names the panic message (digits collapsed) and the
/// source file instead of the line number, so that signatures survive unrelated edits.
fn guard_msg<T>(entry: &str, f: impl FnOnce() -> T) -> Result<T, Fail> {
    catch(f).map_err(|p| panic_fail(entry, &p))
}

fn panic_fail(entry: &str, p: &crate::engine::PanicInfo) -> Fail {
    let loc = p.short_loc();
    let file = loc.rsplit_once(':').map(|x| x.0).unwrap_or(&loc).to_string();
    let mut msg: String = p.msg_class().chars().take(70).collect();
    msg = msg.replace('|', "/");
    Fail::new(
        format!("{}|panic@{}|{}", entry, file, msg.trim()),
        format!("{} panicked at {}: {}", entry, p.loc, crate::engine::truncate(&p.msg, 300)),
    )
}

/// Derived values so far outside anything the consumers were written for that starting them
/// can only hang or exhaust memory (they are reported by the `params` predicates already):
/// keeps a run on a broken table from turning inconclusive.
fn wild(nfacs: u32, a_count: u64, interval: u64, fb: u32) -> bool {
    nfacs > 32 || a_count > 2_000_000 || interval > 1 << 27 || fb > 1 << 25
}

fn with_size_class<T>(bits: u32, r: Result<T, Fail>) -> Result<T, Fail> {
    r.map_err(|f| if f.class.contains("a.a.bits() + # * mlog < #") { f.with_detail(size_class(bits)) } else { f })
}

/// Run a sieve; a panic inside the final step (linear algebra / square roots: relations.rs
/// from `final_step` on, matrix/*) does not concern the parameter tables — those are totality
/// defects owned by C03 — and is only counted.
fn run_sieve<T>(entry: &str, l: &mut Local, f: impl FnOnce() -> T) -> Result<Option<T>, Fail> {
    match catch(f) {
        Ok(v) => Ok(Some(v)),
        Err(p) => {
            let loc = p.short_loc();
            let final_step = loc.starts_with("src/matrix/")
                || loc
                    .strip_prefix("src/relations.rs:")
                    .and_then(|s| s.parse::<u32>().ok())
                    .map(|line| line >= 527)
                    .unwrap_or(false);
            if final_step {
                l.label("consumer:final-step-panic(not-a-parameter-matter)");
                Ok(None)
            } else if p.msg.contains("not enough smooth numbers with selected parameters") {
                // the sieve ran out of polynomials: a matter of tuning (observed for forced
                // use_double on inputs below ~110 bits), not of the structural requirements
                // the property lists; counted, not flagged
                l.label("consumer:ran-out-of-polynomials(tuning)");
                Ok(None)
            } else {
                Err(panic_fail(entry, &p))
            }
        }
    }
}

/// The allowed ways for a complete class-group run to give no result (DESIGN C18/C19).
fn allowed_cls_panic(msg: &str) -> bool {
    msg.contains("failed to determine lattice index") || msg.contains("not enough polynomials")
}

pub fn check_consumer(c: &ConsumerCase, l: &mut Local) -> Result<(), Fail> {
    l.case();
    let primes = fb_primes();
    let w = c.what.as_str();
    let tag = format!("consumer.{}", w);
    let entry = format!("{}(bits={},double={},res={})", w, c.bits, c.use_double, c.res);
    match w {
        "fbase" | "siqs" | "qs" | "mpqs" => {
            if !(16..=MAX_BITS).contains(&c.bits) {
                return Err(Fail::new("HARNESS|out-of-domain", "consumer starts need 16..=520 bits"));
            }
        }
        _ => {}
    }
    match w {
        "fbase" => {
            // differential: the factor-base model against FBase::new for the SIQS size
            let n = gen_semiprime(c.bits, c.res, c.seed);
            let (fb, ..) = siqs::verif_params(&n, c.use_double);
            let fbase = guard_msg(&format!("FBase::new|{}", tag), || FBase::new(Int::cast_from(n), fb))?;
            let mut m = FbModel::new(&Int::cast_from(n));
            let (len, bound, _) = m.fbase(fb, &primes);
            ensure!(
                fbase.len() == len && (len == 0 || fbase.bound() == bound),
                "FBase::new|model-mismatch",
                "{}: FBase::new(n, {}) has {} primes up to {:?}, model says {} up to {}",
                entry,
                fb,
                fbase.len(),
                fbase.primes.last(),
                len,
                bound
            );
            ensure!(fbase.len() % 8 == 0, "FBase::new|len-multiple-of-8", "{}: {} primes", entry, fbase.len());
            ensure!(
                fbase.primes.iter().all(|&p| (p as u64) < FB_PRIME_LIMIT) && fbase.primes.windows(2).all(|w| w[0] < w[1]),
                "FBase::new|primes-below-2^24-increasing",
                "{}: factor base not increasing below 2^24",
                entry
            );
            l.label("consumer:fbase");
        }
        "siqs" => {
            let n = gen_semiprime(c.bits, c.res, c.seed);
            if (48..=100).contains(&c.bits) && !checked_build() {
                // complete run
                let mut prefs = silent_prefs(false);
                prefs.use_double = Some(c.use_double);
                match run_sieve(&format!("siqs|{}", tag), l, || siqs::siqs(&n, 1, &prefs, None))? {
                    Some(r) => l.label(if r.is_ok() { "consumer:siqs:complete-run" } else { "consumer:siqs:unexpected-factor" }),
                    None => {}
                }
            } else {
                // first polynomial of the first A with the derived parameters, as siqs() does
                let (fb, nfacs, acount, _at, mm, lpf, dlf) = siqs::verif_params(&n, c.use_double);
                if wild(nfacs, acount as u64, mm as u64, fb) {
                    l.label("consumer:skipped(parameters-outside-any-sane-envelope)");
                    return Ok(());
                }
                let prefs = silent_prefs(false);
                with_size_class(c.bits, guard_msg(&format!("siqs.first-poly|{}", tag), || {
                    let fbase = FBase::new(Int::cast_from(n), fb);
                    let nint = Int::cast_from(n);
                    let factors = siqs::select_siqs_factors(&fbase, &nint, nfacs as usize, mm as usize, prefs.verbosity);
                    let a_ints = siqs::select_a(&factors, acount, prefs.verbosity);
                    let maxprime = fbase.bound() as u64;
                    let maxlarge = std::cmp::min(maxprime * lpf, (1 << 32) - 1);
                    let maxdouble = if c.use_double { maxprime * maxprime * dlf } else { 0 };
                    let s = siqs::SieveSIQS::new(nint, &fbase, maxlarge, maxdouble, mm as usize, &prefs);
                    // first, middle and last A: the extremes of the admissible range
                    for idx in [0, a_ints.len() / 2, a_ints.len() - 1] {
                        let a = siqs::prepare_a(&factors, &a_ints[idx], &fbase, -(mm as i64) / 2);
                        let mut pol = siqs::Poly::first(&s, &a);
                        // sieving only in the release profile: see checked_build()
                        if !checked_build() {
                            siqs::verif_sieve_poly(&s, &a, &pol);
                        }
                        if nfacs > 1 {
                            pol.next(&s, &a);
                            if !checked_build() {
                                siqs::verif_sieve_poly(&s, &a, &pol);
                            }
                        }
                    }
                }))?;
                l.label("consumer:siqs:first-poly");
            }
        }
        "qs" | "mpqs" if checked_build() => {
            l.label("consumer:sieve-skipped-in-checked-build");
            return Ok(());
        }
        "qs" => {
            let n = gen_semiprime(c.bits, c.res, c.seed);
            let complete = (48..=70).contains(&c.bits);
            let mut prefs = if complete { silent_prefs(false) } else { abort_after(0) };
            prefs.use_double = Some(c.use_double);
            if run_sieve(&format!("qsieve|{}", tag), l, || qsieve::qsieve(n, 1, &prefs, None))?.is_some() {
                l.label(if complete { "consumer:qs:complete-run" } else { "consumer:qs:first-large-block" });
            }
        }
        "mpqs" => {
            let n = gen_semiprime(c.bits, c.res, c.seed);
            let complete = (48..=80).contains(&c.bits);
            let mut prefs = if complete { silent_prefs(false) } else { abort_after(0) };
            prefs.use_double = Some(c.use_double);
            if run_sieve(&format!("mpqs|{}", tag), l, || mpqs::mpqs(n, 1, &prefs, None))?.is_some() {
                l.label(if complete { "consumer:mpqs:complete-run" } else { "consumer:mpqs:first-poly-block" });
            }
        }
        "qs-relset" => {
            // RelationSet as qsieve() configures it: start the real sieve (first large block) and
            // read the large-prime limit it derives (recorder hook in SieveQS::new); then offer the
            // relation store a partial relation whose large prime lies between 2^32 and that limit,
            // the way sieve_block does (fbase::cofactor, then RelationSet::add)
            if !(16..=QS_LIMIT).contains(&c.bits) {
                return Err(Fail::new("HARNESS|out-of-domain", "qs-relset needs 16..=400 bits"));
            }
            let n = gen_semiprime(c.bits, c.res, c.seed);
            let fb = params::qs_fb_size(c.bits, c.use_double);
            let fbase = FBase::new(Int::cast_from(n), fb);
            let lpf = qsieve::large_prime_factor(&n);
            params::VERIF_STRATEGY.with(|r| *r.borrow_mut() = Some(vec![]));
            // the maxlarge expression of qsieve() (qsieve.rs:68) evaluated by the consumer itself
            let _ = lpf;
            let mut prefs = abort_after(0);
            prefs.use_double = Some(c.use_double);
            let _ = catch(|| qsieve::qsieve(n, 1, &prefs, None));
            let rows = params::VERIF_STRATEGY.with(|r| r.borrow_mut().take()).unwrap_or_default();
            let Some(&(_, _, maxlarge, _)) = rows.iter().find(|r| r.0 == "qs.maxlarge") else {
                return Err(Fail::new("HARNESS|recorder", "SieveQS::new recorder hook recorded nothing"));
            };
            if maxlarge <= (1u64 << 32) + 1000 {
                l.label("consumer:qs-relset:limit-within-32-bits");
                return Ok(());
            }
            let mut p = (1u64 << 32) + 15;
            while !crate::oracle::int::ref_isprime64(p) {
                p += 2;
            }
            ensure!(p < maxlarge, "HARNESS|fixture", "no prime between 2^32 and maxlarge");
            let q = fbase.p(1) as u64;
            let cand = yamaquasi::arith::I256::from(p as i128 * q as i128);
            let r = guard_msg(&format!("fbase::cofactor|{}", tag), || yamaquasi::fbase::cofactor(&fbase, &cand, &[1], maxlarge, c.use_double))?;
            let Some(((cp, cq), factors)) = r else {
                l.label("consumer:qs-relset:cofactor-rejected");
                return Ok(());
            };
            ensure!(cp == p && cq == 1, "HARNESS|fixture", "cofactor() returned ({}, {})", cp, cq);
            let rel = yamaquasi::relations::Relation {
                x: Uint::from(1u64),
                cofactor: cp,
                cyclelen: 1,
                factors,
            };
            let mut rs = yamaquasi::relations::RelationSet::new(n, fbase.len(), maxlarge);
            guard_msg(&format!("RelationSet::add|{}", tag), || rs.add(rel, None))?;
            l.label("consumer:qs-relset:accepted");
        }
        "clsgrp" => {
            if !(8..=MAX_BITS).contains(&c.bits) {
                return Err(Fail::new("HARNESS|out-of-domain", "class group starts need 8..=520 bits"));
            }
            let d = gen_d(c.bits, c.res, c.seed);
            if c.bits <= 64 && !(checked_build() && c.bits > 32) {
                let mut prefs = silent_prefs(false);
                prefs.use_double = Some(c.use_double);
                match catch(|| classgroup::classgroup(&d, &prefs, None)) {
                    Ok(_) => l.label("consumer:clsgrp:complete-run"),
                    Err(p) if allowed_cls_panic(&p.msg) => l.label("consumer:clsgrp:no-result"),
                    // the consistency assertions of the linear-algebra stage (matrix/intdense.rs: det == h, float
                    // self-checks) are give-ups of the class-group computation (DESIGN 7.2, C18), not a matter of
                    // the parameter tables
                    Err(p) if p.short_loc().starts_with("src/matrix/") => l.label("consumer:clsgrp:no-result(linear-algebra-assertion)"),
                    Err(p) => {
                        let mut f = panic_fail(&format!("classgroup|{}", tag), &p);
                        f.what = format!("{} D={}: {}", entry, d, f.what);
                        return Err(f);
                    }
                }
            } else {
                // the shared SIQS machinery with the class-group parameters, as classgroup() does
                let bias = classgroup::verif_smoothness_bias(&d);
                let adj = std::cmp::max(1, c.bits as i64 - (2.5 * bias).round() as i64) as u32;
                let fb = params::clsgrp_fb_size(adj, c.use_double);
                let ((acount, nfacs), mm, lpf) = classgroup::verif_params(adj);
                let dlf = classgroup::verif_double_large_factor(&d);
                if wild(nfacs, acount as u64, mm as u64, fb) {
                    l.label("consumer:skipped(parameters-outside-any-sane-envelope)");
                    return Ok(());
                }
                let prefs = silent_prefs(false);
                let dred = if d.unsigned_abs().digits()[0] & 3 == 0 { d >> 2u32 } else { d };
                with_size_class(c.bits, guard_msg(&format!("classgroup.first-poly|{}", tag), || {
                    let fbase = FBase::new(dred, fb);
                    let factors = siqs::select_siqs_factors(&fbase, &dred, nfacs as usize, mm as usize, prefs.verbosity);
                    let a_ints = siqs::select_a(&factors, acount as usize, prefs.verbosity);
                    assert!(a_ints.len() >= acount as usize, "classgroup.rs:113: {} values of A, {} wanted", a_ints.len(), acount);
                    let maxprime = fbase.bound() as u64;
                    let maxlarge = std::cmp::min(maxprime * lpf, (1 << 32) - 1);
                    let maxdouble = if c.use_double { maxprime * maxprime * dlf } else { 0 };
                    let s = siqs::SieveSIQS::new(dred, &fbase, maxlarge, maxdouble, mm as usize, &prefs);
                    for idx in [0, a_ints.len() / 2, a_ints.len() - 1] {
                        let a = siqs::prepare_a(&factors, &a_ints[idx], &fbase, -(mm as i64) / 2);
                        let mut pol = siqs::Poly::first(&s, &a);
                        if nfacs > 1 {
                            pol.next(&s, &a);
                        }
                    }
                }))?;
                l.label("consumer:clsgrp:first-poly");
            }
        }
        "stage2.pm1" | "stage2.ecm" | "stage2.pp1" => {
            // a ~100-bit semiprime; stage 1 is trivial, stage 2 runs the selected row completely
            let n = gen_n(100, 3, c.seed);
            match w {
                "stage2.pm1" => {
                    guard_msg(&format!("pm1_impl|{}", tag), || pollard_pm1::pm1_impl(&n, 50, c.b2, Verbosity::Silent))?;
                }
                "stage2.pp1" => {
                    guard_msg(&format!("pp1|{}", tag), || pp1::pp1(n, 5, 50, c.b2, Verbosity::Silent))?;
                }
                _ => {
                    guard_msg(&format!("ecm|{}", tag), || ecm::ecm(n, 1, 50, c.b2, &silent_prefs(false), None))?;
                }
            }
            l.label(&format!("consumer:{}", w));
        }
        _ => return Err(Fail::new("HARNESS|what", w.to_string())),
    }
    l.nontrivial_of(&(w, c.bits, c.use_double, c.res, c.seed, c.b2.to_bits()));
    Ok(())
}

// ---------------------------------------------------------------------------

/// Faults of entry `i` of the NTT prime/root table (empty = fine).
fn ntt_entry_faults(table: &[(u64, u64)], i: usize) -> Vec<String> {
    let mulmod = |a: u64, b: u64, p: u64| ((a as u128 * b as u128) % p as u128) as u64;
    let (p, w) = table[i];
    let mut bad: Vec<String> = vec![];
    if !crate::oracle::int::ref_isprime64(p) {
        bad.push("p is not prime".into());
    }
    if p & 0xffff_ffff != 1 {
        bad.push("p is not 1 mod 2^32".into());
    }
    if (table.len() as u128) * (p as u128) >= 1u128 << 64 {
        bad.push("count * p does not fit in 64 bits".into());
    }
    if i > 0 && table[i - 1].0 >= p {
        bad.push("primes not strictly increasing".into());
    }
    if w == 0 || w >= p {
        bad.push("root not reduced".into());
    }
    // w^(2^31) = -1 (hence order exactly 2^32)
    let mut x = w % p.max(2);
    for _ in 0..31 {
        x = mulmod(x, x, p);
    }
    if x != p - 1 {
        bad.push(format!("w^(2^31) = {} is not -1: the order of w is not 2^32", x));
    }
    bad
}

fn record(ctx: &Ctx, check: &str, f: &Fail, case: Value) {
    if f.class.starts_with("HARNESS|") {
        ctx.selfcheck_failed(&format!("{}: {}", check, f.what));
    } else {
        ctx.violation(check, f, case);
    }
}

fn ranges(mut v: Vec<u32>) -> String {
    v.sort();
    v.dedup();
    let mut out = vec![];
    let mut i = 0;
    while i < v.len() {
        let mut j = i;
        while j + 1 < v.len() && v[j + 1] == v[j] + 1 {
            j += 1;
        }
        out.push(if i == j { format!("{}", v[i]) } else { format!("{}..={}", v[i], v[j]) });
        i = j + 1;
    }
    out.join(",")
}

fn run(ctx: &Ctx) {
    ctx.set_exhaustive(true);
    ctx.set_rule(
        "complete enumeration: params = {qs,mpqs,siqs,clsgrp} x bits 1..=520 x use_double x residue classes of n (one generated n per \
         (bits,residue)); stage2 = every row of both tables + 2000-point geometric grid of b2 + every hard-wired b2; dispatch = \
         convolve_modn at every breakpoint of the modulus size +-1 (all sizes 2..=500 for transforms <= 2^10) x every transform \
         size; strategy = every bit length x {ecm_auto, ecm_only, ecm128, ecm128 try_harder, pm1_quick, pm1_only}; consumer = the \
         real QS/MPQS/SIQS/class-group/P-1/P+1/ECM code started with the derived parameters (sample of sizes, all rows with small \
         d2). Non-trivial = bit length within 1 of a breakpoint of a piecewise formula, a table row itself, or a consumer start; \
         all configurations are distinct by construction.",
    );
    ctx.assume("consumers are reachable only for n >= 211^2 (16 bits): below that only the parameter functions' totality and ranges are checked");
    ctx.assume("the factor-base model (Legendre symbols over the reference primes) equals FBase::new; this is checked on every consumer start of kind `fbase`");
    ctx.assume("a predicate is evaluated on one generated n per (bits, residue class); predicates that depend on n beyond its size and residue are decided for that n only");
    let thorough = !ctx.quick();
    let chk = ctx.is_chk();
    let seed = ctx.seed;

    // development aid: YQV_C20_ONLY=params,stage2,... restricts the run to some sections
    // (never set by ./check; a restricted run fails the vacuity floors)
    let only = std::env::var("YQV_C20_ONLY").ok();
    let want = |s: &str| only.as_ref().map(|o| o.split(',').any(|x| x == s)).unwrap_or(true);
    let timing = std::env::var("YQV_TIMING").is_ok();
    let t0 = std::time::Instant::now();
    let lap = |s: &str| {
        if timing {
            eprintln!("[C20 {:>8.1}s] {}", t0.elapsed().as_secs_f64(), s);
        }
    };

    // ---------------- params: complete enumeration
    if want("params") {
        // one work item per (bits, residue class, sieve family): qs/mpqs/siqs share the generated n
        // and hence the factor-base model
        let mut items: Vec<(u32, u64, bool)> = vec![];
        for bits in 1..=MAX_BITS {
            for &res in &RESIDUES {
                items.push((bits, res, false));
            }
            for &res in &[3u64, 7, 4] {
                items.push((bits, res, true));
            }
        }
        // expensive items (large factor bases) first
        items.sort_by_key(|it| std::cmp::Reverse(it.0));
        type Out = (Local, Vec<(ParamCase, Fail)>);
        let outs: Vec<Out> = items
            .par_iter()
            .map(|&(bits, res, cls)| {
                let mut l = Local::new();
                let mut fails = vec![];
                // fixed seed for the enumeration: the configuration space, not n, is the domain
                let nseed = 0x20_0000 + bits as u64;
                let mut model: Option<FbModel> = if bits >= 16 {
                    let nn = if cls {
                        let d = gen_d(bits, res, nseed);
                        if d.unsigned_abs().digits()[0] & 3 == 0 {
                            d >> 2u32
                        } else {
                            d
                        }
                    } else {
                        Int::cast_from(gen_n(bits, res, nseed))
                    };
                    Some(FbModel::new(&nn))
                } else {
                    None
                };
                let variants: &[&str] = if cls { &["clsgrp"] } else { &["qs", "mpqs", "siqs"] };
                for &variant in variants {
                    for use_double in [false, true] {
                        let c = ParamCase {
                            variant: variant.to_string(),
                            bits,
                            use_double,
                            res,
                            seed: nseed,
                        };
                        l.case();
                        l.nontrivial_bulk(1);
                        l.label(&format!("params:{}", variant));
                        if near_breakpoint(bits) {
                            l.label("params:at-breakpoint");
                        }
                        if bits > 512 {
                            l.label("params:multiplier-range(513..520)");
                        }
                        // quick tier: the factor-base model scans up to 10^6 primes per n above 340 bits.
                        // All parameter-level predicates are evaluated everywhere; the factor-base level
                        // ones at every size <= 200, at every breakpoint +-1, for one residue class at
                        // every size <= 340 (the others at every 4th) and at every 4th size above
                        let model_level = thorough
                            || bits <= 200
                            || near_breakpoint(bits)
                            || (bits <= 340 && (res == 3 || res == 7 || bits % 4 == 0))
                            || ((res == 3 || res == 7) && bits % 4 == 0);
                        if !model_level {
                            l.label("params:fb-level-skipped(quick)");
                        }
                        let ts = std::time::Instant::now();
                        let r = catch(|| eval_params_opt(&c, model.as_mut(), model_level));
                        if timing && ts.elapsed().as_secs_f64() > 2.0 {
                            eprintln!("[C20] slow configuration {:?}: {:.1}s", c, ts.elapsed().as_secs_f64());
                        }
                        match r {
                            Ok(Ok((d, fs))) => {
                                if d.refused {
                                    l.label(&format!("params:{}:refused-by-consumer", variant));
                                }
                                if near_breakpoint(bits) && res != 5 {
                                    l.sample(&format!("params:{}", variant), || json!({"case": c, "derived": d}));
                                }
                                for f in fs {
                                    fails.push((c.clone(), f));
                                }
                            }
                            Ok(Err(f)) => fails.push((c.clone(), f)),
                            Err(p) => fails.push((c.clone(), Fail::new("HARNESS|panic", format!("{} at {}", p.msg, p.loc)))),
                        }
                    }
                }
                (l, fails)
            })
            .collect();
        // one violation per predicate, with the complete list of affected sizes
        let mut by_class: BTreeMap<String, Vec<(ParamCase, Fail)>> = BTreeMap::new();
        for (l, fails) in outs {
            ctx.merge(l);
            for (c, f) in fails {
                by_class.entry(f.sig()).or_default().push((c, f));
            }
        }
        for (_, mut v) in by_class {
            v.sort_by_key(|(c, _)| (c.bits, c.use_double, c.res));
            let sizes = ranges(v.iter().map(|(c, _)| c.bits).collect());
            let (c, f) = &v[0];
            let f = Fail::new(f.class.clone(), format!("{} [all affected bit lengths: {}; {} configurations]", f.what, sizes, v.len()))
                .with_detail(f.detail.clone());
            record(ctx, "params", &f, serde_json::to_value(c).unwrap());
        }
    }
    lap("params enumerated");
    // generated residues/seeds on top of the enumeration (other n of the same size)
    if want("params") {
    ctx.par_prop(
        "params",
        16,
        ctx.n(600, 40_000),
        move || {
            (0usize..4, 1u32..=MAX_BITS, any::<bool>(), 0usize..3, any::<u64>()).prop_map(move |(v, bits, use_double, r, s)| {
                let variant = ["qs", "mpqs", "siqs", "clsgrp"][v];
                let res = if variant == "clsgrp" { [3, 7, 4][r] } else { RESIDUES[r] };
                // keep the generated n cheap: large factor bases are covered by the enumeration
                let bits = if bits > 340 { 16 + bits % 325 } else { bits };
                ParamCase {
                    variant: variant.to_string(),
                    bits,
                    use_double,
                    res,
                    seed: s ^ seed,
                }
            })
        },
        check_params,
    );
    }
    lap("params generated");

    // ---------------- the precomputed roots of the multi-prime NTT ("transform sizes fit the precomputed roots"):
    // every table entry (p, w) must be a prime p = 1 mod 2^32 below 2^59 with w of order exactly 2^32 modulo p,
    // the primes distinct and increasing (the first w of them are taken, and w * p_w < 2^64 is asserted)
    if want("stage2") {
        let mut l = Local::new();
        let table = arith_fft::verif_ntt_table();
        for (i, &(p, w)) in table.iter().enumerate() {
            l.case();
            l.label("ntt-table:entry");
            l.nontrivial(hash64(&("ntt-table", p, w)));
            let bad = ntt_entry_faults(&table, i);
            for b in bad {
                let f = fail("ntt-table", "root-of-unity", format!("NTT table entry {} (p = {:#x}, w = {:#x}): {}", i, p, w, b));
                record(ctx, "stage2", &f, json!({"ntt_entry": i, "p": p, "w": w}));
            }
        }
        ctx.merge(l);
    }

    // ---------------- stage 2 tables
    if want("stage2") {
        let mut l = Local::new();
        let ntt = arith_fft::verif_ntt_primes().len();
        for (name, table) in [("ecm", params::verif_stage2_table()), ("pm1", pollard_pm1::verif_stage2_table())] {
            // rows themselves (also those never selected), order and duplicates
            for (i, &row) in table.iter().enumerate() {
                for f in stage2_row_fails(name, row, ntt) {
                    record(ctx, "stage2", &f, json!({"table": name, "b2": row.0}));
                }
                if i > 0 && !(table[i - 1].0 < row.0) {
                    let f = fail(&format!("stage2.{}", name), "labels-increasing", format!("row {} label {:e} does not exceed the previous {:e}", i, row.0, table[i - 1].0));
                    record(ctx, "stage2", &f, json!({"table": name, "b2": row.0}));
                }
                ctx.fixed_case("stage2", &Stage2Case { table: name.to_string(), b2: row.0 }, &mut l, check_stage2);
                // midpoints and their neighbours: nearest-row selection at the switch-over
                if i > 0 {
                    let mid = (table[i - 1].0 + row.0) / 2.0;
                    for b2 in [mid, mid * (1.0 - 1e-12), mid * (1.0 + 1e-12)] {
                        ctx.fixed_case("stage2", &Stage2Case { table: name.to_string(), b2 }, &mut l, check_stage2);
                    }
                }
            }
            // geometric grid from 1 to 1e15
            let mut prev_idx = 0usize;
            for i in 0..=2000 {
                let b2 = 10f64.powf(15.0 * i as f64 / 2000.0);
                ctx.fixed_case("stage2", &Stage2Case { table: name.to_string(), b2 }, &mut l, check_stage2);
                // monotone: a larger request never selects a smaller row
                let row = if name == "ecm" { params::stage2_params(b2) } else { pollard_pm1::verif_stage2_params(b2) };
                let idx = table.iter().position(|r| *r == row).unwrap_or(0);
                if idx < prev_idx {
                    let f = fail(&format!("stage2.{}", name), "selection-monotone", format!("b2 = {:e} selects row {} after row {}", b2, idx, prev_idx));
                    record(ctx, "stage2", &f, json!({"table": name, "b2": b2}));
                }
                prev_idx = idx;
            }
            for &b2 in HARDWIRED_B2.iter().chain([0.0, 1.0, 1e300].iter()) {
                ctx.fixed_case("stage2", &Stage2Case { table: name.to_string(), b2 }, &mut l, check_stage2);
                l.label("stage2:hard-wired-b2");
            }
        }
        ctx.merge(l);
    }
    ctx.par_prop(
        "stage2",
        4,
        ctx.n(2000, 200_000),
        || (any::<bool>(), 0.0f64..15.5).prop_map(|(t, e)| Stage2Case { table: if t { "ecm" } else { "pm1" }.to_string(), b2: 10f64.powf(e) }),
        check_stage2,
    );
    lap("stage2");

    // ---------------- convolution dispatch
    if want("dispatch") {
        // breakpoints of the modulus size in the dispatch table (read from the source) +-1
        let mut bits: Vec<u32> = vec![2, 3, 63, 64, 65, 127, 128, 129, 191, 192, 193, 255, 256, 257, 320, 321, 384, 385, 448, 449];
        for b in [150u32, 245, 280, 310, 500] {
            bits.extend([b - 1, b, b + 1]);
        }
        bits.retain(|&b| (2..=500).contains(&b));
        bits.sort();
        bits.dedup();
        let maxlog: u32 = if thorough { 19 } else { 16 };
        let maxlog = if chk { maxlog.min(if thorough { 17 } else { 14 }) } else { maxlog };
        let mut cases: Vec<DispatchCase> = vec![];
        for &b in &bits {
            for logsize in 1..=maxlog {
                cases.push(DispatchCase { bits: b, logsize });
            }
        }
        // every modulus size for the small transforms
        let small_log: u32 = if thorough { 13 } else { 10 };
        for b in 2..=500u32 {
            for logsize in [1u32, 5, small_log.min(if chk { 8 } else { 13 })] {
                cases.push(DispatchCase { bits: b, logsize });
            }
            if !bits.contains(&b) && thorough && !chk && b % 8 == 0 {
                for logsize in [14u32, 15, 16, 17] {
                    cases.push(DispatchCase { bits: b, logsize });
                }
            }
        }
        // big transforms need up to ~1 GiB each: bound the parallelism by size class
        let (small, large): (Vec<_>, Vec<_>) = cases.into_iter().partition(|c| c.logsize <= 15);
        let run_set = |set: &[DispatchCase], chunk: usize| {
            let outs: Vec<(Local, Vec<(DispatchCase, Fail)>)> = set
                .par_chunks(chunk)
                .map(|ch| {
                    let mut l = Local::new();
                    let mut fails = vec![];
                    for c in ch {
                        match catch(|| check_dispatch(c, &mut l)) {
                            Ok(Ok(())) => {}
                            Ok(Err(f)) => fails.push((c.clone(), f)),
                            Err(p) => fails.push((c.clone(), Fail::new("HARNESS|panic", format!("{} at {}", p.msg, p.loc)))),
                        }
                    }
                    (l, fails)
                })
                .collect();
            for (l, fails) in outs {
                ctx.merge(l);
                for (c, f) in fails {
                    record(ctx, "dispatch", &f, serde_json::to_value(&c).unwrap());
                }
            }
        };
        run_set(&small, 16);
        // at most 4 big transforms in flight
        for ch in large.chunks(4) {
            run_set(ch, 1);
        }
    }

    lap("dispatch");
    // ---------------- strategy rows
    if want("strategy") {
        let mut cases = vec![];
        for kind in ["ecm_auto", "pm1_quick", "pm1_only"] {
            for bits in 2..=512u32 {
                cases.push(StrategyCase { kind: kind.to_string(), bits });
            }
        }
        for kind in ["ecm128", "ecm128_harder"] {
            for bits in 2..=128u32 {
                cases.push(StrategyCase { kind: kind.to_string(), bits });
            }
        }
        // ecm_only has one chain for every size; its last rows build SmoothBase up to 3.5e8
        if thorough && !chk {
            cases.push(StrategyCase { kind: "ecm_only".to_string(), bits: 200 });
        }
        let outs: Vec<(Local, Vec<(StrategyCase, Fail)>)> = cases
            .par_chunks(32)
            .map(|ch| {
                let mut l = Local::new();
                let mut fails = vec![];
                for c in ch {
                    // ecm_auto above 370 bits builds SmoothBase(1.5e6/5e6) per call: sample in quick
                    if !thorough && c.kind == "ecm_auto" && c.bits > 372 && c.bits % 8 != 0 && ![450, 451, 452, 512].contains(&c.bits) {
                        continue;
                    }
                    match catch(|| check_strategy(c, &mut l)) {
                        Ok(Ok(())) => {}
                        Ok(Err(f)) => fails.push((c.clone(), f)),
                        Err(p) => fails.push((c.clone(), Fail::new("HARNESS|panic", format!("{} at {}", p.msg, p.loc)))),
                    }
                }
                (l, fails)
            })
            .collect();
        for (l, fails) in outs {
            ctx.merge(l);
            for (c, f) in fails {
                record(ctx, "strategy", &f, serde_json::to_value(&c).unwrap());
            }
        }
    }

    lap("strategy");
    // ---------------- consumer starts
    if want("consumer") {
        let mut cases: Vec<ConsumerCase> = vec![];
        let mk = |what: &str, bits: u32, use_double: bool, res: u64, b2: f64| ConsumerCase {
            what: what.to_string(),
            bits,
            use_double,
            res,
            seed: 0xc0ffee ^ hash64(&(what, bits, res)),
            b2,
        };
        // sizes: every 8th bit length up to 160 (quick) / every size up to 330 (thorough), plus the
        // sizes where the enumeration places its boundaries
        let mut sizes: Vec<u32> = if thorough { (16..=330).collect() } else { (16..=160).step_by(8).collect() };
        sizes.extend([17, 31, 33, 49, 64, 65, 71, 72, 89, 90, 119, 120, 129, 149, 150, 169, 170, 181, 199, 200, 256, 257]);
        if !chk {
            sizes.extend([300, 330, 400]);
        } else {
            // checked build: the sizes where the number of A factors crosses 16 (shift overflow
            // of the selection mask is only visible with overflow checks)
            sizes.extend([424, 425]);
        }
        if thorough && !chk {
            sizes.extend([424, 425, 440, 448, 449, 456, 460, 464, 470, 480, 500, 512, 520]);
        } else if !chk {
            sizes.extend([424, 425, 448, 463, 466, 512]);
        }
        sizes.sort();
        sizes.dedup();
        for &b in &sizes {
            for (i, what) in ["siqs", "qs", "mpqs", "clsgrp", "fbase"].iter().enumerate() {
                let lim = match *what {
                    "qs" => QS_LIMIT + 8,
                    "mpqs" => MPQS_LIMIT + 8,
                    "siqs" => SIQS_LIMIT + 8,
                    _ => MAX_BITS,
                };
                if b > lim || (*what == "fbase" && b > 340 && b != 425) {
                    continue;
                }
                // complete runs get slow quickly for the single-polynomial sieve
                let res = if *what == "clsgrp" { [7u64, 3, 4][(b as usize + i) % 3] } else { RESIDUES[(b as usize + i) % 3] };
                let dbl_default = match *what {
                    "qs" => b > 200,
                    "mpqs" => b > 224,
                    "clsgrp" => b > 180,
                    _ => b > 256,
                };
                cases.push(mk(what, b, dbl_default, res, 0.0));
                if (thorough || b % 16 == 0) && b <= 340 {
                    cases.push(mk(what, b, !dbl_default, res, 0.0));
                }
            }
        }
        for &(b, dbl) in &[(340u32, true), (348, true), (360, false), (400, true)] {
            if !chk || b == 400 {
                cases.push(mk("qs-relset", b, dbl, 3, 0.0));
            }
        }
        // stage-2 rows: run the real stage 2 for every row that is small enough
        let d2max: u64 = if thorough { 1 << 17 } else { 1 << 13 };
        let d2max = if chk { d2max >> 2 } else { d2max };
        for &(b2, _d1, d2) in pollard_pm1::verif_stage2_table() {
            if d2 <= d2max {
                cases.push(mk("stage2.pm1", 100, false, 3, b2));
            }
        }
        for &(b2, d1, d2) in params::verif_stage2_table() {
            let cost = if d1 < 4000 { d2 * phi(d1) / 2 } else { d2 * 40 };
            if cost <= (if thorough { 40_000_000 } else { 2_000_000 }) >> (if chk { 3 } else { 0 }) {
                cases.push(mk("stage2.ecm", 100, false, 3, b2));
                cases.push(mk("stage2.pp1", 100, false, 3, b2));
            }
        }
        // heavy cases first so that the pool stays busy
        cases.sort_by_key(|c| std::cmp::Reverse(c.bits));
        let outs: Vec<(Local, Vec<(ConsumerCase, Fail)>)> = cases
            .par_iter()
            .map(|c| {
                let mut l = Local::new();
                let mut fails = vec![];
                match catch(|| check_consumer(c, &mut l)) {
                    Ok(Ok(())) => {}
                    Ok(Err(f)) => fails.push((c.clone(), f)),
                    Err(p) => fails.push((c.clone(), Fail::new("HARNESS|panic", format!("{} at {}", p.msg, p.loc)))),
                }
                (l, fails)
            })
            .collect();
        for (l, fails) in outs {
            ctx.merge(l);
            for (c, f) in fails {
                record(ctx, "consumer", &f, serde_json::to_value(&c).unwrap());
            }
        }
    }

    lap("consumer");
    for (lab, min) in [
        ("params:qs", 1000),
        ("params:mpqs", 1000),
        ("params:siqs", 1000),
        ("params:clsgrp", 1000),
        ("params:at-breakpoint", 500),
        ("stage2:ecm:row", 40),
        ("stage2:pm1:row", 25),
        ("stage2:hard-wired-b2", 40),
        ("strategy:ecm_auto:rows", 100),
        ("strategy:pm1_quick:rows", 100),
        ("strategy:pm1_only:rows", 100),
        ("strategy:ecm128:rows", 50),
        ("consumer:fbase", 10),
        ("consumer:siqs:first-poly", 5),
        ("consumer:stage2.pm1", 3),
        ("consumer:stage2.ecm", 5),
        ("consumer:stage2.pp1", 5),
    ] {
        ctx.essential(lab, min);
    }
    if !chk {
        for (lab, min) in [
            ("consumer:siqs:complete-run", 3),
            ("consumer:qs:first-large-block", 5),
            ("consumer:mpqs:first-poly-block", 5),
        ] {
            ctx.essential(lab, min);
        }
    }
}

fn replay(_ctx: &Ctx, check_name: &str, case: &Value) -> Result<(), Fail> {
    match check_name {
        "params" => replay_as::<ParamCase>(case, check_params),
        "stage2" if case.get("ntt_entry").is_some() => {
            let table = arith_fft::verif_ntt_table();
            let i = case["ntt_entry"].as_u64().unwrap_or(0) as usize;
            if i >= table.len() {
                return Ok(());
            }
            match ntt_entry_faults(&table, i).into_iter().next() {
                None => Ok(()),
                Some(b) => Err(fail("ntt-table", "root-of-unity", format!("NTT table entry {} (p = {:#x}, w = {:#x}): {}", i, table[i].0, table[i].1, b))),
            }
        }
        "stage2" => replay_as::<Stage2Case>(case, check_stage2),
        "dispatch" => replay_as::<DispatchCase>(case, check_dispatch),
        "strategy" => replay_as::<StrategyCase>(case, check_strategy),
        "consumer" => replay_as::<ConsumerCase>(case, check_consumer),
        _ => Err(Fail::new("HARNESS|unknown-check", check_name.to_string())),
    }
}
