//! C01 — a returned factorisation always multiplies back to the input (DESIGN.md C01).
//!
//! Oracle (on every Ok(list)): product == n computed in 4096-bit arithmetic, list sorted
//! non-decreasing, n = 0 -> [0], n = 1 -> [], n >= 2 -> every element >= 2 and a divisor of n.
//! Err(FactoringFailure) is accepted here (C02 judges completeness), panics are C03's business
//! except the library's own product assertion.

use serde_json::Value;

use crate::engine::{Ctx, Fail, Local, PropDef};
use crate::props::factoring::*;

pub const DEF: PropDef = PropDef {
    id: "C01",
    level: "exploration",
    chk_child: false,
    run,
    replay,
};

fn run(ctx: &Ctx) {
    ctx.set_rule(
        "all ten selectors on every n in [0,2^16] exhaustively plus a stride through [2^16,2^22) (quick; all n < 2^22 thorough), \
         judged against an independent reference factorisation; proptest-generated composites of 14 shapes (prime, balanced / \
         unbalanced semiprime, p^k, (pq)^2, p^2 q, many primes, consecutive primes, p(2p-1), Carmichael, factor inside the factor \
         base, three primes, tiny factors times semiprime) within each selector's size precondition and time budget, with generated \
         preferences (threads, factor-base size 0.5x..3x default, interval size, large-prime multiplier, double-large-prime switch, verbosity level). \
         Non-trivial = at least two prime factors above 199 (a real algorithm ran); distinct by (selector, n, prefs).",
    );
    ctx.assume("200..500-bit general composites are out of budget: covered only through shapes that finish quickly");
    ctx.assume("a panic is not judged here (C03) except the library's own product assertion in check_factors");
    let quick = ctx.quick();
    let timeout = ctx.pick(120.0, 600.0);
    let mut l = Local::new();
    let check = "lists@opt";
    // exhaustive small range
    for a in ALGOS {
        run_ranges(ctx, check, "opt", a, 0, (1 << 16) + 1, 1, "c01", &mut l);
        if quick {
            run_ranges(ctx, check, "opt", a, (1 << 16) + 1, 1 << 22, 257, "c01", &mut l);
        } else {
            run_ranges(ctx, check, "opt", a, (1 << 16) + 1, 1 << 22, 1, "c01", &mut l);
        }
    }
    // generated composites, generated preferences
    let mut panics: Vec<Value> = vec![];
    for (i, a) in ALGOS.iter().enumerate() {
        let heavy = matches!(*a, "siqs" | "auto" | "mpqs" | "qs");
        let per = ctx.n(if heavy { 1500 } else { 3000 }, 60_000) as usize;
        let strat = case_strategy(a, quick, true);
        let mut cases = ctx.sample_strategy(check, i as u64, &strat, per);
        // preferences only matter to the sieves and ECM; keep half of the cases at the defaults
        for (j, c) in cases.iter_mut().enumerate() {
            if j % 2 == 0 || !matches!(*a, "siqs" | "auto" | "mpqs" | "qs" | "ecm") {
                c.prefs = PrefSpec::default();
            }
        }
        let outs = run_batch(ctx, check, "opt", &cases, timeout, &judge_c01, &mut l);
        for (c, o) in cases.iter().zip(outs.iter()) {
            if let Outcome::Panic { loc, msg, .. } = o {
                l.label(if c.prefs.is_default() { "panic-default-prefs(C03)" } else { "panic-under-override" });
                if panics.len() < 20 {
                    panics.push(serde_json::json!({"algo": c.algo, "n": c.n.to_string(), "prefs": c.prefs, "at": loc, "msg": crate::engine::truncate(msg, 160)}));
                }
            }
        }
    }
    ctx.merge(l);
    // recorded for the reader, judged by C03 (default preferences) or out of every property's domain (tuning overrides)
    ctx.extra("panics_not_judged_here", Value::Array(panics));
    ctx.essential("outcome:opt:ok", 1000);
    ctx.essential("prefs:non-default", 100);
    ctx.essential("prefs:threads>1", 20);
    ctx.essential("prefs:verbose", 100);
    ctx.essential("shape:prime-power", 10);
    ctx.essential("shape:square-of-composite", 10);
}

fn replay(_ctx: &Ctx, check: &str, case: &Value) -> Result<(), Fail> {
    replay_case(check, case, &judge_c01)
}
