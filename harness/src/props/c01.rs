//! C01 — a returned factorisation always multiplies back to the input (DESIGN.md C01).
//!
//! Oracle (on every Ok(list)): product == n computed in 4096-bit arithmetic, list sorted
//! non-decreasing, n = 0 -> [0], n = 1 -> [], n >= 2 -> every element >= 2 and a divisor of n.
//! Err(FactoringFailure) is accepted here (C02 judges completeness), panics are C03's business
//! except the library's own product assertion.

use serde_json::Value;

use crate::engine::{Ctx, Fail, Local, PropDef};
use crate::props::factoring::*;

pub const DEF: PropDef = PropDef {
    id: "C01",
    level: "exploration",
    chk_child: false,
    run,
    replay,
};

fn run(ctx: &Ctx) {
    ctx.set_rule(
        "all ten selectors on every n in [0,2^16] exhaustively plus a stride through [2^16,2^22) (quick; all n < 2^22 thorough), \
         judged against an independent reference factorisation; proptest-generated composites of 14 shapes (prime, balanced / \
         unbalanced semiprime, p^k, (pq)^2, p^2 q, many primes, consecutive primes, p(2p-1), Carmichael, factor inside the factor \
         base, three primes, tiny factors times semiprime) within each selector's size precondition and time budget, plus inputs \
         beyond the working range of Ecm128 / Pm1 / Ecm (lists with composite entries, declared failures) and integers with \
         all-zero / all-ones interior words or of the form 2^e +- d (factorisation unknown, Pm1 and Auto), with generated \
         preferences (threads, factor-base size 0.5x..3x default, interval size, large-prime multiplier, double-large-prime switch, verbosity level). \
         Non-trivial = at least two prime factors above 199 (a real algorithm ran); distinct by (selector, n, prefs).",
    );
    ctx.assume("200..500-bit general composites are out of budget: covered only through shapes that finish quickly");
    ctx.assume("a panic is not judged here (C03) except the library's own product assertion in check_factors");
    let quick = ctx.quick();
    let timeout = ctx.pick(120.0, 600.0);
    let mut l = Local::new();
    let check = "lists@opt";
    // exhaustive small range
    for a in ALGOS {
        run_ranges(ctx, check, "opt", a, 0, (1 << 16) + 1, 1, "c01", &mut l);
        if quick {
            run_ranges(ctx, check, "opt", a, (1 << 16) + 1, 1 << 22, 257, "c01", &mut l);
        } else {
            run_ranges(ctx, check, "opt", a, (1 << 16) + 1, 1 << 22, 1, "c01", &mut l);
        }
    }
    // generated composites, generated preferences
    let mut panics: Vec<Value> = vec![];
    for (i, a) in ALGOS.iter().enumerate() {
        let heavy = matches!(*a, "siqs" | "auto" | "mpqs" | "qs");
        let per = ctx.n(if heavy { 1500 } else { 3000 }, 60_000) as usize;
        let strat = case_strategy(a, quick, true);
        let mut cases = ctx.sample_strategy(check, i as u64, &strat, per);
        // preferences only matter to the sieves and ECM; keep half of the cases at the defaults
        for (j, c) in cases.iter_mut().enumerate() {
            if j % 2 == 0 || !matches!(*a, "siqs" | "auto" | "mpqs" | "qs" | "ecm") {
                c.prefs = PrefSpec::default();
            }
        }
        let outs = run_batch(ctx, check, "opt", &cases, timeout, &judge_c01, &mut l);
        for (c, o) in cases.iter().zip(outs.iter()) {
            if let Outcome::Panic { loc, msg, .. } = o {
                l.label(if c.prefs.is_default() { "panic-default-prefs(C03)" } else { "panic-under-override" });
                if panics.len() < 20 {
                    panics.push(serde_json::json!({"algo": c.algo, "n": c.n.to_string(), "prefs": c.prefs, "at": loc, "msg": crate::engine::truncate(msg, 160)}));
                }
            }
        }
    }
    // beyond a selector's working range: the entry point then returns a list with composite entries (or the failure
    // value) through the "factorisation is incomplete" branches, which inputs inside the range never take
    {
        use crate::oracle::int::SplitMix;
        let mut r = SplitMix(crate::engine::hash64(&(ctx.seed, "c01-beyond")));
        let mut cases = vec![];
        for j in 0..ctx.n(40, 1200) as u32 {
            let mut pr = |bits: u32| gen_prime(bits, r.next());
            // ECM on 128 bits: two factors out of reach / a findable factor times an unreachable cofactor
            cases.push(mk_case("beyond:ecm128-hard-semiprime", vec![pr(61 + j % 4), pr(62 + j % 3)], "ecm128", PrefSpec::default()));
            cases.push(mk_case("beyond:ecm128-small-x-hard", vec![pr(12 + j % 6), pr(54 + j % 3), pr(55 + j % 3)], "ecm128", PrefSpec::default()));
            cases.push(mk_case("beyond:ecm128-oversize", vec![pr(24 + j % 8), pr(60 + j % 20), pr(61 + j % 9)], "ecm128", PrefSpec::default()));
            // P-1 alone on factors without any smoothness by construction
            cases.push(mk_case("beyond:pm1-small-x-hard", vec![pr(20 + j % 12), pr(56 + j % 30), pr(58 + j % 30)], "pm1", PrefSpec::default()));
            if j % 4 == 0 {
                cases.push(mk_case("beyond:ecm-small-x-hard", vec![pr(22 + j % 10), pr(72 + j % 6), pr(73 + j % 6)], "ecm", PrefSpec::default()));
            }
        }
        // integers with special word patterns (factorisation unknown: only the list predicate is judged): all-zero
        // or all-ones interior 64-bit words, single bits, 2^k +- small.  Products of random primes never have
        // them, and the multiword division / reduction routines behind the trial-division loop and the factor-base
        // set-up treat such words specially.
        {
            use crate::oracle::int::U1024;
            let one = U1024::ONE;
            let mut sp: Vec<(U1024, &str)> = vec![];
            for j in 0..ctx.n(60, 2000) {
                let a = (r.next() >> (r.below(60) as u32)) | 1;
                let b = (r.next() >> (r.below(60) as u32)) | 1;
                let k = 2 + (j % 2) as u32;
                // a * 2^(64k) + b: k-1 zero interior words (k = 2: 129..192 bits, k = 3: 193..256 bits)
                sp.push(((U1024::from(a) << (64 * k)) | U1024::from(b), "words:zero-interior"));
                // all-ones interior words
                let ones = ((one << (64 * (k - 1))) - one) << 64u32;
                sp.push(((U1024::from(a) << (64 * k)) | ones | U1024::from(b), "words:ones-interior"));
                // 2^e +- small odd
                let e = 65 + r.below(190) as u32;
                let d = U1024::from(1 + 2 * r.below(500));
                sp.push(((one << e) + d, "words:2^e+d"));
                sp.push(((one << e) - d, "words:2^e-d"));
            }
            for (n, shape) in sp {
                // P-1 alone gives up quickly at every size; the automatic strategy only where a full sieve run is cheap
                cases.push(FCase { n, factors: vec![], shape: shape.to_string(), algo: "pm1".into(), prefs: PrefSpec::default() });
                if n.bits() <= 150 {
                    cases.push(FCase { n, factors: vec![], shape: shape.to_string(), algo: "auto".into(), prefs: PrefSpec::default() });
                }
            }
        }
        let outs = run_batch(ctx, check, "opt", &cases, timeout, &judge_c01, &mut l);
        for (c, o) in cases.iter().zip(outs.iter()) {
            if c.factors.is_empty() {
                continue;
            }
            match o {
                Outcome::Ok(fs) if *fs != c.factors => l.label("beyond-range:ok-with-composite-entry"),
                Outcome::Ok(_) => l.label("beyond-range:ok-complete"),
                Outcome::Err => l.label("beyond-range:declared-failure"),
                _ => l.label("beyond-range:other"),
            }
        }
    }
    ctx.merge(l);
    // recorded for the reader, judged by C03 (default preferences) or out of every property's domain (tuning overrides)
    ctx.extra("panics_not_judged_here", Value::Array(panics));
    ctx.essential("outcome:opt:ok", 1000);
    ctx.essential("prefs:non-default", 100);
    ctx.essential("prefs:threads>1", 20);
    ctx.essential("prefs:verbose", 100);
    ctx.essential("shape:prime-power", 10);
    ctx.essential("shape:square-of-composite", 10);
    ctx.essential("beyond-range:ok-with-composite-entry", 10);
    ctx.essential("shape:words:zero-interior", 50);
}

fn replay(_ctx: &Ctx, check: &str, case: &Value) -> Result<(), Fail> {
    replay_case(check, case, &judge_c01)
}
