//! C19 — integer determinants, lattice index, Smith-type reduction, sparse Wiedemann
//! determinant, Berlekamp–Massey (DESIGN.md section 2, C19).
//!
//! Public entry points under test and their preconditions (read off the code and callers):
//!  * `intdense::det_matz(rows, log2estimate)`: square i64 matrix, det != 0, |det| >= 2
//!    (asserts `round(log2) >= 1`), log2|det| <= 4032, the estimate correct to ~1e-6 in log2
//!    (checked by an assertion when the result is finite as f64).  Here the estimate is the
//!    kit's exact log2|det|.
//!  * `intdense::GFpEchelonBuilder::{new, add, det}`: odd prime p "around 60 bits"
//!    (`det_matz` itself uses primes just below 2^62, `compute_lattice_index` below 2^61).
//!  * `intdense::compute_lattice_index(rows, hmin, hmax)`: rows generate a full-rank lattice;
//!    after its own widening `hmax'/hmin' < 1.5`, `log2 hmax' < 126`; row norms are summed in
//!    i64 (entries are class-group exponents: small).  The explicit panic "failed to determine
//!    lattice index" = "no answer" (counted, never flagged).
//!  * `intdense::SmithNormalForm::{new, reduce}`: relations as sorted sparse rows
//!    `(generator, exponent)`, `rels.len() >= #generators`, index < 2^125 (used below 2^100).
//!  * `intsparse::SparseMat::{new, detz, detp4}`: square, < 65536 rows, coefficients fit i16;
//!    `detp4` primes with `p * norm < 2^63`; `detz` needs >= 8 rows (it confirms a CRT value
//!    with one more chunk of 4 primes out of `size` primes: below 8 rows it ends in
//!    `unreachable!()` for every non-singular input) and a non-zero matrix (`norm = 0` divides by zero).
//!  * `intsparse::compute_lattice_index(dim, rows, hmin, hmax, pool)`: `rows.len() >= dim >= 8`.
//!  * `intsparse::berlekamp_massey(p, seq)`: odd prime p < 2^63; checked on the domain the
//!    Wiedemann determinant uses (linear complexity L with 2L <= len).
//!
//! Oracles: oracle::linalg (Bareiss, mod-p elimination + CRT, textbook Smith form, Massey).

use bnum::cast::CastFrom;
use bnum::BUint;
use proptest::prelude::*;
use serde::{Deserialize, Serialize};
use serde_json::{json, Value};

use crate::engine::{catch, replay_as, Ctx, Fail, Local, PanicInfo, PropDef};
use crate::gen::pick_idx;
use crate::oracle::int::{prime64, ref_isprime64, SplitMix};
use crate::oracle::linalg::{
    self, det_bareiss, det_crt, invariant_factors, krylov_rank_left, krylov_rank_right, log2_abs, massey, sparse_to_dense,
    w_from_i128, w_mod_u64, w_resize, W,
};
use yamaquasi::matrix::intdense::{self, GFpEchelonBuilder, SmithNormalForm};
use yamaquasi::matrix::intsparse::{self, SparseMat};

pub const DEF: PropDef = PropDef {
    id: "C19",
    level: "exploration",
    chk_child: true,
    run,
    replay,
};

const GAVE_UP: &str = "failed to determine lattice index";

/// DESIGN 0.1: under the chk profile an arithmetic-overflow panic on an in-domain input is a
/// C19 violation only if the release build misbehaves too (which the opt run decides on the
/// same generated cases); the panic itself is C03 territory (class debug-only).
fn debug_only(p: &PanicInfo) -> bool {
    cfg!(debug_assertions) && p.msg.starts_with("attempt to ") && p.msg.contains("overflow")
}

const DEBUG_ONLY_LABEL: &str = "chk-profile-overflow-panic(debug-only,not-flagged-here)";

/// Call into the library: value, or `return Ok(())` for a debug-only overflow panic, or
/// `return Err(Fail)` of class `<entry>|panic@<file:line>`.
macro_rules! lib {
    ($entry:expr, $l:expr, $e:expr) => {
        match catch(|| $e) {
            Ok(v) => v,
            Err(p) if debug_only(&p) => {
                $l.label(DEBUG_ONLY_LABEL);
                $l.label(&format!("{}:{}@{}", DEBUG_ONLY_LABEL, $entry, p.short_loc()));
                return Ok(());
            }
            Err(p) => {
                return Err(Fail::new(
                    format!("{}|panic@{}", $entry, p.short_loc()),
                    format!("{} panicked at {}: {}", $entry, p.loc, crate::engine::truncate(&p.msg, 300)),
                ))
            }
        }
    };
}

/// `Vec<u128>` as decimal strings (serde_json values hold at most 64-bit numbers)
mod u128s_vec {
    use serde::{Deserialize, Deserializer, Serializer};
    pub fn serialize<S: Serializer>(xs: &Vec<u128>, s: S) -> Result<S::Ok, S::Error> {
        s.collect_seq(xs.iter().map(|x| x.to_string()))
    }
    pub fn deserialize<'de, D: Deserializer<'de>>(d: D) -> Result<Vec<u128>, D::Error> {
        let v = Vec::<String>::deserialize(d)?;
        v.iter().map(|s| s.parse().map_err(|_| serde::de::Error::custom(format!("bad u128 {}", s)))).collect()
    }
}

// ---------------------------------------------------------------------------
// Constructive builders

/// Apply `nops` random elementary row and column operations (additions of small multiples,
/// swaps, negations) to `m`, never letting an entry exceed `limit` in magnitude.
/// Returns the sign change of the determinant.  The row lattice of the result is the image
/// of the original row lattice under a unimodular change of coordinates (column ops) —
/// index and quotient group are unchanged.
fn scramble(m: &mut Vec<Vec<i128>>, nops: u32, limit: i128, rng: &mut SplitMix) -> i32 {
    let nr = m.len();
    let nc = if nr == 0 { 0 } else { m[0].len() };
    let mut sign = 1;
    if nr == 0 || nc == 0 {
        return sign;
    }
    for _ in 0..nops {
        let kind = rng.below(16);
        let on_rows = rng.below(2) == 0;
        let n = if on_rows { nr } else { nc };
        let i = rng.below(n as u64) as usize;
        let j = rng.below(n as u64) as usize;
        match kind {
            0 => {
                // swap
                if i != j {
                    if on_rows {
                        m.swap(i, j);
                    } else {
                        for r in m.iter_mut() {
                            r.swap(i, j);
                        }
                    }
                    sign = -sign;
                }
            }
            1 => {
                // negate
                if on_rows {
                    for x in m[i].iter_mut() {
                        *x = -*x;
                    }
                } else {
                    for r in m.iter_mut() {
                        r[i] = -r[i];
                    }
                }
                sign = -sign;
            }
            _ => {
                if i == j {
                    continue;
                }
                let c: i128 = match rng.below(8) {
                    0 => 2,
                    1 => -2,
                    2 => 3,
                    3 | 4 => -1,
                    _ => 1,
                };
                // line_i += c * line_j, only if everything stays within the limit
                let ok = if on_rows {
                    (0..nc).all(|k| (m[i][k] + c * m[j][k]).abs() <= limit)
                } else {
                    (0..nr).all(|k| (m[k][i] + c * m[k][j]).abs() <= limit)
                };
                if !ok {
                    continue;
                }
                if on_rows {
                    for k in 0..nc {
                        m[i][k] += c * m[j][k];
                    }
                } else {
                    for k in 0..nr {
                        m[k][i] += c * m[k][j];
                    }
                }
            }
        }
    }
    sign
}

fn diag_matrix(d: &[i128]) -> Vec<Vec<i128>> {
    let n = d.len();
    (0..n).map(|i| (0..n).map(|j| if i == j { d[i] } else { 0 }).collect()).collect()
}

fn to_i64(m: &[Vec<i128>]) -> Vec<Vec<i64>> {
    m.iter().map(|r| r.iter().map(|&x| i64::try_from(x).expect("entry exceeds i64")).collect()).collect()
}

/// Overdetermined generating set of the row lattice of `basis`: the basis rows (some of
/// them replaced by the pair 2b, 3b whose gcd gives b back) + `extra` small integer
/// combinations, shuffled.
fn overdetermine(basis: &[Vec<i128>], extra: usize, split: usize, limit: i128, rng: &mut SplitMix) -> Vec<Vec<i128>> {
    let n = basis.len();
    let mut rows: Vec<Vec<i128>> = vec![];
    let mut nsplit = 0;
    for b in basis {
        if nsplit < split && rng.below(4) == 0 && b.iter().all(|x| (3 * x).abs() <= limit) {
            rows.push(b.iter().map(|x| 2 * x).collect());
            rows.push(b.iter().map(|x| 3 * x).collect());
            nsplit += 1;
        } else {
            rows.push(b.clone());
        }
    }
    let mut tries = 0;
    while rows.len() < n + nsplit + extra && tries < 20 * extra + 20 {
        tries += 1;
        let k = 2 + rng.below(2) as usize;
        let mut v = vec![0i128; basis[0].len()];
        for _ in 0..k {
            let j = rng.below(n as u64) as usize;
            let c = [1i128, -1, 2, -2, 1, -1, 3, 1][rng.below(8) as usize];
            for (x, y) in v.iter_mut().zip(&basis[j]) {
                *x += c * y;
            }
        }
        if v.iter().all(|x| x.abs() <= limit) && v.iter().any(|&x| x != 0) {
            rows.push(v);
        }
    }
    for i in (1..rows.len()).rev() {
        let j = rng.below(i as u64 + 1) as usize;
        rows.swap(i, j);
    }
    rows
}

/// cyclic orders of a generated abelian group: mostly 1, a few non-trivial factors with
/// repeated / coprime / nested prime powers, each factor below 2^fbits (so that the
/// relation matrix has small entries), product below 2^maxbits
fn gen_group(n: usize, kind: u8, maxbits: u32, fbits: u32, rng: &mut SplitMix) -> Vec<u128> {
    let mut d = vec![1u128; n];
    let small = [2u128, 2, 2, 3, 3, 4, 5, 7, 8, 9, 11, 16, 25, 27, 32, 49, 64, 101, 128, 243, 256, 1009, 4096, 65537];
    let mut bits = 0u32;
    let put = |d: &mut Vec<u128>, pos: usize, f: u128, bits: &mut u32| {
        let fb = 128 - f.leading_zeros();
        let db = 128 - d[pos].leading_zeros();
        if *bits + fb <= maxbits && db + fb <= fbits + 1 {
            d[pos] *= f;
            *bits += fb;
        }
    };
    if kind % 6 == 5 || kind >= 11 {
        // large cyclic group as a product of pairwise coprime factors (distinct primes)
        // kind 11: index around 2^60, the boundary between one and two CRT primes for its minors;
        // kind 12, 13: above 2^62 (two and more CRT primes)
        let target = match kind {
            11 | 14 => 60 + rng.below(4) as u32,
            12 => 62 + rng.below((maxbits - 62) as u64 + 1) as u32,
            13 => maxbits - rng.below(10) as u32,
            _ => 30 + rng.below((maxbits - 30) as u64 + 1) as u32,
        };
        let mut used: Vec<u64> = vec![];
        let mut pos = 0;
        let lo = fbits.min(12).max(3);
        while bits + lo <= target && pos < n {
            let pb = (lo + rng.below((fbits.max(lo) - lo) as u64 + 1) as u32).min(target - bits).max(3);
            let p = prime64(pb, rng);
            if !used.contains(&p) {
                used.push(p);
                put(&mut d, pos, p as u128, &mut bits);
                pos += 1;
            }
        }
        // shuffle positions
        for i in (1..n).rev() {
            let j = rng.below(i as u64 + 1) as usize;
            d.swap(i, j);
        }
        return d;
    }
    let nfac = match kind % 6 {
        0 => 0,
        1 => 1,
        2 => 2,
        3 => 3,
        _ => 1 + rng.below(6) as usize,
    };
    for _ in 0..nfac {
        let pos = rng.below(n as u64) as usize;
        let f: u128 = match rng.below(6) {
            0 => small[rng.below(small.len() as u64) as usize],
            1 => small[rng.below(8) as usize],
            2 => {
                // a larger random odd factor
                let b = 1 + rng.below(fbits as u64) as u32;
                (rng.next() as u128 >> (64 - b)) | 1
            }
            3 => {
                // repeated factor: copy another entry
                let o = d[rng.below(n as u64) as usize];
                if o > 1 {
                    o
                } else {
                    6
                }
            }
            4 => 1u128 << (1 + rng.below(fbits as u64 - 1)),
            _ => {
                let b = 1 + rng.below(fbits as u64) as u32;
                ((rng.next() as u128) >> (64 - b)).max(2)
            }
        };
        put(&mut d, pos, f, &mut bits);
    }
    d
}

// ---------------------------------------------------------------------------
// check "det": det_matz, GFpEchelonBuilder

#[derive(Clone, Debug, Serialize, Deserialize)]
pub struct DenseCase {
    pub shape: String,
    /// primes for the GF(p) echelon check
    pub primes: Vec<u64>,
    /// determinant known by construction (decimal), if any
    #[serde(default)]
    pub known_det: Option<String>,
    pub rows: Vec<Vec<i64>>,
}

fn rand_entry(mag: u8, rng: &mut SplitMix) -> i64 {
    let bits = match mag {
        0 => 1,
        1 => 7,
        2 => 15,
        3 => 31,
        _ => 62,
    };
    let x = rng.next();
    let v = ((x >> 1) >> (63 - bits)) as i64;
    // edge magnitudes now and then
    let v = match rng.below(24) {
        0 => (1i64 << bits) - 1,
        1 => 1i64 << (bits - 1),
        2 => 0,
        _ => v,
    };
    if x & 1 == 1 {
        -v
    } else {
        v
    }
}

pub fn dense_strategy() -> impl Strategy<Value = DenseCase> {
    (
        0u8..12,
        // dimension class and raw dimension
        0u8..8,
        any::<u16>(),
        // magnitude class: 0..4 fixed, 5 = mixed per entry
        0u8..6,
        // density per mille of non-zero entries
        prop_oneof![3 => Just(1000u32), 2 => 300u32..1000, 1 => 50u32..300],
        any::<u64>(),
    )
        .prop_map(|(shape, dc, dr, mag, dens, seed)| {
            let mut rng = SplitMix(seed);
            let cap = match dc {
                0 | 1 => 6,
                2 | 3 | 4 => 20,
                5 | 6 => 40,
                _ => 60,
            };
            let n = 1 + pick_idx(dr, cap);
            let ent = |rng: &mut SplitMix| -> i64 {
                if (rng.below(1000) as u32) >= dens {
                    return 0;
                }
                let m = if mag == 5 { rng.below(5) as u8 } else { mag };
                rand_entry(m, rng)
            };
            let mut known: Option<W> = None;
            let (name, rows): (&str, Vec<Vec<i64>>) = match shape {
                0 | 1 | 2 => ("random", (0..n).map(|_| (0..n).map(|_| ent(&mut rng)).collect()).collect()),
                3 => {
                    // signed permutation with generated diagonal + sparse perturbation (sign handling)
                    let mut perm: Vec<usize> = (0..n).collect();
                    for i in (1..n).rev() {
                        let j = rng.below(i as u64 + 1) as usize;
                        perm.swap(i, j);
                    }
                    let mut m = vec![vec![0i64; n]; n];
                    for i in 0..n {
                        let mut v = rand_entry(if mag == 5 { 1 } else { mag.min(3) }, &mut rng);
                        if v == 0 {
                            v = 1;
                        }
                        m[i][perm[i]] = v;
                    }
                    let pert = rng.below(3) as usize * n / 4;
                    for _ in 0..pert {
                        let (i, j) = (rng.below(n as u64) as usize, rng.below(n as u64) as usize);
                        if m[i][j] == 0 {
                            m[i][j] = rand_entry(1, &mut rng);
                        }
                    }
                    if pert == 0 {
                        // pure signed permutation: det = sign(perm) * prod
                        let mut sg = 1i32;
                        let mut seen = vec![false; n];
                        for i in 0..n {
                            if !seen[i] {
                                let mut len = 0;
                                let mut j = i;
                                while !seen[j] {
                                    seen[j] = true;
                                    j = perm[j];
                                    len += 1;
                                }
                                if len % 2 == 0 {
                                    sg = -sg;
                                }
                            }
                        }
                        let mut d = w_from_i128(sg as i128);
                        for i in 0..n {
                            d = d * w_from_i128(m[i][perm[i]] as i128);
                        }
                        known = Some(d);
                    }
                    ("permutation", m)
                }
                4 | 5 | 6 => {
                    // U * diag(d) * V
                    let dbits = match mag {
                        0 => 1,
                        1 => 4,
                        2 => 10,
                        3 => 20,
                        4 => 40,
                        _ => 1 + rng.below(30) as u32,
                    };
                    let d: Vec<i128> = (0..n)
                        .map(|_| {
                            let v = ((rng.next() >> (64 - dbits)) as i128).max(1);
                            match rng.below(4) {
                                0 => 1,
                                1 => -v,
                                _ => v,
                            }
                        })
                        .collect();
                    let mut m = diag_matrix(&d);
                    let limit: i128 = match shape {
                        4 => 1 << 20,
                        5 => 1 << 40,
                        _ => (1 << 62) - 1,
                    };
                    let limit = limit.max(d.iter().map(|x| x.abs()).max().unwrap_or(1));
                    let nops = 1 + rng.below(200) as u32;
                    let sign = scramble(&mut m, nops, limit, &mut rng);
                    let mut det = w_from_i128(sign as i128);
                    for x in &d {
                        det = det * w_from_i128(*x);
                    }
                    known = Some(det);
                    ("UDV", to_i64(&m))
                }
                7 | 8 => {
                    // near-singular: last row = combination of the others + a small perturbation
                    let mut m: Vec<Vec<i64>> = (0..n).map(|_| (0..n).map(|_| rand_entry(mag.min(2), &mut rng)).collect()).collect();
                    if n >= 2 {
                        let mut v = vec![0i64; n];
                        for _ in 0..3 {
                            let j = rng.below(n as u64 - 1) as usize;
                            let c = [1i64, -1, 2, -3][rng.below(4) as usize];
                            for k in 0..n {
                                v[k] += c * m[j][k];
                            }
                        }
                        let k = rng.below(n as u64) as usize;
                        v[k] += [1i64, -1, 2, 7][rng.below(4) as usize];
                        m[n - 1] = v;
                    }
                    ("near-singular", m)
                }
                9 => {
                    // singular
                    let mut m: Vec<Vec<i64>> = (0..n).map(|_| (0..n).map(|_| ent(&mut rng)).collect()).collect();
                    match rng.below(3) {
                        0 if n >= 2 => {
                            let j = rng.below(n as u64 - 1) as usize;
                            m[n - 1] = m[j].clone();
                        }
                        1 => {
                            let c = rng.below(n as u64) as usize;
                            for r in m.iter_mut() {
                                r[c] = 0;
                            }
                        }
                        _ if n >= 3 => {
                            let (a, b) = (rng.below(n as u64 - 1) as usize, rng.below(n as u64 - 1) as usize);
                            let v: Vec<i64> = (0..n).map(|k| (m[a][k] / 4) - (m[b][k] / 4)).collect();
                            m[a] = m[a].iter().map(|x| x / 4).collect();
                            m[b] = m[b].iter().map(|x| x / 4).collect();
                            m[n - 1] = v;
                        }
                        _ => {
                            m[0] = vec![0; n];
                        }
                    }
                    known = Some(W::ZERO);
                    ("singular", m)
                }
                _ => {
                    // triangular with generated diagonal, rows permuted
                    let mut m = vec![vec![0i64; n]; n];
                    let mut det = W::ONE;
                    for i in 0..n {
                        for j in i + 1..n {
                            m[i][j] = ent(&mut rng);
                        }
                        let mut v = rand_entry(if mag == 5 { 2 } else { mag }, &mut rng);
                        if v == 0 {
                            v = -1;
                        }
                        m[i][i] = v;
                        det = det * w_from_i128(v as i128);
                    }
                    let mut sg = 1;
                    for i in (1..n).rev() {
                        let j = rng.below(i as u64 + 1) as usize;
                        if i != j {
                            m.swap(i, j);
                            sg = -sg;
                        }
                    }
                    if sg < 0 {
                        det = -det;
                    }
                    known = Some(det);
                    ("triangular-permuted", m)
                }
            };
            let primes = vec![prime64(60, &mut rng), prime64(61, &mut rng), prime64(62, &mut rng)];
            DenseCase {
                shape: name.to_string(),
                primes,
                known_det: known.map(|d| d.to_string()),
                rows,
            }
        })
}

fn exact_det(rows: &[Vec<i64>], l: &mut Local) -> Result<(W, usize), Fail> {
    let (d, k) = det_crt(rows);
    // cross-check inside the kit where Bareiss is affordable
    let n = rows.len();
    let hb = linalg::hadamard_bits(rows).unwrap_or(0) as usize;
    if n <= 24 || n * n * n * (hb / 64 + 1) * (hb / 64 + 1) <= 40_000_000 {
        if let Some(b) = det_bareiss(rows) {
            l.label("oracle:bareiss-crosscheck");
            if b != d {
                return Err(Fail::new("HARNESS|oracle-disagreement", format!("kit: Bareiss {} != CRT {}", b, d)));
            }
        }
    }
    Ok((d, k))
}

pub fn check_dense(c: &DenseCase, l: &mut Local) -> Result<(), Fail> {
    let n = c.rows.len();
    if n == 0 || n > 60 || c.rows.iter().any(|r| r.len() != n) {
        return Err(Fail::new("HARNESS|out-of-domain", "square matrix of dimension 1..60 expected"));
    }
    let (det, _) = exact_det(&c.rows, l)?;
    if let Some(k) = &c.known_det {
        if det.to_string() != *k {
            return Err(Fail::new(
                "HARNESS|construction-disagreement",
                format!("determinant by construction {} != kit {}", k, det),
            ));
        }
        l.label("det:known-by-construction");
    }
    l.case();
    l.label("det");
    l.label(&format!("det:shape:{}", c.shape));
    let lg = log2_abs(&det);
    let bits = lg.map_or(0.0, |x| x.round());
    // number of CRT primes det_matz needs: smallest k with 60k >= round(log2|det|)
    let ncrt = ((bits as usize) + 59) / 60;
    l.label(match ncrt {
        0 => "det:crt-primes:0",
        1 => "det:crt-primes:1",
        2..=4 => "det:crt-primes:2-4",
        5..=10 => "det:crt-primes:5-10",
        11..=20 => "det:crt-primes:11-20",
        _ => "det:crt-primes:>20",
    });
    l.label(if det.is_zero() {
        "det:zero"
    } else if det.is_negative() {
        "det:negative"
    } else {
        "det:positive"
    });
    l.label(match n {
        1..=9 => "det:dim:1-9",
        10..=24 => "det:dim:10-24(blocked-elimination)",
        _ => "det:dim:25-60(blocked-elimination)",
    });
    if n >= 8 && ncrt >= 2 {
        l.nontrivial_of(&c.rows);
        l.sample("det:nontrivial", || json!({"dim": n, "shape": c.shape, "crt_primes": ncrt, "log2": lg}));
    }

    // det_matz: documented domain det != 0, round(log2|det|) in 1..=4032
    if let Some(lg) = lg {
        if bits >= 1.0 && bits <= 4032.0 {
            let refs: Vec<&[i64]> = c.rows.iter().map(|r| &r[..]).collect();
            let got = lib!("det_matz", l, intdense::det_matz(refs, lg));
            let got: W = w_resize(&got);
            if got != det {
                let class = if got == -det { "det_matz|wrong-sign" } else { "det_matz|wrong-det" };
                return Err(Fail::new(
                    class,
                    format!("det_matz = {} but the determinant of the {}x{} matrix is {}", got, n, n, det),
                ));
            }
            l.label("det_matz:called");
        } else {
            l.label("det_matz:not-callable(|det|<2 or too large)");
        }
    } else {
        l.label("det_matz:not-callable(det=0)");
    }

    // GF(p) echelon: det mod p with sign, singular detection
    for &p in &c.primes {
        if !(p > (1 << 59) && p < (1 << 62) && ref_isprime64(p)) {
            return Err(Fail::new("HARNESS|out-of-domain", "GF(p) check needs a 60..62-bit prime"));
        }
        let want = w_mod_u64(&det, p);
        let pclass = if p < (1 << 61) { "p<2^61" } else { "p>2^61" };
        let entry = format!("GFpEchelonBuilder({})", pclass);
        let rows = &c.rows;
        let got = lib!(entry, l, {
            let mut b = GFpEchelonBuilder::new(p);
            let mut indep = true;
            for r in rows {
                if !b.add(r) {
                    indep = false;
                    break;
                }
            }
            if indep {
                Some(b.det())
            } else {
                None
            }
        });
        match got {
            None => {
                ensure!(
                    want == 0,
                    format!("{}|independent-row-rejected", entry),
                    "add() reported a dependent row mod {} but det mod p = {} ({}x{} matrix)",
                    p,
                    want,
                    n,
                    n
                );
                l.label("gfp:singular-detected");
            }
            Some(d) => {
                ensure!(
                    d < p,
                    format!("{}|det-not-reduced", entry),
                    "det() = {} is not below p = {}",
                    d,
                    p
                );
                if d != want {
                    let class = if want != 0 && d == p - want { "wrong-sign" } else { "wrong-det" };
                    return Err(Fail::new(
                        format!("{}|{}", entry, class),
                        format!("det() mod {} = {} but det = {} is {} mod p ({}x{} matrix)", p, d, det, want, n, n),
                    ));
                }
                l.label("gfp:det-checked");
            }
        }
    }
    Ok(())
}

// ---------------------------------------------------------------------------
// check "lattice": dense compute_lattice_index

#[derive(Clone, Debug, Serialize, Deserialize)]
pub struct LatCase {
    pub shape: String,
    /// index known by construction (or from the kit's Smith form for the "random" shape)
    #[serde(with = "crate::ser::u128s")]
    pub h: u128,
    /// relative half-width of the supplied bracket, in units of 1e-4
    pub eps_e4: u32,
    /// 0: symmetric bracket, 1: [h(1-eps), h], 2: [h, h(1+eps)]
    pub side: u8,
    pub rows: Vec<Vec<i64>>,
}

const EPS_E4: [u32; 6] = [0, 10, 100, 500, 900, 1];

fn bracket(h: u128, eps_e4: u32, side: u8) -> (f64, f64) {
    let hf = h as f64;
    let e = eps_e4 as f64 * 1e-4;
    let (lo, hi) = match side {
        1 => (hf * (1.0 - e), hf),
        2 => (hf, hf * (1.0 + e)),
        _ => (hf * (1.0 - e), hf * (1.0 + e)),
    };
    // make sure the bracket contains h exactly, whatever the rounding of u128 -> f64
    let lo = lo * (1.0 - 4.0 * f64::EPSILON);
    let hi = hi * (1.0 + 4.0 * f64::EPSILON);
    (lo, hi)
}

/// The dense lattice-index routine cross-checks its floating-point Gram–Schmidt volume
/// against an integer (small minors) or against the CRT determinant (large minors) and
/// panics when they disagree: on ill-conditioned generating sets that is "no answer" from a
/// numerical heuristic, like the explicit give-up panic.
fn numeric_selfcheck(msg: &str) -> bool {
    msg.contains("(d - d.round()).abs() < 0.0001") || msg.starts_with("logdiff=")
}

/// How far the generated basis is scrambled: "light" keeps entries within twice the largest
/// cyclic factor and applies <= n operations (well-conditioned, like reduced relation
/// matrices), "medium" <= 60 operations within 2^10, "heavy" <= 200 operations within 2^24
/// (skewed bases: the floating-point Gram–Schmidt of the library is expected to give up often).
fn conditioning(sel: u8, n: usize, d: &[u128], rng: &mut SplitMix) -> (&'static str, i128, u32) {
    let dmax = d.iter().copied().max().unwrap_or(1) as i128;
    match sel {
        0..=4 => ("light", (2 * dmax).max(3), rng.below(n as u64 + 1) as u32 + n as u32 / 2),
        5..=7 => ("medium", (1i128 << 10).max(dmax), rng.below(60) as u32 + n as u32),
        _ => ("heavy", (1i128 << 24).max(dmax), rng.below(200) as u32 + n as u32),
    }
}

/// basis of a lattice with quotient ⊕ Z/d_i: rows of U·diag(d)·V
fn group_basis(d: &[u128], nops: u32, limit: i128, rng: &mut SplitMix) -> Vec<Vec<i128>> {
    let di: Vec<i128> = d.iter().map(|&x| x as i128).collect();
    let mut m = diag_matrix(&di);
    let limit = limit.max(di.iter().copied().max().unwrap_or(1));
    scramble(&mut m, nops, limit, rng);
    m
}

pub fn lattice_strategy() -> impl Strategy<Value = LatCase> {
    (
        0u8..10,
        0u8..8,
        any::<u16>(),
        0u8..15,
        0u8..6,
        0u8..4,
        0u8..10,
        any::<u64>(),
    )
        .prop_map(|(shape, dc, dr, gkind, epsi, side, cond, seed)| {
            let mut rng = SplitMix(seed);
            let cap = match dc {
                0 | 1 => 5,
                2 | 3 | 4 => 14,
                5 | 6 => 30,
                _ => 48,
            };
            let n = 1 + pick_idx(dr, cap);
            let eps_e4 = EPS_E4[epsi as usize];
            let side = if side >= 3 { 0 } else { side };
            if shape >= 6 {
                // random sparse small relations (class-group like), index from the kit's Smith form;
                // shape 8, 9: only `n` random rows + combinations of them (large index, small entries)
                let basis_only = shape >= 8;
                let nr = if basis_only { n } else { n + 8 + rng.below(12) as usize };
                let mut rows: Vec<Vec<i64>> = (0..nr)
                    .map(|_| {
                        let mut v = vec![0i64; n];
                        let w = 1 + rng.below(5) as usize;
                        for _ in 0..w {
                            let j = rng.below(n as u64) as usize;
                            v[j] = [1i64, -1, 1, -1, 2, -2, 3, -5][rng.below(8) as usize];
                        }
                        v
                    })
                    .collect();
                if basis_only {
                    let b: Vec<Vec<i128>> = rows.iter().map(|r| r.iter().map(|&x| x as i128).collect()).collect();
                    rows = to_i64(&overdetermine(&b, 8 + rng.below(10) as usize, 2, 1 << 12, &mut rng));
                }
                return LatCase {
                    shape: if basis_only { "random-basis+combinations" } else { "random-relations" }.into(),
                    h: 0, // computed by the kit in the check
                    eps_e4,
                    side,
                    rows,
                };
            }
            // group with index below 2^118
            let d = gen_group(n, gkind, 110, if cond < 8 && gkind % 6 != 5 && gkind < 11 { 10 } else { 22 }, &mut rng);
            let h: u128 = d.iter().product();
            let (cond, limit, nops) = conditioning(cond, n, &d, &mut rng);
            let basis = group_basis(&d, nops, limit, &mut rng);
            let extra = 8 + rng.below(10) as usize;
            let split = if shape % 2 == 0 { 3 } else { 0 };
            let rows = overdetermine(&basis, extra, split, (4 * limit).min(1 << 26), &mut rng);
            LatCase {
                shape: format!("group-basis/{}{}", cond, if split > 0 { "+split-rows" } else { "" }),
                h,
                eps_e4,
                side,
                rows: to_i64(&rows),
            }
        })
}

/// index of the row lattice by the kit (Smith form); None if not full rank / guard hit
fn kit_index(rows: &[Vec<i64>]) -> Option<(u128, Vec<u128>)> {
    let n = rows[0].len();
    let s = linalg::smith_normal_form(rows)?;
    if s.len() != n {
        return None;
    }
    let mut h: u128 = 1;
    let mut ds = vec![];
    for x in &s {
        if x.bits() > 120 {
            return None;
        }
        let v = x.digits()[0] as u128 | (x.digits()[1] as u128) << 64;
        h = h.checked_mul(v)?;
        if h >> 120 != 0 {
            return None;
        }
        ds.push(v);
    }
    Some((h, ds))
}

fn lattice_rows_ok(rows: &[Vec<i64>]) -> bool {
    if rows.is_empty() || rows[0].is_empty() {
        return false;
    }
    let n = rows[0].len();
    rows.iter().all(|r| r.len() == n && r.iter().map(|&x| (x as i128) * (x as i128)).sum::<i128>() < (1 << 62))
}

pub fn check_lattice(c: &LatCase, l: &mut Local) -> Result<(), Fail> {
    if !lattice_rows_ok(&c.rows) || c.eps_e4 > 900 {
        return Err(Fail::new("HARNESS|out-of-domain", "lattice rows: equal lengths, squared norms below 2^62, eps <= 0.09"));
    }
    let n = c.rows[0].len();
    // ground truth
    let h = if c.h == 0 {
        match kit_index(&c.rows) {
            Some((h, _)) => h,
            None => {
                l.label("lattice:not-full-rank-or-too-large(skipped)");
                return Ok(());
            }
        }
    } else {
        // cross-check the construction with the kit where it is cheap
        if n <= 10 {
            match kit_index(&c.rows) {
                Some((h, _)) if h == c.h => l.label("oracle:snf-crosscheck"),
                Some((h, _)) => {
                    return Err(Fail::new(
                        "HARNESS|construction-disagreement",
                        format!("index by construction {} != kit {}", c.h, h),
                    ))
                }
                None => {}
            }
        }
        c.h
    };
    let (hmin, hmax) = bracket(h, c.eps_e4, c.side);
    l.case();
    l.label("lattice");
    l.label(&format!("lattice:shape:{}", c.shape));
    l.label(&format!("lattice:eps:{}e-4", c.eps_e4));
    l.label(match 128 - h.leading_zeros() {
        0..=1 => "lattice:index:1",
        2..=30 => "lattice:index:<2^30(float-minor-path)",
        31..=58 => "lattice:index:2^30..2^58",
        59..=62 => "lattice:index:2^58..2^62",
        _ => "lattice:index:>2^62",
    });
    if n >= 8 {
        l.nontrivial_of(&c.rows);
        l.sample("lattice:nontrivial", || json!({"dim": n, "rows": c.rows.len(), "h": h.to_string(), "shape": c.shape}));
    }
    let rows = c.rows.clone();
    match catch(|| intdense::compute_lattice_index(&rows, hmin, hmax)) {
        Ok(got) => {
            l.label("lattice:returned");
            ensure!(
                got == h,
                "intdense::compute_lattice_index|wrong-index",
                "returned {} but the {} rows generate a lattice of index {} in Z^{} (bounds {:e}..{:e})",
                got,
                c.rows.len(),
                h,
                n,
                hmin,
                hmax
            );
        }
        Err(p) if p.msg.contains(GAVE_UP) => {
            l.label("lattice:gave-up");
            l.label(&format!("lattice:gave-up:shape:{}", c.shape));
        }
        Err(p) if numeric_selfcheck(&p.msg) => {
            l.label("lattice:gave-up");
            l.label("lattice:gave-up(float-estimate-selfcheck)");
        }
        Err(p) if debug_only(&p) => {
            l.label(DEBUG_ONLY_LABEL);
            l.label(&format!("{}:intdense::compute_lattice_index@{}", DEBUG_ONLY_LABEL, p.short_loc()));
        }
        Err(p) => {
            return Err(Fail::new(
                format!("intdense::compute_lattice_index|panic@{}", p.short_loc()),
                format!(
                    "panicked at {}: {} (index {}, dim {}, {} rows, bounds {:e}..{:e})",
                    p.loc,
                    crate::engine::truncate(&p.msg, 200),
                    h,
                    n,
                    c.rows.len(),
                    hmin,
                    hmax
                ),
            ));
        }
    }
    Ok(())
}

// ---------------------------------------------------------------------------
// check "snf": SmithNormalForm::{new, reduce}

#[derive(Clone, Debug, Serialize, Deserialize)]
pub struct SnfCase {
    pub shape: String,
    /// cyclic orders of the generated group (any order, ones allowed); empty = ask the kit
    #[serde(with = "u128s_vec")]
    pub group: Vec<u128>,
    pub eps_e4: u32,
    /// generator identifiers (increasing), column j of the dense relation matrix <-> gens[j]
    pub gens: Vec<u32>,
    /// relations: sorted sparse rows (generator, exponent), exponents non-zero
    pub rels: Vec<Vec<(u32, i32)>>,
}

const GEN_IDS: [u32; 64] = [
    2, 3, 5, 7, 11, 13, 17, 19, 23, 29, 31, 37, 41, 43, 47, 53, 59, 61, 67, 71, 73, 79, 83, 89, 97, 101, 103, 107, 109, 113,
    127, 131, 137, 139, 149, 151, 157, 163, 167, 173, 179, 181, 191, 193, 197, 199, 211, 223, 227, 229, 233, 239, 241, 251,
    257, 263, 269, 271, 277, 281, 283, 293, 307, 311,
];

pub fn snf_strategy() -> impl Strategy<Value = SnfCase> {
    (0u8..8, 0u8..8, any::<u16>(), 0u8..15, 0u8..5, 0u8..9, any::<u64>()).prop_map(|(shape, dc, dr, gkind, epsi, cond, seed)| {
        let mut rng = SplitMix(seed);
        let cap = match dc {
            0 | 1 => 4,
            2 | 3 | 4 => 12,
            5 | 6 => 24,
            _ => 40,
        };
        let n = 1 + pick_idx(dr, cap);
        let eps_e4 = EPS_E4[epsi as usize];
        let gens: Vec<u32> = if shape % 2 == 0 {
            GEN_IDS[..n].to_vec()
        } else {
            // sparse identifiers, as after filtering of a large factor base
            let mut g = vec![];
            let mut x = 2u32;
            for _ in 0..n {
                g.push(x);
                x += 1 + rng.below(40) as u32;
            }
            g
        };
        if shape >= 6 {
            // random sparse small relations: group from the kit's Smith form
            let basis_only = shape == 7;
            let nr = if basis_only { n } else { n + 4 + rng.below(12) as usize };
            let mut rels: Vec<Vec<(u32, i32)>> = vec![];
            while rels.len() < nr {
                let w = 1 + rng.below(5) as usize;
                let mut v = std::collections::BTreeMap::new();
                for _ in 0..w {
                    let j = rng.below(n as u64) as usize;
                    v.insert(gens[j], [1i32, -1, 1, -1, 2, -2, 3, -5][rng.below(8) as usize]);
                }
                rels.push(v.into_iter().collect());
            }
            // every generator must occur
            for (j, g) in gens.iter().enumerate() {
                if !rels.iter().any(|r| r.iter().any(|x| x.0 == *g)) {
                    let k = j % rels.len();
                    rels[k].push((*g, 1));
                    rels[k].sort_unstable();
                }
            }
            if basis_only {
                let b: Vec<Vec<i128>> = rels
                    .iter()
                    .map(|r| {
                        let mut v = vec![0i128; n];
                        for &(g, e) in r {
                            v[gens.binary_search(&g).unwrap()] = e as i128;
                        }
                        v
                    })
                    .collect();
                let rows = overdetermine(&b, 2 + rng.below(12) as usize, 2, 1 << 12, &mut rng);
                rels = rows
                    .iter()
                    .map(|r| r.iter().enumerate().filter(|(_, &x)| x != 0).map(|(j, &x)| (gens[j], x as i32)).collect())
                    .collect();
            }
            return SnfCase {
                shape: if basis_only { "random-basis+combinations" } else { "random-relations" }.into(),
                group: vec![],
                eps_e4,
                gens,
                rels,
            };
        }
        let d = gen_group(n, gkind, 98, if cond < 8 && gkind % 6 != 5 && gkind < 11 { 8 } else { 20 }, &mut rng);
        let (cond, limit, nops) = conditioning(cond, n, &d, &mut rng);
        let limit = limit.min(1 << 20);
        let basis = group_basis(&d, nops, limit, &mut rng);
        let extra = 2 + rng.below(14) as usize;
        let split = if shape % 4 == 1 { 2 } else { 0 };
        let rows = overdetermine(&basis, extra, split, (4 * limit).min(1 << 22), &mut rng);
        let rels: Vec<Vec<(u32, i32)>> = rows
            .iter()
            .map(|r| r.iter().enumerate().filter(|(_, &x)| x != 0).map(|(j, &x)| (gens[j], x as i32)).collect())
            .collect();
        SnfCase {
            shape: format!("group-basis/{}{}", cond, if split > 0 { "+split-rows" } else { "" }),
            group: d,
            eps_e4,
            gens,
            rels,
        }
    })
}

fn mulmod_i(a: i128, b: u128, m: u128) -> u128 {
    // (a mod m) * b mod m over 512-bit integers
    let am = a.rem_euclid(m as i128) as u128;
    let r = (BUint::<8>::from(am) * BUint::<8>::from(b % m)) % BUint::<8>::from(m);
    r.digits()[0] as u128 | (r.digits()[1] as u128) << 64
}

pub fn check_snf(c: &SnfCase, l: &mut Local) -> Result<(), Fail> {
    let n = c.gens.len();
    let ok = n >= 1
        && c.gens.windows(2).all(|w| w[0] < w[1])
        && c.rels.len() >= n
        && c.rels.iter().all(|r| {
            !r.is_empty()
                && r.windows(2).all(|w| w[0].0 < w[1].0)
                && r.iter().all(|&(g, e)| e != 0 && e.unsigned_abs() < (1 << 24) && c.gens.binary_search(&g).is_ok())
        })
        && c.gens.iter().all(|g| c.rels.iter().any(|r| r.iter().any(|x| x.0 == *g)))
        && c.eps_e4 <= 900;
    if !ok {
        return Err(Fail::new("HARNESS|out-of-domain", "relations must be sorted sparse rows over the listed generators"));
    }
    // dense copy for the kit
    let dense: Vec<Vec<i64>> = c
        .rels
        .iter()
        .map(|r| {
            let mut v = vec![0i64; n];
            for &(g, e) in r {
                v[c.gens.binary_search(&g).unwrap()] = e as i64;
            }
            v
        })
        .collect();
    let (h, want_inv): (u128, Vec<u128>) = if c.group.is_empty() {
        match kit_index(&dense) {
            Some((h, ds)) if h >> 100 == 0 => (h, invariant_factors(&ds)),
            _ => {
                l.label("snf:not-full-rank-or-too-large(skipped)");
                return Ok(());
            }
        }
    } else {
        let h: u128 = c.group.iter().product();
        if n <= 8 {
            match kit_index(&dense) {
                Some((hk, ds)) => {
                    if hk != h || invariant_factors(&ds) != invariant_factors(&c.group) {
                        return Err(Fail::new(
                            "HARNESS|construction-disagreement",
                            format!("group by construction {:?} != kit Smith form {:?}", c.group, ds),
                        ));
                    }
                    l.label("oracle:snf-crosscheck");
                }
                None => {}
            }
        }
        (h, invariant_factors(&c.group))
    };
    let (hmin, hmax) = bracket(h, c.eps_e4, 0);
    l.case();
    l.label("snf");
    l.label(&format!("snf:shape:{}", c.shape));
    l.label(match want_inv.len() {
        0 => "snf:group:trivial",
        1 => "snf:group:cyclic",
        2 => "snf:group:rank2",
        _ => "snf:group:rank>=3",
    });
    if h >> 63 != 0 {
        l.label("snf:h>=2^63(256-bit-reduction-path)");
    }
    if want_inv.len() >= 2 {
        l.nontrivial_of(&c.rels);
        l.sample("snf:noncyclic", || json!({"gens": n, "rels": c.rels.len(), "invariants": want_inv.iter().map(|x| x.to_string()).collect::<Vec<_>>()}));
    }

    // new() = lattice index of the relation matrix (may give up), then reduce()
    let rels = c.rels.clone();
    let mut snf = match catch(|| SmithNormalForm::new(&rels, vec![], hmin, hmax)) {
        Ok(s) => s,
        Err(p) if p.msg.contains(GAVE_UP) || numeric_selfcheck(&p.msg) => {
            l.label("snf:index-gave-up");
            l.label(&format!("snf:index-gave-up:shape:{}", c.shape));
            return Ok(());
        }
        Err(p) if debug_only(&p) => {
            l.label(DEBUG_ONLY_LABEL);
            l.label(&format!("{}:SmithNormalForm::new@{}", DEBUG_ONLY_LABEL, p.short_loc()));
            return Ok(());
        }
        Err(p) => {
            return Err(Fail::new(
                format!("SmithNormalForm::new|panic@{}", p.short_loc()),
                format!("panicked at {}: {} (group {:?})", p.loc, crate::engine::truncate(&p.msg, 200), want_inv),
            ))
        }
    };
    ensure!(
        snf.h == h,
        "SmithNormalForm::new|wrong-index",
        "h = {} but the relation lattice has index {} ({} generators, {} relations)",
        snf.h,
        h,
        n,
        c.rels.len()
    );
    lib!("SmithNormalForm::reduce", l, snf.reduce());
    l.label("snf:reduced");
    // diagonal, square, consistent sizes
    let m = snf.rows.len();
    ensure!(
        snf.gens.len() == m && snf.rows.iter().all(|r| r.len() == m) && (snf.q.len() == m && snf.q.iter().all(|r| r.len() == m)),
        "SmithNormalForm::reduce|shape",
        "rows {}x?, gens {}, q {}x?",
        m,
        snf.gens.len(),
        snf.q.len()
    );
    let mut diag: Vec<u128> = vec![];
    let mut prod: u128 = 1;
    for i in 0..m {
        for j in 0..m {
            if i != j {
                ensure!(
                    snf.rows[i][j] == 0,
                    "SmithNormalForm::reduce|not-diagonal",
                    "entry [{},{}] = {} of the reduced presentation is not zero",
                    i,
                    j,
                    snf.rows[i][j]
                );
            }
        }
        let d = snf.rows[i][i];
        ensure!(d >= 1, "SmithNormalForm::reduce|non-positive-diagonal", "diagonal entry {} = {}", i, d);
        diag.push(d as u128);
        prod = prod.checked_mul(d as u128).ok_or_else(|| {
            Fail::new("SmithNormalForm::reduce|wrong-product", format!("product of the diagonal {:?} overflows", diag))
        })?;
    }
    ensure!(
        prod == h,
        "SmithNormalForm::reduce|wrong-product",
        "diagonal {:?} multiplies to {} but the lattice index is {}",
        diag,
        prod,
        h
    );
    let got_inv = invariant_factors(&diag);
    ensure!(
        got_inv == want_inv,
        "SmithNormalForm::reduce|wrong-group",
        "diagonal {:?} defines the group with invariant factors {:?}, the quotient of the relation lattice has {:?}",
        diag,
        got_inv,
        want_inv
    );
    // transform: generator -> coordinates (q[i][j] mod d_j) must define a surjective homomorphism
    // from Z^gens / relations onto ⊕ Z/d_j (hence an isomorphism, both have order h)
    let mut phi: std::collections::BTreeMap<u32, Vec<u128>> = std::collections::BTreeMap::new();
    for i in 0..m {
        let v: Vec<u128> = (0..m).map(|j| snf.q[i][j].rem_euclid(diag[j] as i128) as u128).collect();
        phi.insert(snf.gens[i], v);
    }
    for (p, rel) in snf.removed.iter().rev() {
        let mut v = vec![0u128; m];
        for (g, e) in rel {
            let Some(w) = phi.get(g) else {
                return Err(Fail::new(
                    "SmithNormalForm::reduce|transform-inconsistent",
                    format!("removed generator {} is expressed with generator {} which has no coordinates", p, g),
                ));
            };
            for j in 0..m {
                v[j] = (v[j] + mulmod_i(*e, w[j], diag[j])) % diag[j];
            }
        }
        phi.insert(*p, v);
    }
    for g in &c.gens {
        ensure!(
            phi.contains_key(g),
            "SmithNormalForm::reduce|transform-inconsistent",
            "generator {} has no coordinates (neither kept nor removed)",
            g
        );
    }
    for (ri, r) in c.rels.iter().enumerate() {
        for j in 0..m {
            let mut s = 0u128;
            for &(g, e) in r {
                s = (s + mulmod_i(e as i128, phi[&g][j], diag[j])) % diag[j];
            }
            ensure!(
                s == 0,
                "SmithNormalForm::reduce|transform-inconsistent",
                "input relation {} does not map to 0 in the factor Z/{} (coordinate {}): the generator coordinates are not a homomorphism",
                ri,
                diag[j],
                j
            );
        }
    }
    if m > 0 {
        // surjective: rows of q together with diag(d) generate Z^m
        let mut stack: Vec<Vec<W>> = vec![];
        for i in 0..m {
            stack.push((0..m).map(|j| w_from_i128(phi[&snf.gens[i]][j] as i128)).collect());
        }
        for i in 0..m {
            stack.push((0..m).map(|j| if i == j { w_from_i128(diag[j] as i128) } else { W::ZERO }).collect());
        }
        match linalg::smith_normal_form_w(stack) {
            Some(s) => {
                ensure!(
                    s.len() == m && s.iter().all(|x| *x == linalg::UW::ONE),
                    "SmithNormalForm::reduce|transform-inconsistent",
                    "the generator coordinates do not generate the group ⊕ Z/{:?}",
                    diag
                );
                l.label("snf:transform-checked");
            }
            None => l.label("snf:transform-surjectivity-not-decided"),
        }
    } else {
        l.label("snf:transform-checked");
    }
    Ok(())
}

// ---------------------------------------------------------------------------
// check "sparse": SparseMat::{detz, detp4}

#[derive(Clone, Debug, Serialize, Deserialize)]
pub struct SparseCase {
    pub shape: String,
    /// run detz through a 2-thread rayon pool as well
    pub pool: bool,
    pub primes: Vec<u64>,
    pub rows: Vec<Vec<(u32, i32)>>,
}

fn small_coef(rng: &mut SplitMix, big: bool) -> i32 {
    match rng.below(if big { 12 } else { 10 }) {
        0..=3 => 1,
        4..=7 => -1,
        8 => 2 + rng.below(8) as i32,
        9 => -(2 + rng.below(8) as i32),
        10 => 10 + rng.below(300) as i32,
        _ => -(10 + rng.below(32000) as i32),
    }
}

fn sparse_row(n: usize, w: usize, big: bool, rng: &mut SplitMix) -> Vec<(u32, i32)> {
    let mut cols: Vec<u32> = (0..w).map(|_| rng.below(n as u64) as u32).collect();
    cols.sort_unstable();
    cols.dedup();
    cols.into_iter().map(|j| (j, small_coef(rng, big))).collect()
}

fn sparse_norm(rows: &[Vec<(u32, i32)>]) -> u64 {
    rows.iter()
        .map(|r| {
            let pos: i64 = r.iter().filter(|x| x.1 > 0).map(|x| x.1 as i64).sum();
            let neg: i64 = r.iter().filter(|x| x.1 < 0).map(|x| -(x.1 as i64)).sum();
            pos.max(neg) as u64
        })
        .max()
        .unwrap_or(0)
}

fn build_sparse(shape: u8, n: usize, rng: &mut SplitMix) -> (&'static str, Vec<Vec<(u32, i32)>>) {
    match shape {
        0 | 1 | 2 | 3 => {
            // class-group like: diagonal-free random sparse rows, 2..6 non-zeros, mostly ±1
            let big = shape == 3;
            let rows = (0..n).map(|_| sparse_row(n, 2 + rng.below(5) as usize, big, rng)).collect();
            (if big { "random-sparse-bigcoef" } else { "random-sparse" }, rows)
        }
        4 | 5 => {
            // permuted triangular with generated diagonal: |det| = prod diag by construction
            let mut perm: Vec<usize> = (0..n).collect();
            for i in (1..n).rev() {
                let j = rng.below(i as u64 + 1) as usize;
                perm.swap(i, j);
            }
            let mut cperm: Vec<usize> = (0..n).collect();
            for i in (1..n).rev() {
                let j = rng.below(i as u64 + 1) as usize;
                cperm.swap(i, j);
            }
            let mut rows = vec![vec![]; n];
            for i in 0..n {
                let mut r: Vec<(u32, i32)> = vec![];
                let dg = match rng.below(4) {
                    0 => 1,
                    1 => -1,
                    2 => 2 + rng.below(5) as i32,
                    _ => -(1 + rng.below(3) as i32),
                };
                r.push((cperm[i] as u32, dg));
                let k = rng.below(4) as usize;
                for _ in 0..k {
                    if i + 1 < n {
                        let j = i + 1 + rng.below((n - i - 1) as u64) as usize;
                        if !r.iter().any(|x| x.0 == cperm[j] as u32) {
                            r.push((cperm[j] as u32, small_coef(rng, false)));
                        }
                    }
                }
                r.sort_unstable();
                rows[perm[i]] = r;
            }
            ("permuted-triangular", rows)
        }
        6 => {
            // singular: duplicate row / zero column / dependent combination
            let mut rows: Vec<Vec<(u32, i32)>> = (0..n).map(|_| sparse_row(n, 2 + rng.below(5) as usize, false, rng)).collect();
            match rng.below(3) {
                0 => {
                    let (a, b) = (rng.below(n as u64) as usize, rng.below(n as u64) as usize);
                    if a != b {
                        rows[a] = rows[b].clone();
                    } else {
                        rows[a] = vec![];
                    }
                }
                1 => {
                    let c = rng.below(n as u64) as u32;
                    for r in rows.iter_mut() {
                        r.retain(|x| x.0 != c);
                    }
                }
                _ => {
                    // row_a = row_b - row_c
                    let (a, b, c2) = (0usize, 1 + rng.below(n as u64 - 1) as usize, 1 + rng.below(n as u64 - 1) as usize);
                    let mut v = std::collections::BTreeMap::new();
                    for &(j, e) in &rows[b] {
                        *v.entry(j).or_insert(0i32) += e;
                    }
                    for &(j, e) in &rows[c2] {
                        *v.entry(j).or_insert(0i32) -= e;
                    }
                    rows[a] = v.into_iter().filter(|x| x.1 != 0 && x.1.abs() < 30000).collect();
                }
            }
            ("singular", rows)
        }
        7 => {
            // band: diagonal + neighbours (structured, still non-derogatory in general)
            let rows = (0..n)
                .map(|i| {
                    let mut r = vec![(i as u32, 2 + rng.below(3) as i32)];
                    if i + 1 < n {
                        r.push((i as u32 + 1, small_coef(rng, false)));
                    }
                    if i > 0 && rng.below(2) == 0 {
                        r.push((i as u32 - 1, small_coef(rng, false)));
                    }
                    if i == n - 1 {
                        r.push((0, 1));
                    }
                    r.sort_unstable();
                    r.dedup_by_key(|x| x.0);
                    r
                })
                .collect();
            ("band", rows)
        }
        _ => {
            // degenerate Krylov sequence: identity-like / block-diagonal / permutation matrices
            let rows: Vec<Vec<(u32, i32)>> = match rng.below(3) {
                0 => (0..n).map(|i| vec![(i as u32, if rng.below(3) == 0 { -1 } else { 1 })]).collect(),
                1 => {
                    // two independent cyclic blocks
                    let h = n / 2;
                    (0..n)
                        .map(|i| {
                            let (lo, len) = if i < h { (0, h) } else { (h, n - h) };
                            vec![((lo + (i - lo + 1) % len) as u32, 1 + rng.below(2) as i32)]
                        })
                        .collect()
                }
                _ => {
                    let mut perm: Vec<usize> = (0..n).collect();
                    for i in (1..n).rev() {
                        let j = rng.below(i as u64 + 1) as usize;
                        perm.swap(i, j);
                    }
                    (0..n).map(|i| vec![(perm[i] as u32, 1)]).collect()
                }
            };
            ("structured(identity/blocks/permutation)", rows)
        }
    }
}

pub fn sparse_strategy(maxn: usize) -> impl Strategy<Value = SparseCase> {
    (0u8..10, 0u8..6, any::<u16>(), any::<bool>(), any::<u64>()).prop_map(move |(shape, dc, dr, pool, seed)| {
        let mut rng = SplitMix(seed);
        let cap = match dc {
            0 | 1 => 12,
            2 | 3 => 40,
            4 => 80,
            _ => maxn,
        }
        .min(maxn);
        let n = 8 + pick_idx(dr, cap - 7);
        let (name, rows) = build_sparse(shape, n, &mut rng);
        // detp4 primes: p * norm < 2^63
        let norm = sparse_norm(&rows).max(1);
        let maxbits = (62 - (64 - norm.leading_zeros())).min(61);
        let lo = maxbits.min(40);
        let primes = (0..4).map(|i| prime64(if i == 0 { maxbits } else { lo + rng.below((maxbits - lo) as u64 + 1) as u32 }, &mut rng)).collect();
        SparseCase {
            shape: name.to_string(),
            pool: pool && n <= 60,
            primes,
            rows,
        }
    })
}

/// start vector of the library's Wiedemann iteration (only used to *classify* an input
/// as degenerate for that fixed vector; expected values never depend on it)
fn wiedemann_start(n: usize) -> Vec<u64> {
    let (mut x, mut y) = (0u64, 1u64);
    (0..n)
        .map(|_| {
            (x, y) = (y, (x + y) % 65537);
            y
        })
        .collect()
}

/// The scalar sequence e_0^T M^k v has a minimal polynomial of degree n iff both Krylov
/// spaces are the whole space.
fn krylov_degenerate(dense: &[Vec<i64>]) -> bool {
    let n = dense.len();
    let q = linalg::crt_primes(1)[0];
    let mut e0 = vec![0u64; n];
    e0[0] = 1;
    krylov_rank_left(dense, &e0, q) < n || krylov_rank_right(dense, &wiedemann_start(n), q) < n
}

fn sparse_valid(rows: &[Vec<(u32, i32)>], minn: usize) -> bool {
    let n = rows.len();
    n >= minn
        && n < 65536
        && rows.iter().all(|r| {
            r.windows(2).all(|w| w[0].0 < w[1].0) && r.iter().all(|&(j, e)| (j as usize) < n && e != 0 && e.abs() < 32768)
        })
        && rows.iter().any(|r| !r.is_empty())
}

pub fn check_sparse(c: &SparseCase, l: &mut Local) -> Result<(), Fail> {
    if !sparse_valid(&c.rows, 8) {
        return Err(Fail::new("HARNESS|out-of-domain", "sparse matrix: >= 8 rows, sorted distinct columns, i16 coefficients, not all zero"));
    }
    let n = c.rows.len();
    let norm = sparse_norm(&c.rows);
    let dense = sparse_to_dense(n, &c.rows);
    let (det, k) = exact_det(&dense, l)?;
    l.case();
    l.label("sparse");
    l.label(&format!("sparse:shape:{}", c.shape));
    l.label(match n {
        8..=15 => "sparse:dim:8-15",
        16..=60 => "sparse:dim:16-60",
        61..=120 => "sparse:dim:61-120",
        _ => "sparse:dim:>120",
    });
    l.label(if det.is_zero() { "sparse:det=0" } else { "sparse:det!=0" });
    if n >= 8 && k >= 2 {
        l.nontrivial_of(&c.rows);
        l.sample("sparse:nontrivial", || json!({"dim": n, "shape": c.shape, "log2": log2_abs(&det), "norm": norm}));
    }
    // |det| must fit the library's 1024-word result type comfortably: always true here (Hadamard < 2^5000)
    let degenerate = if det.is_zero() { false } else { krylov_degenerate(&dense) };
    if degenerate {
        l.label("sparse:krylov-degenerate");
    }
    let judge = |entry: &str, got: &W, l: &mut Local| -> Result<(), Fail> {
        if *got == det {
            l.label("sparse:detz-agrees");
            return Ok(());
        }
        if got.is_zero() && degenerate {
            return Err(Fail::new(
                "SparseMat::detz|zero-for-nonsingular|krylov-degenerate",
                format!(
                    "{} = 0 but det = {} ({}x{} matrix whose Krylov sequence e0^T M^k v has a minimal polynomial of degree < n)",
                    entry, det, n, n
                ),
            ));
        }
        let class = if *got == -det { "wrong-sign" } else { "wrong-det" };
        Err(Fail::new(
            format!("SparseMat::detz|{}", class),
            format!("{} = {} but the dense determinant is {} ({}x{}, shape {})", entry, got, det, n, n, c.shape),
        ))
    };
    let mat = lib!("SparseMat::new", l, SparseMat::new(c.rows.clone()));
    let got = lib!("SparseMat::detz", l, mat.detz(None));
    let got: W = w_resize(&got);
    let mut first: Result<(), Fail> = judge("detz(None)", &got, l);
    if c.pool && first.is_ok() {
        let pool = rayon::ThreadPoolBuilder::new()
            .num_threads(2)
            .build()
            .map_err(|e| Fail::new("HARNESS|pool", format!("cannot build a rayon pool: {}", e)))?;
        let got = lib!("SparseMat::detz(pool)", l, mat.detz(Some(&pool)));
        let got: W = w_resize(&got);
        first = judge("detz(Some(pool))", &got, l);
        l.label("sparse:detz-with-pool");
    }
    // detp4 per prime
    if c.primes.len() == 4 {
        for &p in &c.primes {
            if !(p >= (1 << 39) && p % 2 == 1 && (p as u128) * (norm as u128) < (1u128 << 63) && ref_isprime64(p)) {
                return Err(Fail::new("HARNESS|out-of-domain", "detp4 primes: p >= 2^39, p * norm < 2^63"));
            }
        }
        let p4: [u64; 4] = [c.primes[0], c.primes[1], c.primes[2], c.primes[3]];
        let got = lib!("SparseMat::detp4", l, mat.detp4(p4));
        for k in 0..4 {
            let want = w_mod_u64(&det, p4[k]);
            if got[k] == want {
                l.label("sparse:detp4-agrees");
                continue;
            }
            if got[k] == 0 && degenerate {
                if first.is_ok() {
                    first = Err(Fail::new(
                        "SparseMat::detz|zero-for-nonsingular|krylov-degenerate",
                        format!("detp4 = 0 mod {} but det = {} ({}x{} Krylov-degenerate matrix)", p4[k], det, n, n),
                    ));
                }
                continue;
            }
            let class = if want != 0 && got[k] == p4[k] - want { "wrong-sign" } else { "wrong-det" };
            return Err(Fail::new(
                format!("SparseMat::detp4|{}", class),
                format!("detp4 mod {} = {} but det = {} is {} mod p ({}x{}, shape {})", p4[k], got[k], det, want, n, n, c.shape),
            ));
        }
    }
    first
}

// ---------------------------------------------------------------------------
// check "sparse_lattice": intsparse::compute_lattice_index

#[derive(Clone, Debug, Serialize, Deserialize)]
pub struct SparseLatCase {
    pub shape: String,
    pub dim: usize,
    pub eps_e4: u32,
    pub pool: bool,
    /// first `dim` rows: a basis of the lattice; the others: integer combinations of it
    pub rows: Vec<Vec<(u32, i32)>>,
}

pub fn sparse_lattice_strategy(maxn: usize) -> impl Strategy<Value = SparseLatCase> {
    (0u8..6, 0u8..4, any::<u16>(), 0u8..5, any::<bool>(), any::<u64>()).prop_map(move |(shape, dc, dr, epsi, pool, seed)| {
        let mut rng = SplitMix(seed);
        let cap = match dc {
            0 | 1 => 14,
            2 => 30,
            _ => maxn,
        }
        .min(maxn);
        let n = 8 + pick_idx(dr, cap - 7);
        let (name, basis) = build_sparse(if shape >= 4 { 4 } else { 0 }, n, &mut rng);
        let mut rows = basis.clone();
        // few additional generators (the routine draws random dim-subsets of the rows and needs a
        // fair share of them to be non-singular): ±sums of 2, 3 or about dim/2 distinct basis rows
        let extra = 1 + rng.below(4) as usize;
        for _ in 0..extra {
            let m = match rng.below(3) {
                0 => 2,
                1 => 3,
                _ => (n / 2).max(2),
            };
            let mut v = std::collections::BTreeMap::new();
            let mut used = vec![];
            for _ in 0..m {
                let a = rng.below(n as u64) as usize;
                if used.contains(&a) {
                    continue;
                }
                used.push(a);
                let sg = if rng.below(2) == 0 { 1 } else { -1 };
                for &(j, e) in &basis[a] {
                    *v.entry(j).or_insert(0i32) += sg * e;
                }
            }
            let r: Vec<(u32, i32)> = v.into_iter().filter(|x| x.1 != 0).collect();
            if used.len() >= 2 && !r.is_empty() && r.iter().all(|x| x.1.abs() < 30000) {
                rows.push(r);
            }
        }
        SparseLatCase {
            shape: name.to_string(),
            dim: n,
            eps_e4: EPS_E4[epsi as usize],
            pool: pool && n <= 24,
            rows,
        }
    })
}

pub fn check_sparse_lattice(c: &SparseLatCase, l: &mut Local) -> Result<(), Fail> {
    let n = c.dim;
    let ok = c.rows.len() >= n
        && n >= 8
        && c.rows.iter().all(|r| {
            !r.is_empty() && r.windows(2).all(|w| w[0].0 < w[1].0) && r.iter().all(|&(j, e)| (j as usize) < n && e != 0 && e.abs() < 32768)
        })
        && c.eps_e4 <= 900;
    if !ok {
        return Err(Fail::new("HARNESS|out-of-domain", "sparse lattice: rows >= dim >= 8, sorted columns < dim, i16 coefficients"));
    }
    // ground truth: the first `dim` rows are a basis by construction, the others are combinations:
    // index = |det(basis)|; the membership of the other rows is checked with the kit when cheap.
    let basis: Vec<Vec<(u32, i32)>> = c.rows[..n].to_vec();
    let dense = sparse_to_dense(n, &basis);
    let (det, _) = exact_det(&dense, l)?;
    if det.is_zero() {
        l.label("sparse_lattice:singular-basis(skipped)");
        return Ok(());
    }
    let habs = det.unsigned_abs();
    if habs.bits() > 118 {
        l.label("sparse_lattice:index-too-large(skipped)");
        return Ok(());
    }
    let h = habs.digits()[0] as u128 | (habs.digits()[1] as u128) << 64;
    if n <= 12 {
        let all = sparse_to_dense(n, &c.rows);
        match kit_index(&all) {
            Some((hk, _)) if hk == h => l.label("oracle:snf-crosscheck"),
            Some((hk, _)) => {
                return Err(Fail::new(
                    "HARNESS|construction-disagreement",
                    format!("sparse lattice: |det basis| = {} but the kit's Smith form gives index {}", h, hk),
                ))
            }
            None => {}
        }
    }
    let (hmin, hmax) = bracket(h, c.eps_e4, 0);
    l.case();
    l.label("sparse_lattice");
    l.label(&format!("sparse_lattice:shape:{}", c.shape));
    l.nontrivial_of(&c.rows);
    l.sample("sparse_lattice", || json!({"dim": n, "rows": c.rows.len(), "h": h.to_string()}));
    let rows = c.rows.clone();
    let pool = if c.pool {
        Some(
            rayon::ThreadPoolBuilder::new()
                .num_threads(2)
                .build()
                .map_err(|e| Fail::new("HARNESS|pool", format!("cannot build a rayon pool: {}", e)))?,
        )
    } else {
        None
    };
    match catch(|| intsparse::compute_lattice_index(n, &rows, hmin, hmax, pool.as_ref())) {
        Ok(got) => {
            l.label("sparse_lattice:returned");
            let want = bnum::types::U256::cast_from(h);
            ensure!(
                got == want,
                "intsparse::compute_lattice_index|wrong-index",
                "returned {} but the {} rows generate a lattice of index {} in Z^{}",
                got,
                c.rows.len(),
                h,
                n
            );
        }
        Err(p) if p.msg.contains(GAVE_UP) => {
            l.label("sparse_lattice:gave-up");
            l.label(&format!("sparse_lattice:gave-up:shape:{}", c.shape));
            l.sample("sparse_lattice:gave-up", || serde_json::to_value(c).unwrap());
        }
        Err(p) if debug_only(&p) => {
            l.label(DEBUG_ONLY_LABEL);
            l.label(&format!("{}:intsparse::compute_lattice_index@{}", DEBUG_ONLY_LABEL, p.short_loc()));
        }
        Err(p) => {
            return Err(Fail::new(
                format!("intsparse::compute_lattice_index|panic@{}", p.short_loc()),
                format!("panicked at {}: {} (index {}, dim {})", p.loc, crate::engine::truncate(&p.msg, 200), h, n),
            ))
        }
    }
    Ok(())
}

// ---------------------------------------------------------------------------
// check "bm": berlekamp_massey on the domain used by the Wiedemann determinant

#[derive(Clone, Debug, Serialize, Deserialize)]
pub struct BmCase {
    pub shape: String,
    pub p: u64,
    pub seq: Vec<u64>,
}

pub fn bm_strategy() -> impl Strategy<Value = BmCase> {
    (0u8..8, 0u8..6, any::<u16>(), 0u8..6, any::<u64>()).prop_map(|(shape, dc, dr, pk, seed)| {
        let mut rng = SplitMix(seed);
        let p = match pk {
            0 => 65537,
            1 => prime64(62, &mut rng),
            2 => prime64(61, &mut rng),
            3 => prime64(63, &mut rng),
            4 => prime64(20 + rng.below(40) as u32, &mut rng),
            _ => prime64(56, &mut rng),
        };
        let cap = match dc {
            0 | 1 => 6,
            2 | 3 => 24,
            _ => 100,
        };
        let half = 1 + pick_idx(dr, cap);
        let n = 2 * half;
        // order of the recurrence
        let ord = match shape {
            0 | 1 | 2 => half,
            3 => 1 + rng.below(half as u64) as usize,
            4 => 1,
            5 => half.saturating_sub(1).max(1),
            _ => half,
        };
        let taps: Vec<u64> = (0..ord)
            .map(|i| {
                let t = rng.next() % p;
                // the last tap non-zero: order exactly `ord` for generic initial values
                if i == ord - 1 && t == 0 {
                    1
                } else if shape == 6 && rng.below(2) == 0 {
                    0
                } else {
                    t
                }
            })
            .collect();
        let mut seq: Vec<u64> = (0..ord)
            .map(|i| match shape {
                2 if i + 1 < ord => 0, // leading zeros
                _ => rng.next() % p,
            })
            .collect();
        if shape == 2 {
            let last = seq.len() - 1;
            if seq[last] == 0 {
                seq[last] = 1;
            }
        }
        while seq.len() < n {
            let k = seq.len();
            let mut x = 0u64;
            for j in 0..ord {
                x = linalg::addp(x, linalg::mulp(taps[j], seq[k - 1 - j], p), p);
            }
            seq.push(x);
        }
        if shape == 7 {
            // Krylov-like sequence of a small integer matrix is covered by the sparse check; here: all zero
            for x in seq.iter_mut() {
                *x = 0;
            }
        }
        let name = ["full-order", "full-order", "leading-zeros", "lower-order", "geometric", "order-half-1", "sparse-taps", "all-zero"][shape as usize];
        BmCase {
            shape: name.to_string(),
            p,
            seq,
        }
    })
}

pub fn check_bm(c: &BmCase, l: &mut Local) -> Result<(), Fail> {
    let (p, n) = (c.p, c.seq.len());
    if !(p >= 3 && p < (1 << 63) && ref_isprime64(p)) || n < 2 || c.seq.iter().any(|&x| x >= p) {
        return Err(Fail::new("HARNESS|out-of-domain", "berlekamp_massey: odd prime p < 2^63, reduced sequence of length >= 2"));
    }
    let (lc, conn) = massey(p, &c.seq);
    l.case();
    l.label("bm");
    l.label(&format!("bm:shape:{}", c.shape));
    if 2 * lc > n {
        // the shortest recurrence is not determined by n terms: outside the Wiedemann domain
        l.label("bm:complexity>len/2(not-run)");
        return Ok(());
    }
    l.label(if lc == 0 {
        "bm:complexity:0"
    } else if 2 * lc == n {
        "bm:complexity:len/2"
    } else {
        "bm:complexity:<len/2"
    });
    if lc >= 4 {
        l.nontrivial_of(&(p, &c.seq));
    }
    let seq = c.seq.clone();
    let got = lib!("berlekamp_massey", l, intsparse::berlekamp_massey(p, &seq));
    if lc == 0 {
        // all-zero sequence: the routine documents nothing; it returns an empty vector
        ensure!(
            got.is_empty() || (got[0] == 1 && got[1..].iter().all(|&x| x == 0)),
            "berlekamp_massey|zero-sequence",
            "all-zero sequence gave {:?}",
            &got[..got.len().min(8)]
        );
        return Ok(());
    }
    // unique connection polynomial of degree <= L with constant term 1
    ensure!(
        got.len() > lc,
        "berlekamp_massey|too-short",
        "output has {} coefficients, the sequence has linear complexity {}",
        got.len(),
        lc
    );
    for j in 0..got.len() {
        let want = if j <= lc { conn[j] } else { 0 };
        ensure!(
            got[j] == want,
            "berlekamp_massey|wrong-polynomial",
            "coefficient {} is {} but the connection polynomial of the sequence (L = {}, len = {}, p = {}) has {}",
            j,
            got[j],
            lc,
            n,
            p,
            want
        );
    }
    l.label("bm:polynomial-checked");
    Ok(())
}

// ---------------------------------------------------------------------------
// Fixed part

fn fixed_dense() -> Vec<DenseCase> {
    let mut out = vec![];
    let mut rng = SplitMix(0xC19);
    let primes = vec![prime64(60, &mut rng), prime64(61, &mut rng), prime64(62, &mut rng)];
    let mut mk = |shape: &str, rows: Vec<Vec<i64>>| {
        out.push(DenseCase {
            shape: format!("fixed/{}", shape),
            primes: primes.clone(),
            known_det: None,
            rows,
        })
    };
    mk("1x1", vec![vec![5]]);
    mk("1x1-neg", vec![vec![-7]]);
    mk("1x1-big", vec![vec![i64::MAX]]);
    mk("1x1-min", vec![vec![i64::MIN + 1]]);
    mk("2x2-swap", vec![vec![0, 3], vec![5, 0]]);
    mk("2x2", vec![vec![2, 0], vec![0, -3]]);
    // |det| at the CRT capacity boundaries 2^60k: diag(2^30, 2^30) etc.
    for k in 1..=4usize {
        let mut m = vec![vec![0i64; 2 * k]; 2 * k];
        for i in 0..2 * k {
            m[i][i] = 1 << 30;
        }
        mk("diag-2^60k", m.clone());
        m[0][0] = (1 << 30) - 1;
        mk("diag-2^60k-below", m.clone());
        m[0][0] = -((1 << 30) + 1);
        mk("diag-2^60k-above-neg", m);
    }
    // anti-diagonal (permutation sign) for sizes around the 8-row blocking
    for n in [2usize, 3, 4, 5, 8, 9, 10, 11, 16, 17, 18, 24, 25, 33] {
        let mut m = vec![vec![0i64; n]; n];
        for i in 0..n {
            m[i][n - 1 - i] = 2 + (i as i64 % 3);
        }
        mk("antidiagonal", m);
        // cyclic shift
        let mut m = vec![vec![0i64; n]; n];
        for i in 0..n {
            m[i][(i + 1) % n] = if i % 2 == 0 { 3 } else { -2 };
        }
        mk("cyclic-shift", m);
    }
    out
}

// ---------------------------------------------------------------------------

fn run(ctx: &Ctx) {
    ctx.set_rule(
        "det: dense i64 matrices dim 1..60, shapes random (entry magnitudes 1, 2^7, 2^15, 2^31, 2^62 or mixed, densities \
         5..100 %), signed permutations, U·diag(d)·V with generated unimodular U, V (<= 200 elementary operations, answer \
         known by construction), near-singular, singular, permuted triangular; det_matz called with the kit's exact \
         log2|det|; GFpEchelonBuilder with generated 60/61/62-bit primes. lattice / snf: overdetermined generating sets \
         (basis rows of U·diag(d)·V for a generated group ⊕ Z/d_i, some rows split into 2b,3b, + >= 8 combinations) and \
         random sparse relation sets (index from the kit's Smith form), brackets h(1±eps), eps in {0,1e-4,1e-3,1e-2,5e-2,9e-2}. \
         sparse: class-group-like sparse matrices dim 8..120 (quick) / 400 (thorough), permuted triangular (|det| known by \
         construction), singular, band, structured. bm: linear recurrences of prescribed order over generated primes. \
         Oracles: elimination mod 61-bit primes + CRT with Hadamard bound, cross-checked by Bareiss; textbook Smith form; \
         Massey. Non-trivial = dim >= 8 with >= 2 CRT primes, or non-cyclic group, or sparse dim >= 8; distinct by input.",
    );
    ctx.assume("det_matz is given the exact log2|det| (its documented precondition: estimate correct to ~24 bits, |det| >= 2)");
    ctx.assume("lattice rows have small entries (sum of squares below 2^62, as class-group exponent vectors) and the bracket contains the index with hmax'/hmin' < 1.5");
    ctx.assume("the panic \"failed to determine lattice index\" means \"no answer\" and is counted, not flagged");
    ctx.assume("SparseMat::detz / sparse compute_lattice_index are used with >= 8 rows and a non-zero matrix (below 8 rows detz has too few CRT primes to confirm any non-zero value and ends in unreachable!())");
    ctx.assume("berlekamp_massey is checked where the Wiedemann determinant uses it: sequences whose linear complexity L satisfies 2L <= length");
    if let Err(e) = linalg::self_test() {
        ctx.selfcheck_failed(&format!("oracle kit (linalg) self-test: {}", e));
        return;
    }
    let mut l = Local::new();
    for c in fixed_dense() {
        ctx.fixed_case("det", &c, &mut l, check_dense);
    }
    ctx.merge(l);

    // development aid: YQV_C19_ONLY=det,snf restricts the generated part (never set by ./check)
    let only = std::env::var("YQV_C19_ONLY").ok();
    let on = |name: &str| only.as_deref().map_or(true, |s| s.split(',').any(|x| x == name));
    let t0 = std::time::Instant::now();
    let mut times = serde_json::Map::new();
    let lap = |name: &str, times: &mut serde_json::Map<String, Value>| {
        times.insert(name.to_string(), json!((t0.elapsed().as_secs_f64() * 10.0).round() / 10.0));
    };
    if on("det") {
        ctx.par_prop("det", 32, ctx.n(2400, 700_000), dense_strategy, check_dense);
        lap("det", &mut times);
    }
    if on("lattice") {
        ctx.par_prop("lattice", 32, ctx.n(1600, 500_000), lattice_strategy, check_lattice);
        lap("lattice", &mut times);
    }
    if on("snf") {
        ctx.par_prop("snf", 32, ctx.n(1600, 400_000), snf_strategy, check_snf);
        lap("snf", &mut times);
    }
    if on("sparse") {
        let smax = ctx.pick(120, 400);
        ctx.par_prop("sparse", 32, ctx.n(480, 60_000), || sparse_strategy(smax), check_sparse);
        lap("sparse", &mut times);
    }
    if on("sparse_lattice") {
        let lmax = ctx.pick(40, 100);
        ctx.par_prop("sparse_lattice", 32, ctx.n(160, 16_000), || sparse_lattice_strategy(lmax), check_sparse_lattice);
        lap("sparse_lattice", &mut times);
    }
    if on("bm") {
        ctx.par_prop("bm", 32, ctx.n(4000, 1_500_000), bm_strategy, check_bm);
        lap("bm", &mut times);
    }
    ctx.extra("cumulative_wall_s_after_check", Value::Object(times));
    if only.is_some() {
        return;
    }

    for e in [
        "det_matz:called",
        "det:negative",
        "det:positive",
        "det:zero",
        "det:crt-primes:2-4",
        "det:crt-primes:5-10",
        "det:crt-primes:11-20",
        "det:dim:25-60(blocked-elimination)",
        "det:known-by-construction",
        "gfp:det-checked",
        "gfp:singular-detected",
        "lattice:returned",
        "lattice:index:<2^30(float-minor-path)",
        "lattice:index:>2^62",
        "snf:h>=2^63(256-bit-reduction-path)",
        "snf:reduced",
        "snf:group:rank2",
        "snf:group:rank>=3",
        "snf:transform-checked",
        "sparse:detz-agrees",
        "sparse:det=0",
        "sparse:detp4-agrees",
        "sparse_lattice:returned",
        "bm:polynomial-checked",
    ] {
        ctx.essential(e, 3);
    }
    // minors of about 60 bits: the boundary between one and two CRT primes in CRTDetBuilder
    ctx.essential("lattice:index:2^58..2^62", 1);
    // the lattice-index heuristic may give up, but not on most well-conditioned cases
    let (ret, gave) = (ctx.label_count("lattice:returned"), ctx.label_count("lattice:gave-up"));
    if gave > ret {
        ctx.selfcheck_failed(&format!(
            "intdense::compute_lattice_index gave up on {} of {} generated lattices (more than half)",
            gave,
            gave + ret
        ));
    }
    let (ret, gave) = (ctx.label_count("sparse_lattice:returned"), ctx.label_count("sparse_lattice:gave-up"));
    if gave > ret {
        ctx.selfcheck_failed(&format!(
            "intsparse::compute_lattice_index gave up on {} of {} generated lattices (more than half)",
            gave,
            gave + ret
        ));
    }
    let (red, gave) = (ctx.label_count("snf:reduced"), ctx.label_count("snf:index-gave-up"));
    if gave > red {
        ctx.selfcheck_failed(&format!("SmithNormalForm::new gave up on {} of {} presentations (more than half)", gave, gave + red));
    }
}

fn replay(_ctx: &Ctx, check_name: &str, case: &Value) -> Result<(), Fail> {
    match check_name {
        "det" => replay_as::<DenseCase>(case, check_dense),
        "lattice" => replay_as::<LatCase>(case, check_lattice),
        "snf" => replay_as::<SnfCase>(case, check_snf),
        "sparse" => replay_as::<SparseCase>(case, check_sparse),
        "sparse_lattice" => replay_as::<SparseLatCase>(case, check_sparse_lattice),
        "bm" => replay_as::<BmCase>(case, check_bm),
        _ => Err(Fail::new("HARNESS|unknown-check", check_name.to_string())),
    }
}
