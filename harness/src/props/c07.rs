//! C07 — Montgomery modular arithmetic equals ordinary arithmetic modulo n (DESIGN.md C07).
//!
//! Checks:
//!  * "ops":   ZmodN round trip, mul/add/sub/inv/gcd on a generated operation program
//!  * "redc":  ZmodN::redc on double-width values X < n*R
//!  * "redc_large": ZmodN::redc_large on the callers' domain (<= 16 words, X < n*R^2)
//!  * "mg64":  mg_2adic_inv / mg_mul / mg_redc / mg_inv vs reference and vs ZmodN (raw residues)
//!  * "m128":  ecm128's 128-bit Montgomery type vs reference and vs ZmodN (raw residues)
//! Oracle: 4096-bit bnum arithmetic with `%`.

use bnum::BUint;
use proptest::prelude::*;
use serde::{Deserialize, Serialize};
use serde_json::Value;

use crate::engine::{guard, replay_as, Ctx, Fail, Local, PropDef};
use crate::gen::{edgy, edgy64, odd_modulus};
use crate::oracle::int::{ref_gcd, ref_invmod, resize, widen, Ref, U1024};
use yamaquasi::arith_montgomery::{self as am, MInt, ZmodN};
use yamaquasi::Uint;

pub const DEF: PropDef = PropDef {
    id: "C07",
    level: "exploration",
    chk_child: true,
    run,
    replay,
};

fn mint_ref(m: &MInt) -> Ref {
    let mut d = [0u64; 64];
    d[..8].copy_from_slice(&m.0);
    Ref::from_digits(d)
}

fn mint_from_ref(x: &Ref) -> MInt {
    let mut w = [0u64; 8];
    w.copy_from_slice(&x.digits()[..8]);
    MInt(w)
}

fn rpow(k: u32) -> Ref {
    Ref::ONE << (64 * k)
}

// ---------------------------------------------------------------------------
// ops

#[derive(Clone, Debug, Serialize, Deserialize)]
pub struct OpsCase {
    #[serde(with = "crate::ser::dec")]
    pub n: U1024,
    #[serde(with = "crate::ser::dec_vec")]
    pub vals: Vec<U1024>,
    /// (opcode, i, j): 0 mul, 1 add, 2 sub, 3 inv(i), 4 square(i); operands are indices into the value stack
    pub prog: Vec<(u8, u8, u8)>,
}

fn special_operand(sel: u8, n: &U1024, x: U1024, small: u64) -> U1024 {
    let one = U1024::ONE;
    let v = match sel % 14 {
        0 => U1024::ZERO,
        1 => one,
        2 => *n - one,
        3 => (*n - one).saturating_sub(U1024::from(small)),
        4 => *n >> 1,
        5 => (*n >> 1) + one,
        6 => U1024::from(small),
        // a multiple of a small factor candidate (shares a factor with n when n has one)
        7 => {
            let mut v = x;
            for p in [3u64, 5, 7, 11, 13] {
                if (*n % U1024::from(p)).is_zero() {
                    v = (x / U1024::from(p)) * U1024::from(p);
                    break;
                }
            }
            v
        }
        // isqrt-ish: x*y near a multiple of n
        8 => crate::oracle::int::ref_isqrt(n),
        9 => crate::oracle::int::ref_isqrt(n) + one,
        // operands chosen by their *Montgomery residue* (what the word loops see): the value whose residue
        // xR mod n is n-1-small, all ones below the top word, or the generated pattern itself
        10 | 11 | 12 => {
            let k = (n.bits() + 63) / 64;
            let nr: Ref = widen(n);
            let rinv = ref_invmod(&(rpow(k) % nr), &nr).expect("odd modulus");
            let pattern: U1024 = match sel % 12 {
                10 => (*n - one).saturating_sub(U1024::from(small)),
                11 => {
                    // all-ones words with the generated top word
                    let low = (one << (64 * (k - 1))) - one;
                    ((x >> (64 * (k - 1))) << (64 * (k - 1))) | low
                }
                _ => x,
            } % *n;
            crate::oracle::int::narrow::<16>(&((widen(&pattern) * rinv) % nr))
        }
        _ => x,
    };
    v % *n
}

pub fn modulus_strategy() -> impl Strategy<Value = U1024> {
    // each word count 1..8; <= 500 bits is the documented domain
    prop_oneof![
        6 => (1u32..=8, odd_modulus::<16>(512)).prop_map(|(w, n)| {
            let maxb = (64 * w).min(500);
            let n = if n.bits() > maxb { n >> (n.bits() - maxb) } else { n };
            let n = n | U1024::ONE;
            if n.is_one() { U1024::from(3u64) } else { n }
        }),
        // 2^(64k) - small, 2^(64k-1) + small
        2 => (1u32..=8, 0u64..2000, any::<bool>()).prop_map(|(w, s, hi)| {
            let n = if hi {
                if w == 8 { (U1024::ONE << 500) - U1024::from(s | 1) } else { (U1024::ONE << (64 * w)) - U1024::from(s | 1) }
            } else {
                (U1024::ONE << (64 * w - 1).min(499)) + U1024::from(s | 1)
            };
            n
        }),
        // certified primes and prime * tiny factor
        1 => (8u32..=500, 0u32..3, prop_oneof![Just(1u64), Just(3u64), Just(15u64), Just(1001u64)]).prop_map(|(b, i, f)| {
            let p = crate::oracle::int::certified_prime(b.min(490), i);
            p * U1024::from(f)
        }),
        1 => (0u64..64).prop_map(|s| U1024::from(3 + 2 * s)),
    ]
}

pub fn ops_strategy() -> impl Strategy<Value = OpsCase> {
    (
        modulus_strategy(),
        proptest::collection::vec((0u8..16, edgy::<16>(512), 0u64..40), 2..5),
        proptest::collection::vec((0u8..5, any::<u8>(), any::<u8>()), 0..24),
    )
        .prop_map(|(n, raw, prog)| {
            let vals = raw.iter().map(|(sel, x, small)| special_operand(*sel, &n, *x % n, *small)).collect();
            OpsCase { n, vals, prog }
        })
}

pub fn check_ops(c: &OpsCase, l: &mut Local) -> Result<(), Fail> {
    let n = c.n;
    if !n.bit(0) || n < U1024::from(3u64) || n.bits() > 512 {
        return Err(Fail::new("HARNESS|out-of-domain", "modulus must be odd, >= 3, <= 512 bits"));
    }
    let probe = n.bits() > 500;
    let nr: Ref = widen(&n);
    let k = (n.bits() + 63) / 64;
    let r = rpow(k) % nr;
    let zn = guard("ZmodN::new", || ZmodN::new(n))?;
    l.case();
    l.label(&format!("words:{}", k));
    if probe {
        l.label("probe:501..512-bits");
    }
    let tag = |s: &str| -> String {
        if probe {
            format!("PROBE|{}", s)
        } else {
            s.to_string()
        }
    };

    // intermediate of the CIOS multiplication, recomputed by the oracle, to label carry paths
    let rr = rpow(k);
    let ninv = {
        // -n^-1 mod R
        let inv = ref_invmod(&nr, &rr).expect("odd modulus");
        rr - inv
    };
    let mut classify = |a: &Ref, b: &Ref, l: &mut Local| {
        let t = *a * *b;
        let m = ((t % rr) * ninv) % rr;
        let z = (t + m * nr) / rr;
        if z >= rr {
            l.label("carry:overflow-branch");
        }
        if z >= nr {
            l.label("carry:final-subtraction");
        }
    };

    let mut ints: Vec<Ref> = vec![];
    let mut ms: Vec<MInt> = vec![];
    for v in &c.vals {
        if *v >= n {
            return Err(Fail::new("HARNESS|out-of-domain", "operand >= n"));
        }
        let m = guard("ZmodN::from_int", || zn.from_int(*v))?;
        let vr: Ref = widen(v);
        ensure!(
            mint_ref(&m) == (vr * r) % nr,
            tag("ZmodN::from_int|wrong-residue"),
            "from_int({}) mod {} = {:?}, expected x*R mod n = {}",
            v,
            n,
            m.0,
            (vr * r) % nr
        );
        let back = guard("ZmodN::to_int", || zn.to_int(m))?;
        ensure!(
            back == *v,
            tag("ZmodN::to_int|round-trip"),
            "to_int(from_int({})) = {} mod {}",
            v,
            back,
            n
        );
        ints.push(vr);
        ms.push(m);
    }
    let big = c.vals.iter().filter(|v| **v >= (n >> 2)).count();
    if k >= 2 && big >= 2 {
        l.label("multiword-large-operands");
        l.nontrivial_of(&(c.n.digits(), c.vals.iter().map(|v| *v.digits()).collect::<Vec<_>>(), &c.prog));
        l.sample("multiword-large-operands", || serde_json::to_value(c).unwrap());
    }
    // constants
    ensure!(mint_ref(&zn.one()) == r, tag("ZmodN::one|wrong"), "one() is not R mod n for n={}", n);
    ensure!(mint_ref(&zn.zero()).is_zero(), tag("ZmodN::zero|wrong"), "zero() is not 0");

    // gcd / inv of each initial value
    for (i, v) in ints.clone().iter().enumerate() {
        let g = ref_gcd(v, &nr);
        // documented input of ZmodN::gcd is the Montgomery residue xR mod n; gcd(xR, n) = gcd(x, n)
        let got = guard("ZmodN::gcd", || zn.gcd(&ms[i]))?;
        ensure!(
            widen(&got) == g,
            tag("ZmodN::gcd|wrong"),
            "gcd({} , n={}) = {} expected {}",
            c.vals[i],
            n,
            got,
            g
        );
        let inv = guard("ZmodN::inv", || zn.inv(ms[i]))?;
        match inv {
            Some(mi) => {
                ensure!(
                    g.is_one(),
                    tag("ZmodN::inv|some-for-noninvertible"),
                    "inv({}) mod {} returned Some although gcd = {}",
                    c.vals[i],
                    n,
                    g
                );
                let xi = mint_ref(&mi);
                ensure!(xi < nr, tag("ZmodN::inv|range"), "inv result not reduced");
                // xi = x^-1 R  =>  xi * x = R (mod n)
                ensure!(
                    (xi * *v) % nr == r,
                    tag("ZmodN::inv|not-inverse"),
                    "inv({}) mod {}: x * inv != 1",
                    c.vals[i],
                    n
                );
                l.label("inv:some");
            }
            None => {
                ensure!(
                    !g.is_one(),
                    tag("ZmodN::inv|none-for-invertible"),
                    "inv({}) mod {} returned None although gcd = 1",
                    c.vals[i],
                    n
                );
                l.label("inv:none");
            }
        }
    }

    // operation program
    for &(op, i, j) in &c.prog {
        let i = (i as usize) % ms.len();
        let j = (j as usize) % ms.len();
        let (name, m, expect): (&str, MInt, Ref) = match op % 5 {
            0 => {
                classify(&mint_ref(&ms[i]), &mint_ref(&ms[j]), l);
                ("mul", guard("ZmodN::mul", || zn.mul(ms[i], ms[j]))?, (ints[i] * ints[j]) % nr)
            }
            1 => ("add", guard("ZmodN::add", || zn.add(ms[i], ms[j]))?, (ints[i] + ints[j]) % nr),
            2 => ("sub", guard("ZmodN::sub", || zn.sub(ms[i], ms[j]))?, (ints[i] + nr - ints[j]) % nr),
            3 => {
                if !ref_gcd(&ints[i], &nr).is_one() {
                    continue;
                }
                match guard("ZmodN::inv", || zn.inv(ms[i]))? {
                    Some(m) => ("inv", m, ref_invmod(&ints[i], &nr).unwrap()),
                    None => {
                        return Err(Fail::new(tag("ZmodN::inv|none-for-invertible"), format!("inv of unit returned None, n={}", n)))
                    }
                }
            }
            _ => {
                classify(&mint_ref(&ms[i]), &mint_ref(&ms[i]), l);
                ("square", guard("ZmodN::mul", || zn.mul(ms[i], ms[i]))?, (ints[i] * ints[i]) % nr)
            }
        };
        let raw = mint_ref(&m);
        ensure!(
            raw < nr,
            tag(&format!("ZmodN::{}|not-reduced", name)),
            "{} result {} >= n = {}",
            name,
            raw,
            n
        );
        ensure!(
            raw == (expect * r) % nr,
            tag(&format!("ZmodN::{}|wrong-value", name)),
            "{} mod {}: got residue {} expected {} (value {})",
            name,
            n,
            raw,
            (expect * r) % nr,
            expect
        );
        let back = guard("ZmodN::to_int", || zn.to_int(m))?;
        ensure!(
            widen(&back) == expect,
            tag("ZmodN::to_int|wrong-value"),
            "to_int after {} mod {}: got {} expected {}",
            name,
            n,
            back,
            expect
        );
        l.label(&format!("op:{}", name));
        ints.push(expect);
        ms.push(m);
    }
    Ok(())
}

// ---------------------------------------------------------------------------
// redc

#[derive(Clone, Debug, Serialize, Deserialize)]
pub struct RedcCase {
    #[serde(with = "crate::ser::dec")]
    pub n: U1024,
    /// X < n * R, R = 2^(64 * words(n))
    #[serde(with = "crate::ser::dec")]
    pub x: U1024,
}

pub fn redc_strategy() -> impl Strategy<Value = RedcCase> {
    (modulus_strategy(), edgy::<16>(1024), 0u8..8, 0u64..1000).prop_map(|(n, x, mode, small)| {
        let k = (n.bits() + 63) / 64;
        let nr = n << (64 * k); // n <= 512 bits, k <= 8: fits in 1024 bits
        let x = match mode {
            0 => nr - U1024::ONE - U1024::from(small),
            // all-ones high words below n*R: (n-1)*R + (R-1) - small = nR - 1 - small (same), so vary the low part
            1 => ((n - U1024::ONE) << (64 * k)) + (x % (U1024::ONE << (64 * k))),
            2 => {
                // high part all ones up to the size of n, low part generated
                let hi = n - U1024::ONE - U1024::from(small % 3);
                (hi << (64 * k)) | (x & ((U1024::ONE << (64 * k)) - U1024::ONE))
            }
            3 => x & ((U1024::ONE << (64 * k)) - U1024::ONE),
            _ => {
                if x >= nr {
                    x % nr
                } else {
                    x
                }
            }
        };
        let x = if x >= nr { x % nr } else { x };
        RedcCase { n, x }
    })
}

pub fn check_redc(c: &RedcCase, l: &mut Local) -> Result<(), Fail> {
    let n = c.n;
    if !n.bit(0) || n < U1024::from(3u64) || n.bits() > 512 {
        return Err(Fail::new("HARNESS|out-of-domain", "modulus must be odd, >= 3, <= 512 bits"));
    }
    let k = (n.bits() + 63) / 64;
    if c.x >= (n << (64 * k)) {
        return Err(Fail::new("HARNESS|out-of-domain", "X >= n*R"));
    }
    let probe = n.bits() > 500;
    let nr: Ref = widen(&n);
    let zn = guard("ZmodN::new", || ZmodN::new(n))?;
    l.case();
    let mut words = [0u64; 16];
    words.copy_from_slice(&c.x.digits()[..16]);
    // label: some word above position k is all ones (carry ripple territory)
    if (k as usize + 1..(2 * k as usize).min(16)).any(|i| words[i] == u64::MAX) {
        l.label("redc:all-ones-high-word");
    }
    if k >= 2 {
        l.nontrivial_of(&(n.digits(), c.x.digits()));
        l.sample("redc", || serde_json::to_value(c).unwrap());
    }
    let m = guard("ZmodN::redc", || zn.redc(&words))?;
    let rinv = ref_invmod(&(rpow(k) % nr), &nr).expect("R invertible");
    let expect = ((widen(&c.x) % nr) * rinv) % nr;
    let class = if probe { "PROBE|ZmodN::redc|wrong-value" } else { "ZmodN::redc|wrong-value" };
    ensure!(
        mint_ref(&m) == expect,
        class,
        "redc({}) mod {}: got {} expected X/R mod n = {}",
        c.x,
        n,
        mint_ref(&m),
        expect
    );
    Ok(())
}

// ---------------------------------------------------------------------------
// redc_large

#[derive(Clone, Debug, Serialize, Deserialize)]
pub struct RedcLargeCase {
    #[serde(with = "crate::ser::dec")]
    pub n: U1024,
    /// little-endian words, len in [words(n), 16], value < n * R^2
    pub x: Vec<u64>,
}

pub fn redc_large_strategy() -> impl Strategy<Value = RedcLargeCase> {
    (modulus_strategy(), edgy::<16>(1024), 0usize..=16, 0u8..4, 1u64..70000).prop_map(|(n, x, len, mode, s)| {
        let k = ((n.bits() + 63) / 64) as usize;
        let len = len.max(k).min(16);
        // bound: value < n*R^2 and fits in len words
        let bound_bits = (n.bits() as usize - 1 + 128 * k).min(64 * len);
        let x = match mode {
            // s * (n-1)^2: what a convolution of size s produces
            0 => {
                let v: Ref = Ref::from(s) * widen(&(n - U1024::ONE)) * widen(&(n - U1024::ONE));
                if v.bits() as usize <= bound_bits {
                    crate::oracle::int::narrow::<16>(&v)
                } else {
                    x
                }
            }
            _ => x,
        };
        let x = if x.bits() as usize > bound_bits { x >> (x.bits() as usize - bound_bits) as u32 } else { x };
        RedcLargeCase {
            n,
            x: x.digits()[..len].to_vec(),
        }
    })
}

pub fn check_redc_large(c: &RedcLargeCase, l: &mut Local) -> Result<(), Fail> {
    let n = c.n;
    if !n.bit(0) || n < U1024::from(3u64) || n.bits() > 512 {
        return Err(Fail::new("HARNESS|out-of-domain", "modulus must be odd, >= 3, <= 512 bits"));
    }
    let k = (n.bits() + 63) / 64;
    if c.x.len() > 16 || c.x.len() < k as usize {
        return Err(Fail::new("HARNESS|out-of-domain", "length outside [words(n), 16]"));
    }
    let mut d = [0u64; 64];
    d[..c.x.len()].copy_from_slice(&c.x);
    let xv = Ref::from_digits(d);
    let nr: Ref = widen(&n);
    if xv >= nr * rpow(k) * rpow(k) {
        return Err(Fail::new("HARNESS|out-of-domain", "X >= n*R^2"));
    }
    let probe = n.bits() > 500;
    let zn = guard("ZmodN::new", || ZmodN::new(n))?;
    l.case();
    if k >= 2 && xv.bits() > 64 * k {
        l.nontrivial_of(&(n.digits(), &c.x));
        l.sample("redc_large", || serde_json::to_value(c).unwrap());
    }
    let m = guard("ZmodN::redc_large", || zn.redc_large(&c.x))?;
    let rinv = ref_invmod(&(rpow(k) % nr), &nr).expect("R invertible");
    let expect = ((xv % nr) * rinv) % nr;
    let class = if probe { "PROBE|ZmodN::redc_large|wrong-value" } else { "ZmodN::redc_large|wrong-value" };
    ensure!(
        mint_ref(&m) == expect,
        class,
        "redc_large({:?}) mod {}: got {} expected {}",
        c.x,
        n,
        mint_ref(&m),
        expect
    );
    Ok(())
}

// ---------------------------------------------------------------------------
// 64-bit specialisation

#[derive(Clone, Debug, Serialize, Deserialize)]
pub struct Mg64Case {
    #[serde(with = "crate::ser::u64s")]
    pub n: u64,
    #[serde(with = "crate::ser::u64s")]
    pub x: u64,
    #[serde(with = "crate::ser::u64s")]
    pub y: u64,
    #[serde(with = "crate::ser::u128s")]
    pub wide: u128,
}

pub fn mg64_strategy() -> impl Strategy<Value = Mg64Case> {
    (edgy64(), edgy64(), edgy64(), crate::gen::edgy128(), 0u8..8, 0u8..8).prop_map(|(n, x, y, w, sx, sy)| {
        let n = (n | 1).max(3);
        let sp = |s: u8, v: u64| -> u64 {
            match s {
                0 => 0,
                1 => 1,
                2 => n - 1,
                3 => n - 2,
                4 => n / 2,
                _ => v % n,
            }
        };
        let nr = (n as u128) << 64;
        let wide = match sy {
            0 => nr - 1,
            1 => nr - 1 - (w % 1000),
            2 => (((n - 1) as u128) << 64) | (w as u64 as u128),
            _ => w % nr,
        };
        Mg64Case {
            n,
            x: sp(sx, x),
            y: sp(sy, y),
            wide,
        }
    })
}

pub fn check_mg64(c: &Mg64Case, l: &mut Local) -> Result<(), Fail> {
    let n = c.n;
    if n & 1 == 0 || n < 3 || c.x >= n || c.y >= n || c.wide >= (n as u128) << 64 {
        return Err(Fail::new("HARNESS|out-of-domain", "mg64 case outside the domain"));
    }
    l.case();
    let n128 = n as u128;
    let r = ((1u128 << 64) % n128) as u64;
    let r2 = ((r as u128 * r as u128) % n128) as u64;
    let rinv = {
        let i = ref_invmod(&Ref::from(r), &Ref::from(n)).expect("R invertible");
        i.digits()[0]
    };
    let ninv = guard("mg_2adic_inv", || am::mg_2adic_inv(n))?;
    ensure!(
        n.wrapping_mul(ninv) == u64::MAX,
        "mg_2adic_inv|wrong",
        "mg_2adic_inv({}) = {}: n*ninv != -1 mod 2^64",
        n,
        ninv
    );
    // mg_mul(x, y) = x*y/R mod n
    let got = guard("mg_mul", || am::mg_mul(n, ninv, c.x, c.y))?;
    let expect = ((c.x as u128 * c.y as u128) % n128 * rinv as u128 % n128) as u64;
    ensure!(
        got == expect,
        "mg_mul|wrong-value",
        "mg_mul(n={}, x={}, y={}) = {} expected {}",
        n,
        c.x,
        c.y,
        got,
        expect
    );
    // mg_redc(X) for X < nR
    let got = guard("mg_redc", || am::mg_redc(n, ninv, c.wide))?;
    let expect = ((c.wide % n128) * rinv as u128 % n128) as u64;
    ensure!(
        got == expect,
        "mg_redc|wrong-value",
        "mg_redc(n={}, X={}) = {} expected {}",
        n,
        c.wide,
        got,
        expect
    );
    if n >> 63 == 1 {
        l.label("mg64:n>=2^63");
    }
    if n > (1 << 32) && c.x > n / 4 && c.y > n / 4 {
        l.nontrivial_of(&(n, c.x, c.y, c.wide));
        l.sample("mg64", || serde_json::to_value(c).unwrap());
    }
    // same representation as ZmodN (k = 1, R = 2^64): raw residues are interchangeable
    let zn = guard("ZmodN::new", || ZmodN::new(Uint::from(n)))?;
    let mut mx = MInt::default();
    mx.0[0] = c.x;
    let mut my = MInt::default();
    my.0[0] = c.y;
    let zm = guard("ZmodN::mul", || zn.mul(mx, my))?;
    let got = am::mg_mul(n, ninv, c.x, c.y);
    ensure!(
        zm.0[0] == got && zm.0[1..].iter().all(|&w| w == 0),
        "mg_mul|differs-from-ZmodN",
        "n={} x={} y={}: mg_mul = {} ZmodN::mul = {:?}",
        n,
        c.x,
        c.y,
        got,
        zm.0
    );
    let mut wide = [0u64; 16];
    wide[0] = c.wide as u64;
    wide[1] = (c.wide >> 64) as u64;
    let zr = guard("ZmodN::redc", || zn.redc(&wide))?;
    let got = am::mg_redc(n, ninv, c.wide);
    ensure!(
        zr.0[0] == got,
        "mg_redc|differs-from-ZmodN",
        "n={} X={}: mg_redc = {} ZmodN::redc = {}",
        n,
        c.wide,
        got,
        zr.0[0]
    );
    // mg_inv: input xR, output R/x (Montgomery form of the inverse); its 64-bit inverse helper
    // works on i64, so moduli >= 2^63 are outside what it can represent: probed, not flagged.
    let xm = am::mg_mul(n, ninv, c.x, r2); // x*R
    let g = crate::oracle::int::gcd64(c.x, n);
    let inv = guard("mg_inv", || am::mg_inv(n, ninv, r2, xm));
    let probe = n >> 63 == 1;
    let verdict: Result<(), Fail> = (|| {
        let inv = inv?;
        match inv {
            Some(v) => {
                ensure!(g == 1, "mg_inv|some-for-noninvertible", "mg_inv(n={}, x={}) = Some but gcd = {}", n, c.x, g);
                // v = x^-1 R: v * x = R mod n
                ensure!(
                    v < n && (v as u128 * c.x as u128 % n128) as u64 == r % n,
                    "mg_inv|not-inverse",
                    "mg_inv(n={}, x={}) = {}: not the Montgomery inverse",
                    n,
                    c.x,
                    v
                );
            }
            None => {
                ensure!(g != 1, "mg_inv|none-for-invertible", "mg_inv(n={}, x={}) = None but gcd = 1", n, c.x);
            }
        }
        Ok(())
    })();
    match verdict {
        Ok(()) => {}
        Err(f) if probe => {
            l.label(&format!("probe:mg_inv-n>=2^63:{}", f.class));
        }
        Err(f) => return Err(f),
    }
    Ok(())
}

// ---------------------------------------------------------------------------

fn fixed_ops_cases() -> Vec<OpsCase> {
    let mut out = vec![];
    let one = U1024::ONE;
    let mut moduli = vec![U1024::from(3u64), U1024::from(5u64), U1024::from(u64::MAX), U1024::from(u64::MAX - 58)];
    for w in 1u32..=8 {
        let top = if w == 8 { 500 } else { 64 * w };
        for s in [1u64, 3, 59, 189] {
            moduli.push((one << top) - U1024::from(s));
            moduli.push((one << (top - 1)) + U1024::from(s));
        }
        // all-ones except one word
        if w >= 2 && w < 8 {
            moduli.push(((one << (64 * w)) - one) ^ (U1024::from(u64::MAX - 1) << (64 * (w - 1) / 2)));
        }
    }
    moduli.extend(crate::oracle::int::famous_primes().into_iter().filter(|p| p.bits() <= 500));
    for n in moduli {
        let n = n | one;
        let vals = vec![n - one, n - U1024::from(2u64), n >> 1, one, U1024::ZERO, crate::oracle::int::ref_isqrt(&n) % n];
        let mut prog = vec![];
        for i in 0..6u8 {
            for j in 0..6u8 {
                prog.push((0, i, j));
            }
            prog.push((1, i, 0));
            prog.push((2, 4, i));
            prog.push((3, i, 0));
        }
        out.push(OpsCase { n, vals, prog });
    }
    out
}

fn run(ctx: &Ctx) {
    ctx.set_rule(
        "proptest strategies over odd moduli of 1..8 words (2^(64k)-small, 2^(64k-1)+small, all-ones/single-bit words, \
         certified primes, prime*tiny factor, random; <= 500 bits, 501..512 probed and labelled only) and operands \
         {0,1,n-1,n-2,n/2,isqrt(n),multiples of a small factor of n, edge-biased}; an operation program (mul/add/sub/inv/square) \
         is run on ZmodN and on 4096-bit reference integers; redc on X<nR with all-ones high words; redc_large on the \
         convolution callers' domain; 64-bit mg_* functions vs reference and vs ZmodN raw residues; ecm128's M128 likewise. \
         Non-trivial = multiword modulus with >= 2 operands >= n/4 (ops), multiword modulus (redc), operands > n/4 (64/128-bit). \
         Distinct by canonical encoding of the case.",
    );
    ctx.assume("bnum 0.8 integer arithmetic (+ - * / %) and native u128 arithmetic are correct");
    ctx.assume("moduli of 501..512 bits are probed (labels PROBE/probe:*) but not flagged: README limits inputs to 500 bits");
    ctx.assume("redc_large is exercised on its callers' domain (<= 16 words, X < n*R^2)");
    ctx.assume("mg_inv with n >= 2^63 is probed only: its helper inv_mod64 works on i64 and no caller passes such moduli");

    let mut l = Local::new();
    for c in fixed_ops_cases() {
        ctx.fixed_case("ops", &c, &mut l, check_ops_noprobe);
    }
    ctx.merge(l);
    ctx.par_prop("ops", 32, ctx.n(60_000, 8_000_000), ops_strategy, check_ops_noprobe);
    ctx.par_prop("redc", 16, ctx.n(150_000, 20_000_000), redc_strategy, noprobe(check_redc));
    ctx.par_prop("redc_large", 16, ctx.n(80_000, 10_000_000), redc_large_strategy, noprobe(check_redc_large));
    ctx.par_prop("mg64", 16, ctx.n(300_000, 40_000_000), mg64_strategy, check_mg64);
    super::c07_m128::run(ctx);
    for e in [
        "carry:overflow-branch",
        "carry:final-subtraction",
        "redc:all-ones-high-word",
        "inv:some",
        "inv:none",
        "words:1",
        "words:8",
        "mg64:n>=2^63",
    ] {
        ctx.essential(e, 20);
    }
}

/// failures on 501..512-bit moduli (class prefixed PROBE|) are recorded as labels, not violations
fn noprobe<C>(f: fn(&C, &mut Local) -> Result<(), Fail>) -> impl Fn(&C, &mut Local) -> Result<(), Fail> + Sync {
    move |c, l| match f(c, l) {
        Err(fl) if fl.class.starts_with("PROBE|") => {
            l.label(&format!("probe-fail:{}", fl.class));
            Ok(())
        }
        r => r,
    }
}

fn check_ops_noprobe(c: &OpsCase, l: &mut Local) -> Result<(), Fail> {
    match check_ops(c, l) {
        Err(fl) if fl.class.starts_with("PROBE|") => {
            l.label(&format!("probe-fail:{}", fl.class));
            Ok(())
        }
        r => r,
    }
}

fn replay(_ctx: &Ctx, check_name: &str, case: &Value) -> Result<(), Fail> {
    match check_name {
        "ops" => replay_as::<OpsCase>(case, check_ops),
        "redc" => replay_as::<RedcCase>(case, check_redc),
        "redc_large" => replay_as::<RedcLargeCase>(case, check_redc_large),
        "mg64" => replay_as::<Mg64Case>(case, check_mg64),
        "m128" => super::c07_m128::replay(case),
        _ => Err(Fail::new("HARNESS|unknown-check", check_name.to_string())),
    }
}

#[allow(dead_code)]
fn _unused(_: BUint<1>, _: MInt) {
    let _ = mint_from_ref;
    let _ = resize::<1, 1>;
}
