//! C04 — results do not depend on thread count or thread interleaving (DESIGN.md C04).
//!
//! Three generated checks:
//!  1. "threads": differential over thread counts (each case repeated) against the
//!     single-threaded run: terminates, no panic (in particular no consistency assertion of
//!     the shared relation store), valid factorisation, complete whenever the single-threaded
//!     run is complete;
//!  2. "perturbed": the same with seeded schedule perturbation injected through the
//!     `yield_point` hook at every lock acquisition and completion check (see c04_sched.rs);
//!  3. "orders": exact exploration of what the lock serialises: the `add` calls of a real
//!     sieve are replayed into a fresh relation store in generated orders (c04_sched.rs).
//! OS-thread interleavings are sampled, not enumerated (stated in DESIGN.md section 6).

use serde_json::{json, Value};

use crate::engine::{Ctx, Fail, Local, PropDef};
use crate::props::factoring::*;
use crate::worker::run_jobs;

pub const DEF: PropDef = PropDef {
    id: "C04",
    level: "exploration",
    chk_child: false,
    run,
    replay,
};

pub const THREAD_COUNTS: [usize; 6] = [2, 3, 4, 8, 12, 16];
/// per-run watchdog of the threaded runs (inputs of this size take at most a few seconds, also on a loaded machine)
pub const WATCHDOG_S: f64 = 150.0;
const PAR_ALGOS: [&str; 5] = ["qs", "mpqs", "siqs", "ecm", "auto"];

/// Judge a threaded outcome against the single-threaded one.
pub fn judge_threaded(c: &FCase, base: &Outcome, o: &Outcome, profile: &str) -> Result<(), Fail> {
    let entry = format!("factor[{}]+threads", c.algo);
    match o {
        Outcome::Ok(fs) => {
            product_predicate(&c.n, fs, &entry)?;
            if let Outcome::Ok(b) = base {
                if !c.factors.is_empty() && *b == c.factors {
                    if *fs != c.factors {
                        return Err(Fail::new(
                            format!("{}|incomplete-with-threads", entry),
                            format!(
                                "factor({}, {}) with threads={:?} returned {:?} but the single-threaded run returned the complete factorisation {:?}",
                                c.n, c.algo, c.prefs.threads, fs, b
                            ),
                        )
                        .with_detail(format!("n={},use_double={:?}", c.n, c.prefs.use_double)));
                    }
                }
            }
            Ok(())
        }
        Outcome::Err => {
            if let Outcome::Ok(b) = base {
                if !c.factors.is_empty() && *b == c.factors {
                    return Err(Fail::new(
                        format!("{}|failure-with-threads", entry),
                        format!(
                            "factor({}, {}) with threads={:?} failed but the single-threaded run returned the complete factorisation",
                            c.n, c.algo, c.prefs.threads
                        ),
                    )
                    .with_detail(format!("n={},use_double={:?}", c.n, c.prefs.use_double)));
                }
            }
            Ok(())
        }
        Outcome::Panic { msg, loc, .. } => {
            // a panic that the single-threaded run of the same input and preferences raises at the same site does
            // not depend on threads (e.g. the sieves' "not enough smooth numbers" give-up when double large primes
            // are forced on a small input): that is C03's business, not a schedule matter
            if let Outcome::Panic { loc: bloc, .. } = base {
                if bloc == loc {
                    return Ok(());
                }
            }
            Err(Fail::new(
                format!("{}|panic@{}", entry, loc),
                format!("factor({}, {}) with threads={:?} panicked at {} [{}]: {}", c.n, c.algo, c.prefs.threads, loc, profile, msg),
            ))
        }
        Outcome::Died(s) => Err(Fail::new(
            format!("{}|process-died", entry),
            format!("factor({}, {}) with threads={:?} killed the process [{}]: {}", c.n, c.algo, c.prefs.threads, profile, s),
        )),
        Outcome::Timeout => Err(Fail::new(
            format!("{}|hang", entry),
            format!("factor({}, {}) with threads={:?} did not terminate within the watchdog [{}]", c.n, c.algo, c.prefs.threads, profile),
        )),
        Outcome::Bad(_) => Ok(()),
    }
}

/// `judge_threaded`, then — for a threaded run that fails or is incomplete where the sequential run is complete —
/// the diagnostic of c04_orders.rs: the same call is repeated four times in a worker with the relation observer
/// installed.  If every time the recorded relation set is sound yet degenerate (all congruences valid, >= 20
/// independent kernel vectors, at most one in ten of them splits n under an independent final step — a sound set
/// splits n with about every second vector), whether or not that repetition happened to succeed, the failure is classed `factor+threads|degenerate-relation-set` (a listed known finding: the outcome
/// depends on which polynomials are sieved, not on the schedule).  Anything else keeps its original class.
pub fn judge_threaded_diag(c: &FCase, base: &Outcome, o: &Outcome, profile: &str) -> Result<(), Fail> {
    let f = match judge_threaded(c, base, o, profile) {
        Ok(()) => return Ok(()),
        Err(f) => f,
    };
    if !(f.class.ends_with("|failure-with-threads") || f.class.ends_with("|incomplete-with-threads")) {
        return Err(f);
    }
    let mut d = c.clone();
    d.prefs.perturb = None;
    let mut job = d.job();
    job["kind"] = json!("diagnose");
    let mut summary = vec![];
    for _ in 0..4 {
        let Ok(res) = run_jobs("opt", &[job.clone()], 1, &|_| 300.0) else { return Err(f) };
        let crate::worker::JobResult::Resp(v) = &res[0] else { return Err(f) };
        let stores = v["stores"].as_array().cloned().unwrap_or_default();
        let degenerate = !stores.is_empty()
            && stores.iter().all(|s| {
                let k = s["kernel_dim"].as_u64().unwrap_or(0).min(256);
                s["all_valid"] == true && k >= 20 && s["splitting"].as_u64().unwrap_or(u64::MAX) * 10 <= k
            });
        if !degenerate {
            return Err(f);
        }
        summary.push(stores[0].to_string());
    }
    Err(Fail::new(
        "factor+threads|degenerate-relation-set",
        format!("{} -- independent final step over the relations recorded from 4 repetitions: {}", f.what, summary.join(" ")),
    )
    .with_detail(format!("n={},algo={},use_double={:?}", c.n, c.algo, c.prefs.use_double)))
}

/// inputs that make workers contend: small composites that finish within a few polynomials,
/// and inputs sized to enable single (>= 97 bits) and double large primes
pub fn contention_cases(ctx: &Ctx, check: &str, per: usize) -> Vec<FCase> {
    let mut out = vec![];
    for (i, a) in PAR_ALGOS.iter().enumerate() {
        let strat = case_strategy(a, true, false);
        let cases = ctx.sample_strategy(check, i as u64, &strat, per * 6);
        let mut kept = 0;
        for mut c in cases {
            let bits = c.n.bits();
            let maxb = match *a {
                "qs" => 100,
                "ecm" => 110,
                _ => 125,
            };
            if bits < 45 || bits > maxb || !is_nontrivial(&c) {
                continue;
            }
            // every third sieve case forces the double-large-prime variation
            if kept % 3 == 2 && matches!(*a, "qs" | "mpqs" | "siqs") {
                c.prefs.use_double = Some(true);
            }
            out.push(c);
            kept += 1;
            if kept >= per {
                break;
            }
        }
    }
    // larger inputs (165..190 bits, about a second each): there the sieve typically completes with no more
    // relations than the factor base has primes, so that the completion bookkeeping (gap/target/done) shared by
    // the workers decides between success and the "not enough smooth numbers" internal error
    let big = if ctx.quick() { 6 } else { 60 };
    let mut r = crate::oracle::int::SplitMix(crate::engine::hash64(&(ctx.seed, check, "big")));
    for i in 0..big {
        let bits = 165 + r.below(26) as u32;
        let a = bits / 2;
        let p = crate::oracle::int::certified_prime(a, r.below(3) as u32);
        let q = crate::oracle::int::certified_prime(bits - a, r.below(3) as u32);
        if p == q {
            continue;
        }
        let mut c = mk_case("large-semiprime", vec![p, q], if i % 3 == 2 { "auto" } else { "siqs" }, PrefSpec::default());
        c.shape = "large-semiprime".into();
        out.push(c);
    }
    out
}

/// Run threaded jobs in chunks; once a chunk produced watchdog hits the rest of the batch is skipped
/// (a deadlocking tree would otherwise cost the watchdog for every remaining case; the hits already
/// recorded decide the verdict).  Returns one result per job (None = skipped).
pub fn run_chunked(jobs: &[Value], nworkers: usize, watchdog: f64, l: &mut Local) -> Vec<Option<crate::worker::JobResult>> {
    let mut out: Vec<Option<crate::worker::JobResult>> = vec![];
    let mut hangs = 0;
    for chunk in jobs.chunks(48) {
        if hangs >= 2 {
            l.label_n("skipped-after-watchdog-hits", chunk.len() as u64);
            out.extend(chunk.iter().map(|_| None));
            continue;
        }
        let res = run_jobs("opt", chunk, nworkers, &|_| watchdog).unwrap_or_default();
        hangs += res.iter().filter(|r| matches!(r, crate::worker::JobResult::Timeout)).count();
        out.extend(res.into_iter().map(Some));
    }
    out
}

fn run_threads(ctx: &Ctx, l: &mut Local) {
    let check = "threads@opt";
    let per = ctx.n(50, 400) as usize;
    let reps = ctx.pick(3usize, 10);
    let mut base_cases = contention_cases(ctx, check, per);
    // every input size of the threaded sieves once (the parameters of the threaded paths - blocks offered to the
    // pool, polynomials per work item, targets - are functions of the size: a wrong band shows at a single size)
    {
        let mut r = crate::oracle::int::SplitMix(crate::engine::hash64(&(ctx.seed, check, "size-sweep")));
        let step = ctx.pick(1usize, 1);
        for (alg, lo, hi) in [("mpqs", 64u32, 172u32), ("siqs", 64, 180), ("qs", 64, 112)] {
            for bits in (lo..=hi).step_by(step) {
                // quick: the cheap half of the range at every size, the upper half at every size for MPQS only
                if ctx.quick() && alg != "mpqs" && bits > 120 && bits % 4 != 0 {
                    continue;
                }
                // five inputs per size in the upper range of MPQS (its threaded path has its own block schedule;
                // the multiplier moves the size the parameters see by up to 6 bits)
                let per_size = if alg == "mpqs" && bits >= 140 { ctx.pick(5, 8) } else { ctx.pick(1, 2) };
                for _ in 0..per_size {
                    let a = bits / 2 - r.below(3) as u32;
                    let p = gen_prime(a, r.next());
                    let q = gen_prime(bits - a, r.next());
                    if p == q {
                        continue;
                    }
                    base_cases.push(mk_case("size-sweep", vec![p, q], alg, PrefSpec::default()));
                }
            }
        }
    }
    // single-threaded reference runs
    let jobs: Vec<Value> = base_cases.iter().map(|c| c.job()).collect();
    let base = run_jobs("opt", &jobs, workers(), &|_| 300.0).unwrap_or_default();
    let base: Vec<Outcome> = base.iter().map(Outcome::from_job).collect();
    let mut cases = vec![];
    let mut idx = vec![];
    for (i, c) in base_cases.iter().enumerate() {
        l.case();
        l.label("single-threaded-reference");
        if let Outcome::Ok(fs) = &base[i] {
            if *fs == c.factors {
                l.label("reference-complete");
            }
        }
        for (j, &t) in THREAD_COUNTS.iter().enumerate() {
            // quick: each input gets three of the six thread counts
            let sweep = c.shape == "size-sweep";
            if sweep && t != THREAD_COUNTS[(i % 3) + 1] {
                continue;
            }
            if !sweep && ctx.quick() && (i + j) % 2 == 1 {
                continue;
            }
            for _ in 0..(if sweep { 1 } else { reps }) {
                let mut d = c.clone();
                d.prefs.threads = Some(t);
                cases.push(d);
                idx.push(i);
            }
        }
    }
    // few concurrent workers: each case owns up to 16 threads
    let jobs: Vec<Value> = cases.iter().map(|c| c.job()).collect();
    let res = run_chunked(&jobs, 3, WATCHDOG_S, l);
    for ((c, r), &i) in cases.iter().zip(res.iter()).zip(idx.iter()) {
        let Some(r) = r else { continue };
        let o = Outcome::from_job(r);
        l.case();
        l.label(&format!("algo:{}", c.algo));
        l.label(&format!("threads:{}", c.prefs.threads.unwrap()));
        l.label(&format!("outcome:{}", o.tag()));
        if c.prefs.use_double == Some(true) {
            l.label("double-large-primes-forced");
        }
        if c.n.bits() >= 97 {
            l.label("bits>=97(single-large-primes)");
        }
        if c.shape == "size-sweep" {
            l.label("size-sweep");
        }
        l.nontrivial(c.key());
        l.sample(&format!("threads:{}", c.algo), || serde_json::to_value(c).unwrap());
        if let Err(f) = judge_threaded_diag(c, &base[i], &o, "opt") {
            ctx.violation(check, &f, json!({"case": c, "single_threaded": format!("{:?}", base[i])}));
        }
    }
}

fn run(ctx: &Ctx) {
    ctx.set_rule(
        "(1) differential over thread counts {2,3,4,8,12,16} x repetitions on generated 45..125-bit composites (Qs, Mpqs, Siqs, \
         Ecm, Auto; every third sieve case forces double large primes) and on one semiprime of every bit length 64..172 (Mpqs), \
         64..180 (Siqs), 64..112 (Qs) against the single-threaded run; (2) the same under seeded \
         schedule perturbation (yield / spin / sleep at every relation-store lock acquisition and completion check, through the \
         yield_point hook) and under four directed delay-only schedules of the completion bookkeeping (window, freeze, ambush, \
         stale publication; a dedicated batch of 64..100-bit semiprimes with 8/12/16 workers and the 165..190-bit inputs); (3) the add calls recorded from real sieves replayed into a fresh relation store in generated orders \
         (reversals, block swaps, round-robin interleavings of k virtual threads, duplicated relations), invariants after every \
         step and final_step at the end. Non-trivial = a multi-threaded run (1,2) or a genuine reordering (3); distinct by \
         (n, selector, threads, prefs) resp. (n, permutation).",
    );
    ctx.assume("OS-thread interleavings are sampled (with perturbation), not enumerated; data races on the relaxed atomics cannot be excluded by sampling");
    ctx.assume("every mutation of the relation store happens under its write lock, so any interleaving is equivalent to some order of add calls (explored in part 3)");
    ctx.assume("a threaded failure on an input whose recorded relation sets are valid yet arithmetically degenerate (independent final step: >= 20 kernel vectors, at most 1 in 10 splits n, in four repetitions) is the listed known finding, not a schedule effect");
    let mut l = Local::new();
    run_threads(ctx, &mut l);
    super::c04_sched::run(ctx, &mut l);
    ctx.merge(l);
    ctx.essential("threads:16", 5);
    ctx.essential("threads:2", 5);
    ctx.essential("reference-complete", 10);
    ctx.essential("double-large-primes-forced", 5);
    ctx.essential("size-sweep", 100);
}

fn replay(ctx: &Ctx, check: &str, case: &Value) -> Result<(), Fail> {
    if check.starts_with("threads@") {
        let c: FCase = serde_json::from_value(case["case"].clone()).map_err(|e| Fail::new("HARNESS|bad-replay-file", e.to_string()))?;
        let mut b = c.clone();
        b.prefs.threads = None;
        let r = run_jobs("opt", &[b.job()], 1, &|_| 600.0).map_err(|e| Fail::new("HARNESS|worker", e))?;
        let base = Outcome::from_job(&r[0]);
        // schedules are not reproducible: repeat
        for _ in 0..20 {
            let r = run_jobs("opt", &[c.job()], 1, &|_| 600.0).map_err(|e| Fail::new("HARNESS|worker", e))?;
            judge_threaded_diag(&c, &base, &Outcome::from_job(&r[0]), "opt")?;
        }
        Ok(())
    } else {
        super::c04_sched::replay(ctx, check, case)
    }
}
