//! C09 — multiprecision gcd / modular inverse / Bézout cofactors (DESIGN.md section 2, C09).
//!
//! Generator: operand pairs in BUint<16> (<= 1012 bits), BUint<8> (<= 500 bits) and
//! BUint<4> (<= 220 bits) over the full width grid, with constructive shapes: scaled
//! pairs, multiples, continued fractions with prescribed partial quotients (small, all
//! ones, huge, around the 36-bit cap of the word-level reduction), operands next to the
//! multiprecision-fallback boundary, operands with a short top word.
//! Oracle: plain Euclid / textbook extended Euclid over 4096-bit bnum integers.

use bnum::cast::CastFrom;
use bnum::{BInt, BUint};
use proptest::prelude::*;
use serde::{Deserialize, Serialize};
use serde_json::{json, Value};

use crate::engine::{guard, replay_as, Ctx, Fail, Local, PropDef};
use crate::gen::{edgy, edgy_build};
use crate::oracle::int::{ref_gcd, resize, widen, IRef, Ref, U1024};
use yamaquasi::arith_gcd;

pub const DEF: PropDef = PropDef {
    id: "C09",
    level: "exploration",
    chk_child: true,
    run,
    replay,
};

#[derive(Clone, Debug, Serialize, Deserialize)]
pub struct GcdCase {
    /// words of the instantiation: 4, 8 or 16
    pub words: usize,
    pub shape: String,
    #[serde(with = "crate::ser::dec")]
    pub a: U1024,
    #[serde(with = "crate::ser::dec")]
    pub b: U1024,
}

pub fn maxbits(words: usize) -> u32 {
    match words {
        16 => 1012,
        8 => 500,
        _ => 220,
    }
}

fn clamp(x: U1024, words: usize) -> U1024 {
    let mb = maxbits(words);
    if x.bits() > mb {
        x >> (x.bits() - mb)
    } else {
        x
    }
}

/// Continued fraction [q0; q1, ...] evaluated bottom-up: returns consecutive
/// remainders (a, b) whose Euclidean quotient sequence is exactly `qs`
/// (when the last quotient is >= 2), stopping before exceeding `mb` bits.
fn from_quotients(qs: &[U1024], mb: u32) -> (U1024, U1024) {
    let (mut a, mut b) = (U1024::ONE, U1024::ZERO);
    for q in qs.iter().rev() {
        if q.bits() + a.bits() + 1 >= mb {
            break;
        }
        let na = *q * a + b;
        b = a;
        a = na;
    }
    (a, b)
}

fn quotient(kind: u8, r: u64) -> U1024 {
    match kind % 8 {
        0 | 1 => U1024::ONE,
        2 => U1024::from(1 + r % 4),
        3 => U1024::from(r >> 40),
        // around the 36-bit matrix cap of reduce64
        4 => U1024::from((1u64 << (30 + r % 10)) + (r >> 50)),
        // huge quotient >= 2^64
        5 => (U1024::from(r | 1) << (64 + (r % 70) as u32)) + U1024::from(r >> 7),
        6 => U1024::from((1u64 << 32) - 1 + (r & 3)),
        _ => U1024::from(r),
    }
}

pub fn strategy() -> impl Strategy<Value = GcdCase> {
    let words = prop_oneof![3 => Just(16usize), 2 => Just(8usize), 1 => Just(4usize)];
    (
        words,
        0u8..14,
        edgy::<16>(1012),
        edgy::<16>(1012),
        edgy::<16>(256),
        proptest::collection::vec((0u8..8, any::<u64>()), 1..60),
        0u32..48,
        any::<u64>(),
    )
        .prop_map(|(words, shape, x, y, g, qs, delta, r)| {
            let mb = maxbits(words);
            let (x, y, g) = (clamp(x, words), clamp(y, words), clamp(g, words));
            let (name, a, b): (&str, U1024, U1024) = match shape {
                0 | 1 => ("edgy", x, y),
                2 => {
                    // g * (x', y')
                    let gb = g.bits().min(mb / 2);
                    let g = if g.bits() > gb { g >> (g.bits() - gb) } else { g };
                    let room = mb - g.bits();
                    let xs = if x.bits() > room { x >> (x.bits() - room) } else { x };
                    let ys = if y.bits() > room { y >> (y.bits() - room) } else { y };
                    ("scaled", g * xs, g * ys)
                }
                3 => {
                    // a multiple of b
                    let yb = y.bits().min(mb / 2).max(1);
                    let ys = if y.bits() > yb { y >> (y.bits() - yb) } else { y };
                    let room = mb - ys.bits();
                    let k = if x.bits() > room { x >> (x.bits() - room) } else { x };
                    ("multiple", ys * k, ys)
                }
                4 => ("equal", x, x),
                5 => ("zero", if r & 1 == 0 { U1024::ZERO } else { x }, if r & 2 == 0 { U1024::ZERO } else { y }),
                6 | 7 => {
                    // prescribed partial quotients, optionally scaled by a small g
                    let q: Vec<U1024> = qs.iter().map(|&(k, r)| quotient(k, r)).collect();
                    let gs = if shape == 7 { U1024::from((r >> 20) | 1) } else { U1024::ONE };
                    let (a, b) = from_quotients(&q, mb - gs.bits());
                    ("contfrac", a * gs, b * gs)
                }
                8 => {
                    // within `delta` bits below the fallback boundary 64N-36 and above it up to maxbits
                    let nbits = (64 * words as u32 - 36 + 12).min(mb).saturating_sub(delta);
                    let a = edgy_build::<16>(2, nbits, &[r, r.rotate_left(17) ^ 0x9e37, !r], 3, 1012);
                    ("near-width", a, y)
                }
                9 => {
                    // second operand 32..63 bits shorter than the first: its aligned top word is < 2^32
                    let xb = x.bits().max(100).min(mb);
                    let a = edgy_build::<16>(2, xb, &[r, !r, r.rotate_left(9)], 1, 1012);
                    let yb = xb - 32 - (delta % 32);
                    let b = if y.bits() > yb { y >> (y.bits() - yb) } else { y };
                    ("small-top", a, b)
                }
                12 | 13 => {
                    // both operands fit one word, sizes 1..=64 bits incl. exactly 63 and 64 bits
                    let ba = 64 - (delta % 8).min(63);
                    let bb = 64 - ((r >> 8) % 64) as u32 % 64;
                    let a = edgy_build::<16>(if r & 16 == 0 { 2 } else { 0 }, ba, &[r, !r], 1, 64);
                    let b = edgy_build::<16>(2, bb.max(1), &[r.rotate_left(23), r], 1, 64);
                    ("single-word", a, b | U1024::from(r & 1))
                }
                10 => {
                    // one operand below 64 bits
                    ("one-small", x, U1024::from(r >> (delta % 64)))
                }
                _ => {
                    // Fibonacci-like: all quotients 1
                    let q: Vec<U1024> = (0..(mb as usize * 2)).map(|_| U1024::ONE).collect();
                    let (a, b) = from_quotients(&q, mb.saturating_sub(delta).max(70));
                    ("fibonacci", a, b)
                }
            };
            let (a, b) = (clamp(a, words), clamp(b, words));
            let (a, b) = if r & 4 == 0 { (a, b) } else { (b, a) };
            GcdCase {
                words,
                shape: name.to_string(),
                a,
                b,
            }
        })
}

fn check_n<const N: usize>(c: &GcdCase, l: &mut Local) -> Result<(), Fail> {
    let a: BUint<N> = resize(&c.a);
    let b: BUint<N> = resize(&c.b);
    let (ra, rb): (Ref, Ref) = (widen(&c.a), widen(&c.b));
    let g = ref_gcd(&ra, &rb);
    let tag = format!("N={}", N);

    // classify (labels are recomputed from operand shapes, not from instrumentation)
    let (la, lb) = (a.bits(), b.bits());
    l.case();
    l.label(&format!("shape:{}", c.shape));
    l.label(&tag);
    let w = 64 * N as u32;
    if la + 36 >= w || lb + 36 >= w {
        l.label("path:fallback-near-width");
    }
    if la.abs_diff(lb) >= 32 && la.min(lb) > 0 {
        l.label("path:fallback-small-top");
    }
    if la < 64 && lb < 64 {
        l.label("path:tail-only");
    }
    if la <= 64 && lb <= 64 && la.max(lb) == 64 {
        l.label("single-word-with-64-bit-operand");
    }
    if la >= 128 && lb >= 128 {
        l.label("both>=128bits");
        l.nontrivial_of(&(N, c.a.digits(), c.b.digits()));
        l.sample("both>=128bits", || serde_json::to_value(c).unwrap());
    }
    if !g.is_one() && !g.is_zero() {
        l.label("gcd>1");
    }

    // big_gcd
    let d = guard(&format!("big_gcd<{}>", N), || arith_gcd::big_gcd(&a, &b))?;
    ensure!(
        widen(&d) == g,
        format!("big_gcd<{}>|wrong-gcd", N),
        "big_gcd({}, {}) = {} but gcd is {}",
        a,
        b,
        d,
        g
    );

    // extended gcd: d == gcd and u*a + v*b == d over the integers
    let (d, u, v) = guard(&format!("gcd_internal<{},true>", N), || {
        arith_gcd::gcd_internal::<N, true>(&a, &b)
    })?;
    ensure!(
        widen(&d) == g,
        format!("gcd_internal<{},true>|wrong-gcd", N),
        "gcd_internal({}, {}) gcd = {} but gcd is {}",
        a,
        b,
        d,
        g
    );
    let wide = |x: &BInt<N>| -> IRef {
        let m: Ref = widen(&x.unsigned_abs());
        let m = IRef::cast_from(m);
        if x.is_negative() {
            -m
        } else {
            m
        }
    };
    let lhs = wide(&u) * IRef::cast_from(ra) + wide(&v) * IRef::cast_from(rb);
    ensure!(
        lhs == IRef::cast_from(g),
        format!("gcd_internal<{},true>|bezout", N),
        "u*a + v*b = {} != gcd {} for a={} b={} u={} v={}",
        lhs,
        g,
        a,
        b,
        u,
        v
    );
    // non-extended variant agrees
    let (d0, _, _) = guard(&format!("gcd_internal<{},false>", N), || {
        arith_gcd::gcd_internal::<N, false>(&a, &b)
    })?;
    ensure!(
        widen(&d0) == g,
        format!("gcd_internal<{},false>|wrong-gcd", N),
        "gcd_internal::<false>({}, {}) = {} but gcd is {}",
        a,
        b,
        d0,
        g
    );

    // inv_mod(n, p): p != 0 (asserted by the function)
    for (n, p, rn, rp) in [(&a, &b, &ra, &rb), (&b, &a, &rb, &ra)] {
        if p.is_zero() {
            continue;
        }
        let r = guard(&format!("inv_mod<{}>", N), || arith_gcd::inv_mod(n, p))?;
        match r {
            Ok(x) => {
                // p == 1: any x in [0,1) i.e. 0 is an inverse (everything is 0 mod 1)
                ensure!(
                    x < *p,
                    format!("inv_mod<{}>|range", N),
                    "inv_mod({}, {}) = {} not below the modulus",
                    n,
                    p,
                    x
                );
                let prod = (*rn * widen(&x)) % *rp;
                let one = Ref::ONE % *rp;
                ensure!(
                    prod == one && g.is_one(),
                    format!("inv_mod<{}>|not-inverse", N),
                    "inv_mod({}, {}) = Ok({}) but n*x mod p = {}, gcd = {}",
                    n,
                    p,
                    x,
                    prod,
                    g
                );
                l.label("inv:ok");
            }
            Err(dd) => {
                ensure!(
                    widen(&dd) == g && (!g.is_one() || p.is_one()),
                    format!("inv_mod<{}>|wrong-err", N),
                    "inv_mod({}, {}) = Err({}) but gcd is {}",
                    n,
                    p,
                    dd,
                    g
                );
                l.label("inv:err");
            }
        }
    }
    Ok(())
}

pub fn check(c: &GcdCase, l: &mut Local) -> Result<(), Fail> {
    if c.a.bits() > maxbits(c.words) || c.b.bits() > maxbits(c.words) {
        return Err(Fail::new("HARNESS|out-of-domain", "operand wider than the supported range"));
    }
    match c.words {
        16 => check_n::<16>(c, l),
        8 => check_n::<8>(c, l),
        4 => check_n::<4>(c, l),
        _ => Err(Fail::new("HARNESS|bad-words", "words must be 4, 8 or 16")),
    }
}

fn fixed_cases() -> Vec<GcdCase> {
    let mut out = vec![];
    let one = U1024::ONE;
    for words in [4usize, 8, 16] {
        let mb = maxbits(words);
        let top = (one << mb) - one;
        let mk = |shape: &str, a: U1024, b: U1024| GcdCase {
            words,
            shape: shape.to_string(),
            a,
            b,
        };
        out.push(mk("fixed", U1024::ZERO, U1024::ZERO));
        out.push(mk("fixed", top, U1024::ZERO));
        out.push(mk("fixed", U1024::ZERO, top));
        out.push(mk("fixed", top, top));
        out.push(mk("fixed", top, one));
        out.push(mk("fixed", top, top - one));
        out.push(mk("fixed", one << (mb - 1), (one << (mb - 1)) - one));
        out.push(mk("fixed", top, U1024::from(u64::MAX)));
        out.push(mk("fixed", top, U1024::from(1u64 << 32)));
        out.push(mk("fixed", top, (one << 64) + one));
        // every bit length pair on a coarse grid of powers of two +- 1
        let mut la = 1;
        while la <= mb {
            let mut lb = 1;
            while lb <= mb {
                out.push(mk("grid", (one << (la - 1)) + one, (one << (lb - 1)) - one));
                out.push(mk("grid", (one << la) - one, (one << lb) - one));
                lb += 37;
            }
            la += 41;
        }
    }
    out
}

fn run(ctx: &Ctx) {
    ctx.set_rule(
        "proptest strategy over (instantiation N in {4,8,16}, shape, operands): edge-biased pairs, g*(x,y), multiples, \
         equal/zero, continued fractions with prescribed quotients, operands near the 64N-36 fallback boundary, short top \
         word, one operand < 64 bits, Fibonacci pairs; plus a fixed grid of bit-length pairs. Oracle: Euclid / extended \
         Euclid over 4096-bit integers. Non-trivial = both operands >= 128 bits; distinct by (N, a, b).",
    );
    ctx.assume("bnum 0.8 integer arithmetic (+ - * / %) and native u128 arithmetic are correct");
    ctx.assume("operands are limited to the supported widths: 1012 bits (N=16), 500 bits (N=8), 220 bits (N=4)");
    let mut l = Local::new();
    for c in fixed_cases() {
        ctx.fixed_case("gcd", &c, &mut l, check);
    }
    ctx.merge(l);
    let cases = ctx.n(300_000, 30_000_000);
    ctx.par_prop("gcd", 32, cases, strategy, check);
    for e in [
        "path:fallback-near-width",
        "path:fallback-small-top",
        "path:tail-only",
        "shape:contfrac",
        "single-word-with-64-bit-operand",
        "inv:ok",
        "inv:err",
        "gcd>1",
    ] {
        ctx.essential(e, 10);
    }
    let _ = json!(null);
}

fn replay(_ctx: &Ctx, check_name: &str, case: &Value) -> Result<(), Fail> {
    match check_name {
        "gcd" => replay_as::<GcdCase>(case, check),
        _ => Err(Fail::new("HARNESS|unknown-check", check_name.to_string())),
    }
}
