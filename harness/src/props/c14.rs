//! C14 — GF(2) kernel solvers return only genuine, non-zero dependencies (DESIGN.md section 2, C14).
//!
//! Domain: matrices as column lists with DISTINCT row indices per column (what
//! `relations::final_step` builds from relations: one entry per prime with odd exponent),
//! at least one row and one column.  `kernel_gauss` on every shape (1x1 .. 400x460 quick,
//! 3000x3100 thorough), `kernel_lanczos` only where `final_step` may send a matrix and its
//! `genblock` terminates (>= 256 rows, more columns than rows, rank >= 200), each Lanczos
//! call under a watchdog thread (a hang is INCONCLUSIVE, never a violation).
//! Oracle: dense bit-matrix product and rank by plain Gaussian elimination (oracle::linalg).
//!
//! Not in the domain (documented, not flagged here): the empty column list
//! (`kernel_gauss(vec![])` indexes `columns[0]`: defect F4, reached through `factor()` and
//! reported under C03) and matrices with zero rows.

use std::sync::atomic::{AtomicBool, Ordering};
use std::sync::mpsc;
use std::time::Duration;

use bitvec_simd::BitVec;
use proptest::prelude::*;
use serde::{Deserialize, Serialize};
use serde_json::Value;

use crate::engine::{guard, hash64, replay_as, Ctx, Fail, Local, PropDef};
use crate::gen::pick_idx;
use crate::oracle::int::SplitMix;
use crate::oracle::linalg::{self, bits_from_indices, gf2_mul_cols, is_zero_bits, words, BitMat};
use yamaquasi::matrix::gf2;
use yamaquasi::Verbosity;

pub const DEF: PropDef = PropDef {
    id: "C14",
    level: "exploration",
    chk_child: true,
    run,
    replay,
};

/// One matrix: `cols[j]` = sorted, distinct row indices of the ones of column j.
#[derive(Clone, Debug, Serialize, Deserialize)]
pub struct MatCase {
    pub nrows: usize,
    pub shape: String,
    /// number of Lanczos runs (ignored by the Gauss check)
    #[serde(default)]
    pub runs: u32,
    pub cols: Vec<Vec<usize>>,
}

static LANCZOS_HUNG: AtomicBool = AtomicBool::new(false);

// ---------------------------------------------------------------------------
// Generators

/// One column with the density profile of a sieve matrix: the 64 first rows (smallest
/// primes, factors of A) are dense, the tail is sparse with density decreasing like 1/i.
fn qs_column(nrows: usize, rng: &mut SplitMix) -> Vec<usize> {
    let mut c = vec![];
    for i in 0..nrows.min(64) {
        // P(odd exponent of the i-th prime) ~ 1/(2 + i/6), row 0 (sign) 1/2
        let den = 2 + (i as u64) / 6;
        if rng.below(den) == 0 {
            c.push(i);
        }
    }
    if nrows > 64 {
        let k = 1 + rng.below(7) as usize;
        let ln = ((nrows as f64) / 64.0).ln();
        for _ in 0..k {
            // log-uniform in [64, nrows)
            let u = (rng.next() >> 11) as f64 / (1u64 << 53) as f64;
            let i = (64.0 * (u * ln).exp()) as usize;
            c.push(i.min(nrows - 1));
        }
    }
    c.sort_unstable();
    c.dedup();
    c
}

fn uniform_column(nrows: usize, maxw: usize, rng: &mut SplitMix) -> Vec<usize> {
    let w = rng.below(maxw as u64 + 1) as usize;
    let mut c: Vec<usize> = (0..w.min(nrows)).map(|_| rng.below(nrows as u64) as usize).collect();
    c.sort_unstable();
    c.dedup();
    c
}

fn dense_column(nrows: usize, rng: &mut SplitMix) -> Vec<usize> {
    let mut c = vec![];
    let mut w = 0u64;
    for i in 0..nrows {
        if i % 64 == 0 {
            w = rng.next();
        }
        if (w >> (i % 64)) & 1 == 1 {
            c.push(i);
        }
    }
    c
}

fn column(profile: u8, nrows: usize, rng: &mut SplitMix) -> Vec<usize> {
    match profile {
        0 => qs_column(nrows, rng),
        1 => uniform_column(nrows, 12, rng),
        2 => dense_column(nrows, rng),
        _ => uniform_column(nrows, 2, rng),
    }
}

/// symmetric difference of sorted index lists (sum of columns over GF(2))
fn xor_cols(a: &[usize], b: &[usize]) -> Vec<usize> {
    let (mut i, mut j) = (0, 0);
    let mut out = Vec::with_capacity(a.len() + b.len());
    while i < a.len() || j < b.len() {
        if j >= b.len() || (i < a.len() && a[i] < b[j]) {
            out.push(a[i]);
            i += 1;
        } else if i >= a.len() || b[j] < a[i] {
            out.push(b[j]);
            j += 1;
        } else {
            i += 1;
            j += 1;
        }
    }
    out
}

const PROFILES: [&str; 4] = ["qs", "uniform", "dense", "verysparse"];

/// base columns of the given profile + planted combinations / zero / duplicate columns,
/// shuffled.
fn build(nrows: usize, profile: u8, nbase: usize, ncombo: usize, nzero: usize, ndup: usize, seed: u64) -> Vec<Vec<usize>> {
    let mut rng = SplitMix(seed);
    let mut cols: Vec<Vec<usize>> = (0..nbase).map(|_| column(profile, nrows, &mut rng)).collect();
    for _ in 0..ncombo {
        let k = 2 + rng.below(3) as usize;
        let mut c = vec![];
        for _ in 0..k {
            let j = rng.below(nbase as u64) as usize;
            c = xor_cols(&c, &cols[j]);
        }
        cols.push(c);
    }
    for _ in 0..nzero {
        cols.push(vec![]);
    }
    for _ in 0..ndup {
        let j = rng.below(cols.len() as u64) as usize;
        let c = cols[j].clone();
        cols.push(c);
    }
    // Fisher–Yates
    for i in (1..cols.len()).rev() {
        let j = rng.below(i as u64 + 1) as usize;
        cols.swap(i, j);
    }
    cols
}

pub fn gauss_strategy(maxr: usize, maxc: usize) -> impl Strategy<Value = MatCase> {
    (
        // size class, rows, base columns relative to rows
        0u8..10,
        any::<u16>(),
        any::<u16>(),
        // profile
        0u8..4,
        // planted: combos (corank 0..100), zero columns, duplicates
        prop_oneof![3 => Just(0u16), 3 => 1u16..4, 3 => 0u16..=100],
        prop_oneof![4 => Just(0u8), 1 => 1u8..4],
        prop_oneof![4 => Just(0u8), 1 => 1u8..4],
        // shape variant: 0 = around square, 1 = more rows than columns, 2 = many more columns, 3 = all-zero
        prop_oneof![6 => Just(0u8), 2 => Just(1u8), 2 => Just(2u8), 1 => Just(3u8)],
        any::<u64>(),
    )
        .prop_map(move |(sc, r, b, profile, ncombo, nzero, ndup, variant, seed)| {
            let cap = match sc {
                0 | 1 => 8,
                2 | 3 | 4 => 70,
                5 | 6 | 7 => 200,
                _ => maxr,
            }
            .min(maxr);
            let nrows = 1 + pick_idx(r, cap);
            let profile = if profile == 2 && nrows > 200 { 1 } else { profile };
            let (ncombo, nzero, ndup) = (ncombo as usize, nzero as usize, ndup as usize);
            let planted = ncombo + nzero + ndup;
            let room = maxc.saturating_sub(planted).max(1);
            let nbase = match variant {
                1 => 1 + pick_idx(b, (nrows / 2).max(1)),
                2 => nrows + pick_idx(b, nrows + 60),
                _ => (nrows * 3 / 4 + pick_idx(b, nrows / 2 + 24)).max(1),
            }
            .min(room);
            let cols = if variant == 3 {
                vec![vec![]; (nbase + planted).min(maxc)]
            } else {
                build(nrows, profile, nbase, ncombo, nzero, ndup, seed)
            };
            let vname = ["square", "tall", "wide", "allzero"][variant as usize];
            MatCase {
                nrows,
                shape: format!("{}/{}", vname, PROFILES[profile as usize]),
                runs: 0,
                cols,
            }
        })
}

pub fn lanczos_strategy(maxr: usize, runs: u32) -> impl Strategy<Value = MatCase> {
    (
        0u8..100,
        any::<u16>(),
        // columns beyond the number of rows (at least 1)
        prop_oneof![3 => 0u16..8, 3 => 0u16..70, 1 => 0u16..130],
        prop_oneof![2 => Just(0u8), 1 => Just(1u8)],
        prop_oneof![2 => Just(0u16), 2 => 1u16..20],
        prop_oneof![4 => Just(0u8), 1 => 1u8..3],
        prop_oneof![4 => Just(0u8), 1 => 1u8..3],
        any::<u64>(),
    )
        .prop_map(move |(sc, r, extra, profile, ncombo, nzero, ndup, seed)| {
            // size classes: mostly a few hundred rows; in the thorough tier also around and above the
            // threshold (5000) where final_step switches from Gauss to Lanczos
            let cap = if sc < 80 {
                1000
            } else if sc < 95 {
                5000
            } else if sc < 99 {
                8000
            } else {
                20000
            }
            .min(maxr);
            let nrows = 256 + pick_idx(r, cap - 255);
            let (ncombo, nzero, ndup) = (ncombo as usize, nzero as usize, ndup as usize);
            let planted = ncombo + nzero + ndup;
            let ncols = nrows + 1 + extra as usize;
            let nbase = ncols.saturating_sub(planted).max(nrows);
            let mut rng = SplitMix(seed ^ 0x5bd1e995);
            let cols = if profile == 0 {
                build(nrows, 0, nbase, ncombo, nzero, ndup, seed)
            } else {
                // uniform sparse, 3..16 ones per column
                let mut cols: Vec<Vec<usize>> = (0..nbase)
                    .map(|_| {
                        let w = 3 + rng.below(14) as usize;
                        let mut c: Vec<usize> = (0..w).map(|_| rng.below(nrows as u64) as usize).collect();
                        c.sort_unstable();
                        c.dedup();
                        c
                    })
                    .collect();
                for _ in 0..ncombo {
                    let a = rng.below(nbase as u64) as usize;
                    let b = rng.below(nbase as u64) as usize;
                    let c = xor_cols(&cols[a], &cols[b]);
                    cols.push(c);
                }
                for _ in 0..nzero {
                    cols.push(vec![]);
                }
                for _ in 0..ndup {
                    let j = rng.below(cols.len() as u64) as usize;
                    let c = cols[j].clone();
                    cols.push(c);
                }
                for i in (1..cols.len()).rev() {
                    let j = rng.below(i as u64 + 1) as usize;
                    cols.swap(i, j);
                }
                cols
            };
            MatCase {
                nrows,
                shape: format!("lanczos/{}", if profile == 0 { "qs" } else { "uniform" }),
                runs,
                cols,
            }
        })
}

// ---------------------------------------------------------------------------
// Oracles

fn validate(c: &MatCase) -> Result<(), Fail> {
    if c.nrows == 0 || c.cols.is_empty() {
        return Err(Fail::new("HARNESS|out-of-domain", "matrix without rows or without columns"));
    }
    for col in &c.cols {
        if col.windows(2).any(|w| w[0] >= w[1]) || col.last().map_or(false, |&i| i >= c.nrows) {
            return Err(Fail::new("HARNESS|out-of-domain", "column indices must be sorted, distinct and below nrows"));
        }
    }
    Ok(())
}

fn to_bits(v: &BitVec) -> Vec<u64> {
    bits_from_indices(&v.clone().into_usizes(), v.len())
}

/// every vector has `ncols` bits, is non-zero and M·v = 0
fn check_vectors(entry: &str, c: &MatCase, m: Option<&BitMat>, ker: &[BitVec]) -> Result<Vec<Vec<u64>>, Fail> {
    let ncols = c.cols.len();
    let mut out = Vec::with_capacity(ker.len());
    for (idx, v) in ker.iter().enumerate() {
        ensure!(
            v.len() == ncols,
            format!("{}|vector-length", entry),
            "vector {} has {} bits for a matrix with {} columns",
            idx,
            v.len(),
            ncols
        );
        let bits = to_bits(v);
        ensure!(
            !is_zero_bits(&bits),
            format!("{}|zero-vector", entry),
            "returned vector {} of {} is zero ({}x{} matrix)",
            idx,
            ker.len(),
            c.nrows,
            ncols
        );
        let img = match m {
            Some(m) => m.mul_vec(&bits),
            None => gf2_mul_cols(c.nrows, &c.cols, &bits),
        };
        ensure!(
            is_zero_bits(&img),
            format!("{}|not-in-kernel", entry),
            "returned vector {} of {} is not annihilated: M·v has {} ones ({}x{} matrix, v has {} ones)",
            idx,
            ker.len(),
            img.iter().map(|w| w.count_ones()).sum::<u32>(),
            c.nrows,
            ncols,
            bits.iter().map(|w| w.count_ones()).sum::<u32>()
        );
        out.push(bits);
    }
    Ok(out)
}

fn size_label(c: &MatCase) -> &'static str {
    match c.cols.len() {
        0..=8 => "cols:1-8",
        9..=64 => "cols:9-64",
        65..=256 => "cols:65-256",
        257..=1000 => "cols:257-1000",
        _ => "cols:>1000",
    }
}

pub fn check_gauss(c: &MatCase, l: &mut Local) -> Result<(), Fail> {
    validate(c)?;
    let ncols = c.cols.len();
    let m = BitMat::from_columns(c.nrows, &c.cols);
    let rank = m.rank();
    let corank = ncols - rank;
    l.case();
    l.label("gauss");
    l.label(&format!("gauss:shape:{}", c.shape));
    l.label(&format!("gauss:{}", size_label(c)));
    l.label(match corank {
        0 => "gauss:corank:0",
        1 => "gauss:corank:1",
        2..=9 => "gauss:corank:2-9",
        10..=100 => "gauss:corank:10-100",
        _ => "gauss:corank:>100",
    });
    if c.cols.iter().any(|x| x.is_empty()) {
        l.label("gauss:has-zero-column");
    }
    {
        let mut s = std::collections::BTreeSet::new();
        if c.cols.iter().any(|x| !x.is_empty() && !s.insert(x)) {
            l.label("gauss:has-duplicate-column");
        }
    }
    if c.nrows > ncols {
        l.label("gauss:more-rows-than-columns");
    }
    if corank >= 1 && ncols >= 65 {
        l.nontrivial_of(&(c.nrows, &c.cols));
        l.sample("gauss:nontrivial", || serde_json::json!({"nrows": c.nrows, "ncols": ncols, "rank": rank, "shape": c.shape}));
    }

    let dense: Vec<BitVec> = c
        .cols
        .iter()
        .map(|col| {
            let mut v = BitVec::zeros(c.nrows);
            for &i in col {
                v.set(i, true);
            }
            v
        })
        .collect();
    let ker = guard("kernel_gauss", || gf2::kernel_gauss(dense))?;
    let vecs = check_vectors("kernel_gauss", c, Some(&m), &ker)?;
    // linearly independent family
    let fam_rank = BitMat::from_rows(ncols, vecs).rank();
    ensure!(
        fam_rank == ker.len(),
        "kernel_gauss|dependent-family",
        "the {} returned vectors span a space of dimension {} ({}x{} matrix of rank {})",
        ker.len(),
        fam_rank,
        c.nrows,
        ncols,
        rank
    );
    // of size ncols - rank
    ensure!(
        ker.len() == corank,
        "kernel_gauss|wrong-kernel-size",
        "{} vectors returned for a {}x{} matrix of rank {} (kernel dimension {})",
        ker.len(),
        c.nrows,
        ncols,
        rank,
        corank
    );
    Ok(())
}

/// Lanczos is only defined where `final_step` may send a matrix and `genblock` can succeed.
fn lanczos_domain(c: &MatCase, m: &BitMat) -> bool {
    c.nrows >= 256 && c.cols.len() > c.nrows && rank_at_least(m, 200)
}

fn rank_at_least(m: &BitMat, want: usize) -> bool {
    // elimination on the first columns only, until `want` pivots are found
    let mut rows = m.rows.clone();
    let mut rank = 0;
    for col in 0..m.ncols {
        let Some(piv) = (rank..rows.len()).find(|&i| linalg::get_bit(&rows[i], col)) else {
            continue;
        };
        rows.swap(rank, piv);
        let (head, tail) = rows.split_at_mut(rank + 1);
        let p = &head[rank];
        for r in tail.iter_mut() {
            if linalg::get_bit(r, col) {
                for (a, b) in r.iter_mut().zip(p) {
                    *a ^= *b;
                }
            }
        }
        rank += 1;
        if rank >= want {
            return true;
        }
    }
    false
}

fn lanczos_limit() -> Duration {
    let s = std::env::var("YQV_LANCZOS_LIMIT_S").ok().and_then(|s| s.parse::<u64>().ok()).unwrap_or(300);
    Duration::from_secs(s)
}

pub fn check_lanczos(c: &MatCase, l: &mut Local) -> Result<(), Fail> {
    validate(c)?;
    if LANCZOS_HUNG.load(Ordering::SeqCst) {
        // a previous call did not come back: its thread is still spinning, do not pile up more
        l.label("lanczos:skipped-after-watchdog");
        return Ok(());
    }
    let ncols = c.cols.len();
    let dense_ok = c.nrows * words(ncols) <= (1 << 23);
    let m = BitMat::from_columns(c.nrows, &c.cols);
    if !lanczos_domain(c, &m) {
        // never call the library outside its domain: genblock would loop forever by design
        l.label("lanczos:outside-domain-not-run");
        return Ok(());
    }
    l.case();
    l.label("lanczos");
    l.label(&format!("lanczos:shape:{}", c.shape));
    l.label(&format!("lanczos:{}", size_label(c)));
    if c.nrows > 5000 {
        l.label("lanczos:rows>5000(final_step-threshold)");
    }
    l.nontrivial_of(&(c.nrows, &c.cols));
    l.sample("lanczos", || serde_json::json!({"nrows": c.nrows, "ncols": ncols, "shape": c.shape}));
    let runs = c.runs.max(1);
    for _ in 0..runs {
        let (tx, rx) = mpsc::channel();
        let cols = c.cols.clone();
        let k = c.nrows;
        std::thread::Builder::new()
            .name("lanczos".into())
            .stack_size(16 << 20)
            .spawn(move || {
                let mat = gf2::SparseMat { k, cols };
                let r = guard("kernel_lanczos", || gf2::kernel_lanczos(&mat, Verbosity::Silent));
                let _ = tx.send(r);
            })
            .map_err(|e| Fail::new("HARNESS|spawn", format!("cannot spawn the watchdog thread: {}", e)))?;
        let ker = match rx.recv_timeout(lanczos_limit()) {
            Ok(r) => r?,
            Err(_) => {
                LANCZOS_HUNG.store(true, Ordering::SeqCst);
                l.label("lanczos:watchdog");
                eprintln!(
                    "C14: kernel_lanczos did not return within {:?} on a {}x{} matrix (hash {:016x})",
                    lanczos_limit(),
                    c.nrows,
                    ncols,
                    hash64(&(c.nrows, &c.cols))
                );
                return Ok(());
            }
        };
        l.label("lanczos:runs");
        l.label_n("lanczos:vectors-returned", ker.len() as u64);
        if ker.is_empty() {
            l.label("lanczos:run-with-no-vector");
        }
        check_vectors("kernel_lanczos", c, if dense_ok { Some(&m) } else { None }, &ker)?;
    }
    Ok(())
}

// ---------------------------------------------------------------------------
// Fixed part

fn fixed_gauss() -> Vec<MatCase> {
    let mut out = vec![];
    let mk = |nrows: usize, shape: &str, cols: Vec<Vec<usize>>| MatCase {
        nrows,
        shape: format!("fixed/{}", shape),
        runs: 0,
        cols,
    };
    // 1x1
    out.push(mk(1, "1x1-zero", vec![vec![]]));
    out.push(mk(1, "1x1-one", vec![vec![0]]));
    // the two 4x4 matrices of the repository's test (columns as written there)
    out.push(mk(4, "repo-rank4", vec![vec![0, 3], vec![1, 3], vec![1], vec![0, 1, 2]]));
    out.push(mk(4, "repo-rank3", vec![vec![0, 3], vec![0, 2], vec![0, 1, 2], vec![0, 1, 3]]));
    // sizes around the word / SIMD block boundaries of the bit vectors
    for &n in &[1usize, 2, 3, 63, 64, 65, 127, 128, 129, 255, 256, 257, 300] {
        // identity: trivial kernel
        out.push(mk(n, "identity", (0..n).map(|i| vec![i]).collect()));
        // all-zero square matrix: kernel is everything
        out.push(mk(n, "allzero", vec![vec![]; n]));
        // identity followed by its copy: corank n
        out.push(mk(n, "identity-twice", (0..2 * n).map(|i| vec![i % n]).collect()));
        // one row, n columns of ones: corank n-1
        out.push(mk(1, "one-row", vec![vec![0]; n]));
        // n rows, one column
        out.push(mk(n, "one-column", vec![(0..n).collect()]));
        out.push(mk(n, "one-zero-column", vec![vec![]]));
        // bidiagonal chain with a closing column: columns e_i + e_{i+1} and e_0 + e_{n-1}: corank 1 for n >= 3
        if n >= 3 {
            let mut cols: Vec<Vec<usize>> = (0..n - 1).map(|i| vec![i, i + 1]).collect();
            cols.push(vec![0, n - 1]);
            out.push(mk(n, "cycle", cols));
        }
        // last row only / first row only set
        out.push(mk(n, "last-row", vec![vec![n - 1]; 3]));
        out.push(mk(n, "first-row", vec![vec![0]; 3]));
    }
    out
}

// ---------------------------------------------------------------------------

fn run(ctx: &Ctx) {
    ctx.set_rule(
        "GF(2) matrices as column lists with distinct row indices (the form final_step builds): profiles qs (64 dense low \
         rows, tail density ~1/i), uniform sparse, uniform dense, very sparse; shapes square/tall/wide/all-zero from 1x1 to \
         400x460 (quick) / 3000x3100 (thorough); corank 0..100 planted as GF(2) combinations of base columns, zero and \
         duplicate columns; fixed grid of identity/all-zero/one-row/one-column/cycle matrices at word and SIMD-block \
         boundaries. Lanczos: >= 256 rows, more columns than rows, rank >= 200 (checked by the kit before the call), each \
         matrix run several times (library-internal randomness), every call under a watchdog thread. Oracle: dense bit \
         product M·v, rank by plain Gaussian elimination. Non-trivial = corank >= 1 and >= 65 columns (Gauss), every \
         Lanczos matrix; distinct by (nrows, columns).",
    );
    ctx.assume("bitvec_simd set/zeros/len/into_usizes are correct (used to build inputs and read results)");
    ctx.assume("the empty column list and matrices with zero rows are outside the domain (\"all shapes from 1x1\"); kernel_gauss(vec![]) panics (defect F4, reported under C03)");
    ctx.assume("kernel_lanczos is only called on matrices with >= 256 rows, more columns than rows and rank >= 200: on small or low-rank inputs its genblock loops forever by design and final_step never sends them");
    if let Err(e) = linalg::self_test() {
        ctx.selfcheck_failed(&format!("oracle kit (linalg) self-test: {}", e));
        return;
    }
    // fixed part
    let mut l = Local::new();
    for c in fixed_gauss() {
        ctx.fixed_case("gauss", &c, &mut l, check_gauss);
    }
    ctx.merge(l);
    // generated part: Gauss
    let (maxr, maxc) = ctx.pick((400, 460), (3000, 3100));
    let cases = ctx.n(16_000, 300_000);
    ctx.par_prop("gauss", 32, cases, || gauss_strategy(maxr, maxc), check_gauss);
    // generated part: Lanczos
    let lmax = ctx.pick(1500, 20000);
    let runs = ctx.pick(5, 50);
    let lcases = ctx.n(320, 3000);
    ctx.par_prop("lanczos", 16, lcases, || lanczos_strategy(lmax, runs), check_lanczos);
    if ctx.label_count("lanczos:watchdog") > 0 {
        ctx.inconclusive("kernel_lanczos did not return within the watchdog limit on an in-domain matrix (see stderr)");
    }
    // Every vector Lanczos returns is Y·k with B·Y·k = 0 found by a final elimination, so a broken
    // iteration shows as *fewer* vectors, not wrong ones: make sure the statement is not held vacuously
    // (every generated matrix has more columns than rows, i.e. a non-trivial kernel).
    let (runs, empty) = (ctx.label_count("lanczos:runs"), ctx.label_count("lanczos:run-with-no-vector"));
    ctx.extra("lanczos_runs_without_vector", serde_json::json!({"runs": runs, "without_vector": empty}));
    if runs > 0 && 2 * empty > runs {
        ctx.selfcheck_failed(&format!(
            "kernel_lanczos returned no vector in {} of {} runs on matrices with a non-trivial kernel: the property would hold vacuously",
            empty, runs
        ));
    }
    for e in [
        "gauss:corank:0",
        "gauss:corank:1",
        "gauss:corank:2-9",
        "gauss:corank:10-100",
        "gauss:has-zero-column",
        "gauss:has-duplicate-column",
        "gauss:more-rows-than-columns",
        "gauss:cols:65-256",
        "gauss:cols:257-1000",
        "gauss:shape:square/qs",
        "gauss:shape:square/uniform",
        "lanczos:shape:lanczos/qs",
        "lanczos:shape:lanczos/uniform",
    ] {
        ctx.essential(e, 3);
    }
    ctx.essential("lanczos:runs", 10);
    // vacuity floor: a Lanczos that never returns a vector would make "every returned vector ..." hold trivially
    ctx.essential("lanczos:vectors-returned", 10);
}

fn replay(_ctx: &Ctx, check_name: &str, case: &Value) -> Result<(), Fail> {
    match check_name {
        "gauss" => replay_as::<MatCase>(case, check_gauss),
        "lanczos" => replay_as::<MatCase>(case, check_lanczos),
        _ => Err(Fail::new("HARNESS|unknown-check", check_name.to_string())),
    }
}
